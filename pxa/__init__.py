"""pxa - repository-specific static analyser for noxrepo/pox (see /verif/DESIGN.md)"""
