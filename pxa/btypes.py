"""R-BYTES: definite bytes / str / int conflicts.

Flow-insensitive inference over {bytes, str, int, unknown}.  Only DEFINITE
conflicts are reported: both operand types known and the operation undefined
(bytes + str, bytes += str, int + str, bytes.ljust(n, str), subscripting
bytes with a tuple) or constant-valued (bytes == str is always False).
Unknown never reports."""
import ast
from .model import walk_no_nested, call_name, norm

B, S, I, U = 'bytes', 'str', 'int', None
T = 'tuple'
PADS = ('_PAD', '_PAD2', '_PAD3', '_PAD4', '_PAD6')

class Conflict(object):
  def __init__ (self, node, kind, left, right, text):
    self.node = node; self.kind = kind; self.left = left; self.right = right; self.text = text
  def __repr__ (self): return "<%s %s vs %s: %s>" % (self.kind, self.left, self.right, self.text)

def ty (e, env, selfattrs=None):
  if isinstance(e, ast.Constant):
    if isinstance(e.value, bytes): return B
    if isinstance(e.value, str): return S
    if isinstance(e.value, bool): return U
    if isinstance(e.value, int): return I
    return U
  if isinstance(e, ast.Name):
    if e.id in PADS: return B
    return env.get(e.id)
  if isinstance(e, ast.Attribute):
    if e.attr in PADS: return B
    if isinstance(e.value, ast.Name) and e.value.id == 'self' and selfattrs: return selfattrs.get(e.attr)
    if e.attr in ('raw',): return U
    return U
  if isinstance(e, ast.JoinedStr): return S
  if isinstance(e, ast.Call):
    f = e.func
    if isinstance(f, ast.Attribute):
      if isinstance(f.value, ast.Name) and f.value.id == 'struct' and f.attr == 'pack': return B
      if isinstance(f.value, ast.Name) and f.value.id == 'struct' and f.attr in ('unpack', 'unpack_from'): return T
      if f.attr in ('pack', 'toRaw', 'encode', '_pack_body', 'tobytes', 'hdr'): return B
      if f.attr in ('decode', 'format', 'hexdigest'): return S
      if f.attr in ('ljust', 'rjust', 'strip', 'replace', 'lower', 'upper', 'lstrip', 'rstrip', 'zfill'):
        return ty(f.value, env, selfattrs)
      if f.attr == 'join':
        return ty(f.value, env, selfattrs)
    if isinstance(f, ast.Name):
      if f.id in ('str', 'repr', 'hex', 'chr', 'oct', 'bin'): return S
      if f.id in ('bytes', '_packzs', 'bytearray'): return B
      if f.id in ('len', 'int', 'ord'): return I
    return U
  if isinstance(e, ast.BinOp):
    l = ty(e.left, env, selfattrs); r = ty(e.right, env, selfattrs)
    if isinstance(e.op, ast.Add):
      if l == r: return l
      return U
    if isinstance(e.op, ast.Mod) and l in (B, S): return l
    if isinstance(e.op, ast.Mult):
      if l in (B, S): return l
      if r in (B, S): return r
      if l == I and r == I: return I
    if isinstance(e.op, (ast.LShift, ast.RShift, ast.BitOr, ast.BitAnd, ast.Sub, ast.FloorDiv)) and l == I and r == I: return I
    return U
  if isinstance(e, ast.Subscript):
    b = ty(e.value, env, selfattrs)
    if b == B: return B if isinstance(e.slice, ast.Slice) else (U if isinstance(e.slice, ast.Tuple) else I)
    if b == S: return S
    return U
  if isinstance(e, ast.IfExp):
    a = ty(e.body, env, selfattrs); b = ty(e.orelse, env, selfattrs)
    return a if a == b else U
  return U

def env_of (fn, assume=None):
  """local variable types (single consistent type over all assignments; parameters
  only when asserted with isinstance(p, bytes/str/int))"""
  env = dict(assume or {})
  params = set(a.arg for a in fn.args.args + fn.args.kwonlyargs)
  env = dict((k, v) for k, v in env.items() if k in params)
  for s in ast.walk(fn):
    if isinstance(s, ast.Assert):
      for t in ast.walk(s.test):
        if isinstance(t, ast.Call) and isinstance(t.func, ast.Name) and t.func.id == 'isinstance' and len(t.args) == 2 and isinstance(t.args[0], ast.Name) and isinstance(t.args[1], ast.Name):
          if t.args[1].id in ('bytes', 'str', 'int'): env[t.args[0].id] = {'bytes': B, 'str': S, 'int': I}[t.args[1].id]
  for _ in range(3):
    defs = {}
    for s in walk_no_nested(fn):
      if isinstance(s, ast.Assign) and len(s.targets) == 1 and isinstance(s.targets[0], ast.Name):
        defs.setdefault(s.targets[0].id, set()).add(ty(s.value, env))
      elif isinstance(s, ast.Assign):
        for t in s.targets:
          for x in ast.walk(t):
            if isinstance(x, ast.Name) and isinstance(x.ctx, ast.Store): defs.setdefault(x.id, set()).add(U)
      elif isinstance(s, ast.AugAssign) and isinstance(s.target, ast.Name):
        pass        # x += y keeps x's type when defined; conflicts are reported separately
      elif isinstance(s, (ast.For, ast.AsyncFor, ast.With, ast.comprehension)):
        tg = s.target if not isinstance(s, ast.With) else None
        if tg is not None:
          for x in ast.walk(tg):
            if isinstance(x, ast.Name): defs.setdefault(x.id, set()).add(U)
        if isinstance(s, ast.With):
          for i in s.items:
            if i.optional_vars is not None:
              for x in ast.walk(i.optional_vars):
                if isinstance(x, ast.Name): defs.setdefault(x.id, set()).add(U)
      elif isinstance(s, ast.ExceptHandler) and s.name: defs.setdefault(s.name, set()).add(U)
    for k, v in defs.items():
      if k in params and k not in env: continue
      if len(v) == 1 and U not in v: env[k] = next(iter(v))
      elif k in env and k not in params: del env[k]
  return env

def conflicts (fn, selfattrs=None, assume=None):
  env = env_of(fn, assume)
  out = []
  for s in walk_no_nested(fn):
    if isinstance(s, ast.AugAssign) and isinstance(s.op, ast.Add):
      l = ty(s.target, env, selfattrs); r = ty(s.value, env, selfattrs)
      if l and r and l != r and {l, r} <= {B, S, I, T}: out.append(Conflict(s, 'concat', l, r, norm(s)[:80]))
    elif isinstance(s, ast.BinOp) and isinstance(s.op, ast.Add):
      l = ty(s.left, env, selfattrs); r = ty(s.right, env, selfattrs)
      if l and r and l != r and {l, r} <= {B, S, I}: out.append(Conflict(s, 'concat', l, r, norm(s)[:80]))
    elif isinstance(s, ast.Subscript):
      if ty(s.value, env, selfattrs) == B and isinstance(s.slice, ast.Tuple): out.append(Conflict(s, 'tuple-index', B, 'tuple', norm(s)[:80]))
    elif isinstance(s, ast.Compare) and len(s.ops) == 1 and isinstance(s.ops[0], (ast.Eq, ast.NotEq)):
      l = ty(s.left, env, selfattrs); r = ty(s.comparators[0], env, selfattrs)
      if l in (B, S) and r in (B, S) and l != r: out.append(Conflict(s, 'compare', l, r, norm(s)[:80]))
    elif isinstance(s, ast.Call) and isinstance(s.func, ast.Attribute) and s.func.attr in ('ljust', 'rjust') and len(s.args) == 2:
      b = ty(s.func.value, env, selfattrs); f = ty(s.args[1], env, selfattrs)
      if b in (B, S) and f in (B, S) and b != f: out.append(Conflict(s, 'fill', b, f, norm(s)[:80]))
    elif isinstance(s, ast.Call) and isinstance(s.func, ast.Attribute) and s.func.attr == 'join' and s.args:
      b = ty(s.func.value, env, selfattrs)
      if b in (B, S) and isinstance(s.args[0], (ast.List, ast.Tuple)):
        for x in s.args[0].elts:
          t = ty(x, env, selfattrs)
          if t in (B, S, I) and t != b: out.append(Conflict(s, 'join', b, t, norm(s)[:80])); break
  return out

def ord_of_bytes_elements (fnode):
  """sites `ord(c)` where c is an element of something that is (or may be, per an isinstance guard that includes bytes)
  a bytes object: iterating bytes yields ints in Python 3, so ord() raises TypeError.  Returns [ast.Call]."""
  out = []
  def bytes_like (it, guards):
    if ty(it, {}) == B: return True
    return norm(it) in guards
  # names guarded by isinstance(x, (str, bytes)) / isinstance(x, bytes)
  guards = set()
  for n in ast.walk(fnode):
    if isinstance(n, ast.Call) and isinstance(n.func, ast.Name) and n.func.id == 'isinstance' and len(n.args) == 2:
      k = n.args[1]; names = [norm(x) for x in k.elts] if isinstance(k, ast.Tuple) else [norm(k)]
      if 'bytes' in names: guards.add(norm(n.args[0]))
  for n in ast.walk(fnode):
    if isinstance(n, (ast.ListComp, ast.GeneratorExp, ast.SetComp)):
      for gen in n.generators:
        if isinstance(gen.target, ast.Name) and bytes_like(gen.iter, guards):
          for c in ast.walk(n.elt):
            if isinstance(c, ast.Call) and isinstance(c.func, ast.Name) and c.func.id == 'ord' and len(c.args) == 1 and norm(c.args[0]) == gen.target.id: out.append(c)
    elif isinstance(n, ast.For) and isinstance(n.target, ast.Name) and bytes_like(n.iter, guards):
      for b in n.body:
        for c in ast.walk(b):
          if isinstance(c, ast.Call) and isinstance(c.func, ast.Name) and c.func.id == 'ord' and len(c.args) == 1 and norm(c.args[0]) == n.target.id: out.append(c)
  return out
