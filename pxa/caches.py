"""R-CACHE: a value a class remembers (an attribute that is None until a method computes it, or a remembered (query, result) pair) is
only as good as its invalidation.  For every such attribute the rule derives, from the code, what the remembered value was computed
from (the attributes of self the computing method reads, and the fields its element tests read), and demands of every function of the
repository that writes one of those - on whatever receiver expression - that it also resets the remembered value on the same
receiver (directly, or by calling a method of the class that does).  A class without remembered values yields no obligations."""
import ast
from . import q
from .q import norm
from .model import call_name, calls_in

def _is_private (nm): return nm.startswith('_') and not nm.startswith('__')

def find_caches (K):
  out = []
  for M in K.methods.values():
    tested = set(); stored = set()
    for n in ast.walk(M.node):
      if isinstance(n, ast.Compare) and len(n.ops) == 1 and isinstance(n.ops[0], (ast.Is, ast.IsNot)) and isinstance(n.comparators[0], ast.Constant) and n.comparators[0].value is None \
         and isinstance(n.left, ast.Attribute) and norm(n.left.value) == 'self': tested.add(n.left.attr)
    for t, v, st, k in q.stores_in(M.node):
      if isinstance(t, ast.Attribute) and norm(t.value) == 'self' and k == 'assign' and not (isinstance(v, ast.Constant) and v.value is None): stored.add(t.attr)
    for C in sorted(tested & stored):
      # C is also reset to None somewhere in the class (otherwise it is a lazily built constant, not a cache of mutable state)
      resets = [F for F in K.methods.values() if any(isinstance(t, ast.Attribute) and norm(t.value) == 'self' and t.attr == C and isinstance(v, ast.Constant) and v.value is None
                                                      for t, v, st, k in q.stores_in(F.node)) and F.name != '__init__']
      out.append((C, M, resets))
    # a memo table: `r = self.C.get(key)` ... `self.C[key] = <computed>` in one method; it is reset by whoever clears or re-creates it
    got = set(); put = set()
    for c in calls_in(M.node, nested=True):
      if call_name(c) == 'get' and isinstance(c.func, ast.Attribute) and isinstance(c.func.value, ast.Attribute) and norm(c.func.value.value) == 'self': got.add(c.func.value.attr)
    for n in ast.walk(M.node):
      if isinstance(n, ast.Compare) and len(n.ops) == 1 and isinstance(n.ops[0], (ast.In, ast.NotIn)) and isinstance(n.comparators[0], ast.Attribute) and norm(n.comparators[0].value) == 'self': got.add(n.comparators[0].attr)
    for t, v, st, k in q.stores_in(M.node):
      if isinstance(t, ast.Subscript) and isinstance(t.value, ast.Attribute) and norm(t.value.value) == 'self' and k == 'assign': put.add(t.value.attr)
    for C in sorted(got & put):
      if any(C == c_ for c_, m_, r_ in out): continue
      resets = []
      for F in K.methods.values():
        if F.name == '__init__' or F is M: continue
        clears = any(call_name(c) == 'clear' and isinstance(c.func, ast.Attribute) and isinstance(c.func.value, ast.Attribute) and c.func.value.attr == C and norm(c.func.value.value) == 'self' for c in calls_in(F.node))
        renew = any(isinstance(t, ast.Attribute) and norm(t.value) == 'self' and t.attr == C and isinstance(v, (ast.Dict, ast.Call)) for t, v, st, k in q.stores_in(F.node))
        if clears or renew: resets.append(F)
      out.append((C, M, resets))
  return out

def _callee_fields (repo, names, depth=0):
  """attributes of self read by the methods called `names` on elements (resolved by unique method name over the repo's classes)"""
  out = set()
  for nm in names:
    defs_ = [c.methods[nm] for m in repo.modules.values() for c in m.classes.values() if nm in c.methods]
    if len(defs_) != 1: continue
    f = defs_[0]
    for n in ast.walk(f.node):
      if isinstance(n, ast.Attribute) and isinstance(n.ctx, ast.Load) and norm(n.value) == 'self' and n.attr not in f.cls.methods: out.add(n.attr)
    if depth < 1:
      out |= _callee_fields(repo, set(call_name(c) for c in calls_in(f.node) if isinstance(c.func, ast.Attribute) and norm(c.func.value) == 'self'), depth + 1)
  return out

def check (ctx, repo, classes, clause, what):
  n = 0
  for K in classes:
    for C, M, resets in find_caches(K):
      if not resets: continue
      n += 1
      ctx.analysed(M)
      reset_names = set(F.name for F in resets)
      # methods that reset by calling a resetting method
      for F in K.methods.values():
        if any(call_name(c) in reset_names and isinstance(c.func, ast.Attribute) and norm(c.func.value) == 'self' for c in calls_in(F.node)): reset_names.add(F.name)
      inputs = set(x.attr for x in ast.walk(M.node) if isinstance(x, ast.Attribute) and isinstance(x.ctx, ast.Load) and norm(x.value) == 'self' and x.attr != C and x.attr not in K.methods and _is_private(x.attr))
      elem_calls = set(call_name(c) for c in calls_in(M.node, nested=True) if isinstance(c.func, ast.Attribute) and isinstance(c.func.value, ast.Name) and c.func.value.id != 'self')
      fields = _callee_fields(repo, elem_calls)
      views = set(K.methods) | set(['entries'])
      def resets_on (F, recv):
        for t, v, st, k in q.stores_in(F.node):
          if isinstance(t, ast.Attribute) and t.attr == C and norm(t.value) == recv: return True
        for c in calls_in(F.node, nested=True):
          if isinstance(c.func, ast.Attribute) and c.func.attr in reset_names and norm(c.func.value) == recv: return True
        return False
      for m in repo.modules.values():
        funcs = list(m.funcs.values()) + [f for c in m.classes.values() for f in c.methods.values()]
        for F in funcs:
          if F is M: continue
          if not any(i in m.src for i in inputs | fields): continue
          for i in sorted(inputs):
            for kind, site in q.mutations_of_attr(F.node, i):
              recv = None
              for x in ast.walk(site):
                if isinstance(x, ast.Attribute) and x.attr == i: recv = norm(x.value); break
              if recv is None: continue
              if recv == 'self' and (F.cls is None or K not in F.cls.mro()): continue      # another class's attribute of the same name
              if F.name == '__init__' and recv == 'self': continue
              good = resets_on(F, recv) or (recv == 'self' and F.cls is not None and K in F.cls.mro() and F.name in reset_names)
              ctx.ob('R-CACHE', F, "a writer of `%s.%s` also resets the remembered `%s` (%s)" % (recv, i, C, kind), good, "reset on the same receiver" if good else
                     "%s computes `%s` from `%s` and keeps it until `%s` is reset; %s changes `%s.%s` (%s) and does not reset `%s.%s` (nor call %s on it): from then on %s answers from the stale value - %s"
                     % (M.qual, C, i, C, F.qual, recv, i, kind, recv, C, '/'.join(sorted(reset_names)) or 'a resetting method', M.name, what), (m, site), clause)
          # fields of the elements the remembered value was filtered by
          for t, v, st, k in q.stores_in(F.node):
            if not (isinstance(t, ast.Attribute) and t.attr in fields and isinstance(t.value, ast.Name)): continue
            var = t.value.id
            for lp in ast.walk(F.node):
              if isinstance(lp, (ast.For, ast.comprehension)) and any(isinstance(x, ast.Name) and x.id == var for x in ast.walk(lp.target)):
                it = lp.iter
                base = it.func.value if isinstance(it, ast.Call) and isinstance(it.func, ast.Attribute) else (it.value if isinstance(it, ast.Attribute) else None)
                nm_ = it.func.attr if isinstance(it, ast.Call) and isinstance(it.func, ast.Attribute) else (it.attr if isinstance(it, ast.Attribute) else None)
                if base is None or nm_ not in views and nm_ not in inputs: continue
                recv = norm(base)
                good = resets_on(F, recv)
                ctx.ob('R-CACHE', F, "changing `%s` of an element of `%s.%s` resets the remembered `%s`" % (t.attr, recv, nm_, C), good, "reset on the owner" if good else
                       "%s keeps `%s`, which was selected by the elements' `%s`; %s changes `%s.%s` of an element it got from `%s.%s` without resetting `%s.%s` (no %s call on it): the next %s with the same arguments answers with the selection made before the change - %s"
                       % (M.qual, C, t.attr, F.qual, var, t.attr, recv, nm_, recv, C, '/'.join(sorted(reset_names)), M.name, what), (m, st), clause)
  ctx.stat('remembered values (caches) examined', n)
  return n
