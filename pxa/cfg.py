"""Statement-level control-flow graph for one function.

Node kinds: entry, exit (normal return / fall off the end), raise (exception
leaves the function), stmt, cond (an atomic test; short-circuit and/or/not are
split), branch (one per outgoing edge of a cond; carries (test, polarity)),
return, raise_stmt, break, continue, handler, def (nested def/class), join.

Exception edges are coarse: any statement inside a `try` body that contains a
call, subscript, attribute access or arithmetic may transfer to each handler
of the innermost enclosing try (labelled 'exc'); both "raised before the
statement had its effect" and "after" are modelled (edges from the statement
and from its predecessors).
"""
import ast

class Node(object):
  __slots__ = ('id', 'kind', 'ast', 'succ', 'pred', 'label', 'stmt')
  def __init__ (self, id, kind, a=None, label=None, stmt=None):
    self.id = id; self.kind = kind; self.ast = a; self.succ = []; self.pred = []
    self.label = label
    self.stmt = stmt      # enclosing statement AST (for cond nodes)
  @property
  def line (self):
    a = self.ast if self.ast is not None else self.stmt
    return getattr(a, 'lineno', None)
  def text (self, n=70):
    if self.kind == 'branch':
      return "%s is %s" % (ast.unparse(self.label[0])[:n], self.label[1])
    a = self.ast
    if a is None: return self.kind
    if isinstance(a, (ast.For, ast.AsyncFor)):
      return "for %s in %s" % (ast.unparse(a.target), ast.unparse(a.iter)[:n])
    if isinstance(a, (ast.With,)):
      return "with " + ", ".join(ast.unparse(i)[:n] for i in a.items)
    if isinstance(a, (ast.FunctionDef, ast.ClassDef)): return "def " + a.name
    if isinstance(a, ast.ExceptHandler):
      return "except " + (ast.unparse(a.type) if a.type is not None else '')
    return ast.unparse(a).split('\n')[0][:n]
  def __repr__ (self):
    return "<%d %s L%s %s>" % (self.id, self.kind, self.line, self.text(40))

_RAISY = (ast.Call, ast.Subscript, ast.Attribute, ast.BinOp, ast.Compare)

class CFG(object):
  def __init__ (self, fn, body=None):
    """fn: ast.FunctionDef / Lambda (or any node with .body list)"""
    self.fn = fn; self.nodes = []
    self._trystack = []; self.try_of = {}
    self.entry = self._new('entry'); self.exit = self._new('exit')
    self.raise_exit = self._new('raise')
    self._loops = []       # (head, after, finally-depth)
    self._tries = []       # stack of lists of exception targets
    self._finals = []      # stack of finalbody lists (for return-through-finally)
    self.loop_nodes = []   # (ast loop stmt, head node, after node)
    if body is None:
      body = fn.body if isinstance(fn.body, list) else [ast.Expr(fn.body)]
      if not isinstance(fn.body, list):
        body = [ast.Return(fn.body)]
        ast.copy_location(body[0], fn.body)
    ends = self._block(body, [self.entry])
    self._link(ends, self.exit)
  # -- construction
  def _new (self, kind, a=None, label=None, stmt=None):
    n = Node(len(self.nodes), kind, a, label, stmt); self.nodes.append(n)
    self.try_of[n] = tuple(self._trystack)   # enclosing ast.Try bodies, innermost last
    return n
  def _edge (self, a, b, lab=None):
    for (x, l) in a.succ:
      if x is b and l == lab: return
    a.succ.append((b, lab)); b.pred.append((a, lab))
  def _link (self, preds, n):
    for p in preds: self._edge(p, n)
  def _exc_targets (self):
    return self._tries[-1] if self._tries else [self.raise_exit]
  def _mayraise (self, n, preds=()):
    a = n.ast
    if a is None: return
    raisy = any(isinstance(x, _RAISY) for x in ast.walk(a)) if not isinstance(a, (ast.For, ast.With)) else True
    if not raisy: return
    for t in self._exc_targets():
      self._edge(n, t, 'exc')
      if self._tries:
        for p in preds: self._edge(p, t, 'exc')
  def _block (self, stmts, preds):
    for s in stmts:
      preds = self._stmt(s, preds)
    return preds
  def _cond (self, test, preds, stmt):
    """Build nodes for a test; returns (true_outs, false_outs) lists of branch nodes"""
    if isinstance(test, ast.BoolOp):
      t_outs = []; f_outs = []
      cur = preds
      for i, v in enumerate(test.values):
        t, f = self._cond(v, cur, stmt)
        last = i == len(test.values) - 1
        if isinstance(test.op, ast.And):
          f_outs += f
          if last: t_outs += t
          else: cur = t
        else:
          t_outs += t
          if last: f_outs += f
          else: cur = f
      return t_outs, f_outs
    if isinstance(test, ast.UnaryOp) and isinstance(test.op, ast.Not):
      t, f = self._cond(test.operand, preds, stmt)
      return f, t
    c = self._new('cond', test, stmt=stmt); self._link(preds, c); self._mayraise(c, preds)
    bt = self._new('branch', None, (test, True), stmt); self._edge(c, bt, True)
    bf = self._new('branch', None, (test, False), stmt); self._edge(c, bf, False)
    return [bt], [bf]
  def _stmt (self, s, preds):
    if isinstance(s, ast.If):
      t, f = self._cond(s.test, preds, s)
      to = self._block(s.body, t)
      fo = self._block(s.orelse, f) if s.orelse else f
      return to + fo
    if isinstance(s, ast.While):
      head = self._new('join', None, 'loop-head', s); self._link(preds, head)
      after = self._new('join', None, 'after-loop', s)
      const_true = isinstance(s.test, ast.Constant) and bool(s.test.value)
      if const_true:
        t, f = [head], []
      else:
        t, f = self._cond(s.test, [head], s)
      self._loops.append((head, after, len(self._finals)))
      self.loop_nodes.append((s, head, after))
      b = self._block(s.body, t)
      self._loops.pop()
      for p in b: self._edge(p, head, 'back')
      e = self._block(s.orelse, f) if s.orelse else f
      self._link(e, after)
      return [after]
    if isinstance(s, ast.For) and isinstance(s.iter, (ast.Tuple, ast.List)) and len(s.iter.elts) == 1 and isinstance(s.iter.elts[0], ast.Constant) \
       and isinstance(s.target, ast.Name) and not s.orelse:
      # a loop over a literal one-element sequence (the normaliser's rendering of an inlined helper's early returns): the body runs
      # exactly once, `break` / `continue` / falling off the end all lead behind it - no loop head, no back edge
      after = self._new('join', None, 'after-once', s)
      self._loops.append((after, after, len(self._finals)))
      b = self._block(s.body, preds)
      self._loops.pop()
      self._link(b, after)
      return [after]
    if isinstance(s, (ast.For, ast.AsyncFor)):
      it = self._new('stmt', s.iter, 'for-iter', s); self._link(preds, it); self._mayraise(it, preds)
      head = self._new('for', s, 'loop-head', s); self._edge(it, head)
      after = self._new('join', None, 'after-loop', s)
      bt = self._new('branch', None, (s, True), s); self._edge(head, bt, True)
      bf = self._new('branch', None, (s, False), s); self._edge(head, bf, False)
      self._loops.append((head, after, len(self._finals)))
      self.loop_nodes.append((s, head, after))
      b = self._block(s.body, [bt])
      self._loops.pop()
      for p in b: self._edge(p, head, 'back')
      e = self._block(s.orelse, [bf]) if s.orelse else [bf]
      self._link(e, after)
      return [after]
    if isinstance(s, ast.Try) or (hasattr(ast, 'TryStar') and isinstance(s, ast.TryStar)):
      hentries = [self._new('handler', h, stmt=s) for h in s.handlers]
      catch_all = any(_catches_all(h) for h in s.handlers)
      outer = self._exc_targets()
      fin_exc = None
      if s.finalbody:
        # exceptional copy of the finally body, leading to the outer targets
        fe = self._new('join', None, 'finally-exc', s)
        outs = self._block(s.finalbody, [fe])
        for o in outs:
          for t in outer: self._edge(o, t, 'exc')
        fin_exc = fe
        outer_for_body = [fe]
      else:
        outer_for_body = outer
      targets = list(hentries)
      if not catch_all: targets += outer_for_body
      self._tries.append(targets)
      self._finals.append(s.finalbody)
      self._trystack.append(s)
      b = self._block(s.body, preds)
      self._trystack.pop()
      self._tries.pop()
      # handlers and else run with the outer exception context (+ finally)
      self._tries.append(outer_for_body)
      b = self._block(s.orelse, b) if s.orelse else b
      outs = list(b)
      for h, he in zip(s.handlers, hentries):
        outs += self._block(h.body, [he])
      self._tries.pop()
      self._finals.pop()
      if s.finalbody:
        outs = self._block(s.finalbody, outs)
      return outs
    if isinstance(s, (ast.With, ast.AsyncWith)):
      n = self._new('stmt', s, 'with', s); self._link(preds, n); self._mayraise(n, preds)
      return self._block(s.body, [n])
    if isinstance(s, ast.Return):
      n = self._new('return', s); self._link(preds, n); self._mayraise(n, preds)
      outs = [n]
      for fb in reversed(self._finals):
        if fb: outs = self._block(fb, outs)
      self._link(outs, self.exit); return []
    if isinstance(s, ast.Raise):
      n = self._new('raise_stmt', s); self._link(preds, n)
      for t in self._exc_targets(): self._edge(n, t, 'exc')
      return []
    if isinstance(s, ast.Break):
      n = self._new('break', s); self._link(preds, n)
      outs = [n]
      for fb in reversed(self._finals[self._loops[-1][2]:]):
        if fb: outs = self._block(fb, outs)
      self._link(outs, self._loops[-1][1]); return []
    if isinstance(s, ast.Continue):
      n = self._new('continue', s); self._link(preds, n)
      outs = [n]
      for fb in reversed(self._finals[self._loops[-1][2]:]):
        if fb: outs = self._block(fb, outs)
      for o in outs: self._edge(o, self._loops[-1][0], 'back')
      return []
    if isinstance(s, ast.Assert):
      t, f = self._cond(s.test, preds, s)
      for x in f:
        for tg in self._exc_targets(): self._edge(x, tg, 'exc')
      return t
    if isinstance(s, (ast.FunctionDef, ast.ClassDef, ast.AsyncFunctionDef)):
      n = self._new('def', s); self._link(preds, n); return [n]
    if isinstance(s, ast.Match):
      n = self._new('stmt', s.subject, 'match', s); self._link(preds, n)
      outs = [n]
      for c in s.cases: outs += self._block(c.body, [n])
      return outs
    n = self._new('stmt', s); self._link(preds, n); self._mayraise(n, preds)
    return [n]
  # -- queries
  def reachable (self, src, avoid=(), exc=True, into_avoid=False):
    """set of nodes reachable from src (list or node) without passing through
    a node in `avoid` (src itself is always expanded)."""
    avoid = set(avoid)
    st = list(src) if isinstance(src, (list, tuple, set)) else [src]
    seen = set(st)
    while st:
      n = st.pop()
      for m, l in n.succ:
        if not exc and l == 'exc': continue
        if m in seen: continue
        if m in avoid:
          if into_avoid: seen.add(m)
          continue
        seen.add(m); st.append(m)
    return seen
  def dominates (self, a, b, exc=True):
    """every path entry -> b passes through a (a may be a set of nodes)"""
    A = a if isinstance(a, (set, list, tuple)) else [a]
    if b in A: return True
    return b not in self.reachable(self.entry, avoid=A, exc=exc)
  def postdominates (self, b, a, exits=None, exc=False):
    """every path from a to a normal exit passes through b (set or node).
    With exc=False exception edges are ignored (normal completion only)."""
    B = b if isinstance(b, (set, list, tuple)) else [b]
    exits = exits or [self.exit]
    r = self.reachable(a, avoid=B, exc=exc)
    return not any(e in r for e in exits)
  def exc_targets (self, n):
    return [m for m, l in n.succ if l == 'exc']
  def raises_out (self, n):
    """can an exception raised *by node n itself* leave the function?
    (handlers that catch it are assumed to complete; what the handler bodies
    do is a separate question)"""
    for t in self.exc_targets(n):
      if t is self.raise_exit: return True
      if t.kind == 'join' and t.label == 'finally-exc':
        if self.raise_exit in self.reachable(t): return True
    return False
  def handlers_for (self, n):
    return [t for t in self.exc_targets(n) if t.kind == 'handler']
  def guards (self, n, exc=True):
    """[(test_ast, polarity, branch_node)] for branch nodes dominating n"""
    out = []
    live = self.reachable(self.entry, exc=exc)
    for b in self.nodes:
      if b.kind != 'branch' or b not in live or b is n: continue
      if self.dominates(b, n, exc=exc): out.append((b.label[0], b.label[1], b))
    return out
  def stmt_nodes (self, pred=None):
    for n in self.nodes:
      if n.kind in ('stmt', 'cond', 'return', 'raise_stmt', 'for') and n.ast is not None:
        if pred is None or pred(n): yield n
  def nodes_with_call (self, test):
    """nodes whose own expression (not nested defs) contains a Call satisfying test"""
    from .model import calls_in
    out = []
    for n in self.stmt_nodes():
      a = n.ast
      if n.kind == 'for': a = None
      if a is None: continue
      if isinstance(a, ast.With):
        srcs = [i.context_expr for i in a.items]
      else: srcs = [a]
      for s in srcs:
        if any(test(c) for c in calls_in(s)):
          out.append(n); break
    return out
  def interval (self, weight, exc=False, start=None, stop=None, avoid=()):
    """(lo, hi) number of effects on any path start->stop, hi capped at 2
    (2 = 'many').  weight(node) -> int or (lo,hi).  Paths ending in the raise
    exit are ignored unless stop says otherwise. None if stop unreachable."""
    CAP = 2
    start = start or self.entry; stop = stop or self.exit
    lo = {}; hi = {}
    def w (n):
      v = weight(n)
      if v is None or v is False: return (0, 0)
      if v is True: return (1, 1)
      if isinstance(v, int): return (v, v)
      return v
    order = [n for n in self.nodes]
    lo[start], hi[start] = w(start)
    changed = True; it = 0
    while changed and it < 200:
      changed = False; it += 1
      for n in order:
        if n is start or n in avoid: continue
        ins = [(lo[p], hi[p]) for p, l in n.pred if p in lo and (exc or l != 'exc') and not (p is stop and p is not start)]
        if not ins: continue
        wl, wh = w(n)
        l = min(a for a, b in ins) + wl
        h = min(CAP, max(b for a, b in ins) + wh)
        if n in lo:
          l = min(l, lo[n]); h = max(h, hi[n])
        if n not in lo or (l, h) != (lo[n], hi[n]):
          lo[n], hi[n] = l, h; changed = True
    if stop not in lo: return None
    return (lo[stop], hi[stop])
  def paths (self, start=None, stops=None, limit=2000, exc=False, max_back=1):
    """enumerate node paths start->stop; each back edge taken <= max_back times.
    Returns (paths, complete_flag)"""
    start = start or self.entry
    stops = set(stops or [self.exit])
    out = []; complete = True
    stack = [(start, (start,), {})]
    while stack:
      n, path, backs = stack.pop()
      if n in stops and len(path) > 1 or (n in stops and start in stops and len(path) > 1):
        out.append(path)
        if len(out) >= limit: complete = False; break
        continue
      for m, l in n.succ:
        if not exc and l == 'exc': continue
        nb = backs
        if l == 'back' or m in path:
          k = (n.id, m.id)
          c = backs.get(k, 0)
          if c >= max_back: continue
          nb = dict(backs); nb[k] = c + 1
        stack.append((m, path + (m,), nb))
    return out, complete
  def loop_body_nodes (self, head):
    """nodes of the natural loop with the given head (those that can reach a
    back edge into head without leaving through head)"""
    body = set([head])
    st = [p for p, l in head.pred if l == 'back']
    while st:
      n = st.pop()
      if n in body: continue
      body.add(n)
      for p, l in n.pred: st.append(p)
    return body
  def dump (self):
    return "\n".join("%r -> %s" % (n, [(m.id, l) for m, l in n.succ]) for n in self.nodes)

def _catches_all (h):
  if h.type is None: return True
  names = []
  t = h.type
  for e in (t.elts if isinstance(t, ast.Tuple) else [t]):
    if isinstance(e, ast.Name): names.append(e.id)
  return 'BaseException' in names or 'Exception' in names

def catches (handler, excname):
  """does `except` clause catch exception class named excname (by name only;
  Exception/BaseException/bare catch everything that is not a BaseException-only)"""
  if handler.type is None: return True
  t = handler.type
  for e in (t.elts if isinstance(t, ast.Tuple) else [t]):
    nm = e.id if isinstance(e, ast.Name) else (e.attr if isinstance(e, ast.Attribute) else None)
    if nm in ('BaseException', 'Exception', excname): return True
  return False
