"""C01 - OpenFlow 1.0 wire codec lossless and per spec (structural part).

 D1 R-REG      registries (message, action, stats, queue property codes) vs the OF 1.0 tables
 D2 R-LAYOUT   pack byte layout == unpack byte layout for every codec class (libopenflow_01 + nicira bodies)
 D3 R-LAYOUT   fixed part == OF 1.0 structure (names, order, widths, sizeof); __len__ constant and _MIN_LENGTH
 D4 R-LENFIELD length slots are fed by the real length
 D5 R-BYTES    everything concatenated into a packed buffer is bytes
 D6 R-DEF      definiteness in codec methods (names, locals, @staticmethod reading self, write-only privates, arity)
 D7 R-DOM      consumed == declared assertions (unpack_new)
 D8            NXM table vs nicira-ext.h; uniqueness of (vendor, field)
 D9 R-SIB      _wire_wildcards / _unwire_wildcards / fix branch on the same ethertypes and touch inverse bit sets
 D10 R-AGREE   zero preservation: an int slot is never fed by `x or K` with K != 0
 D11 R-AGREE   bit-field composites (ofs_nbits): unpack inverts pack on a sample domain (constant evaluation)
"""
import ast, struct
from .. import q, ofreg, defs, layout, codecq, btypes
from ..model import AnalysisError, Cls, calls_in, call_name, norm, kwarg, walk_no_nested

EXPLAIN = ("R-REG registries re-derived from decorators vs OF1.0 enums; R-LAYOUT byte layouts abstractly interpreted from every "
           "pack/unpack (and Nicira _pack_body/_unpack_body) compared with each other and with the OF1.0 structures (order, widths, "
           "names, sizeof, __len__, _MIN_LENGTH); R-LENFIELD length slots; R-BYTES definite bytes/str conflicts; R-DEF definiteness; "
           "consumed==declared asserts; NXM table vs nicira-ext.h; R-SIB wire/unwire/fix symmetry; zero preservation; bit-field "
           "composites inverted on a sample domain by constant evaluation. Decides these necessary conditions, not value round trips.")
LOF = 'openflow.libopenflow_01'; NX = 'openflow.nicira'
CODEC_METHODS = ('pack', 'unpack', '__len__', '_pack_body', '_unpack_body', '_body_length', 'unpack_new', '_unpack_header')

def run (ctx):
  ctx.explanation = EXPLAIN
  ctx.assumptions = ["struct format semantics of CPython", "assert statements execute", "codec methods have the restricted shape the layout extractor interprets (others are UNDECIDED)"]
  repo = ctx.repo
  lof = repo.mod(LOF); nx = repo.mod(NX)
  spec = ofreg.spec(); structs = ofreg.spec('of10_structs'); nxm = ofreg.spec('nxm_fields')
  _registries(ctx, repo, lof, spec)
  # ---- D2/D3/D4/D10 layouts -----------------------------------------------------------------------
  n_both = 0; n_spec = 0; n_ext = 0
  spec_by_class = dict((v['class'], (k, v)) for k, v in structs.items() if not k.startswith('_'))
  layouts = {}
  for c in lof.classes.values():
    if not ({'pack', 'unpack'} & set(c.methods)): continue
    ex = layout.Extractor(repo, c)
    P = U = None; perr = uerr = None
    try: P = ex.pack_layout() if c.find_method('pack') else None
    except layout.Unknown as e: perr = str(e)
    try: U = ex.unpack_layout() if c.find_method('unpack') else None
    except layout.Unknown as e: uerr = str(e)
    layouts[c.name] = (P, U)
    if P is not None or U is not None: n_ext += 1
    for f in (c.methods.get('pack'), c.methods.get('unpack')):
      if f: ctx.analysed(f)
    for side, err in (('pack', perr), ('unpack', uerr)):
      if err: ctx.undecided('R-LAYOUT', c.qual, "%s layout" % side, "not interpretable: %s" % err, c, 'D2')
    if c.name == 'ofp_header':
      # header: pack is the 4 fields, unpack delegates to _unpack_header
      try: U = ex.unpack_layout(c.methods.get('_unpack_header'))
      except layout.Unknown: U = None
    for note in ex.notes:
      if note[0] == 'alt-width':
        ctx.bad('R-LAYOUT', c.qual, "alternatives for `%s` have equal width" % note[1], "one branch packs %s byte(s), the other %s" % (note[2], note[3]), (lof, note[4]), 'D2')
    if P is not None and U is not None and 'pack' in c.methods and ('unpack' in c.methods or c.name == 'ofp_header'):
      n_both += 1
      diffs = codecq.compare_sides(P, U)
      if c.name == 'ofp_flow_mod': diffs = [d for d in diffs if 'barrier' not in d[1] and '$po' not in d[1]]
      if not diffs: ctx.ok('R-LAYOUT', c.qual, "pack layout == unpack layout", "%d items agree" % len(codecq.normalise(P)), c, 'D2')
      for off, what in diffs:
        ctx.bad('R-LAYOUT', c.qual, "pack layout == unpack layout (%s)" % what[:70], "at offset %s: %s - decoding what was encoded yields different fields" % (off, what), c, 'D2')
    sp = spec_by_class.get(c.name)
    if sp is not None:
      sname, sv = sp
      for side, L in (('pack', P), ('unpack', U)):
        if L is None: continue
        n_spec += 1
        diffs = codecq.compare_spec(L, sv['fields'], side)
        if not diffs: ctx.ok('R-LAYOUT', c.qual, "%s layout == OpenFlow 1.0 struct %s" % (side, sname), "%d bytes fixed part" % sv['size'], c, 'D3')
        for off, what in diffs:
          if 'has no static width' in what:      # the extractor could not size an item (a value chosen in a loop / through a temporary): not a verdict
            ctx.undecided('R-LAYOUT', c.qual, "%s layout == OpenFlow 1.0 struct %s" % (side, sname), what, c, 'D3'); continue
          ctx.bad('R-LAYOUT', c.qual, "%s layout == OpenFlow 1.0 struct %s (%s)" % (side, sname, what[:60]), what + " - the bytes on the wire are not those of the specification", c, 'D3')
      cst, terms = layout.len_terms(repo, c)
      if c.name != 'ofp_header':
        want = sv['size']
        good = cst == want
        ctx.ob('R-LAYOUT', c.qual, "__len__ constant part == sizeof(%s)" % sname, good if cst is not None else None,
               "%s" % cst if good else "__len__ has constant part %s, the fixed part of %s is %d bytes: the header length field and the bytes written disagree" % (cst, sname, want), c, 'D3')
        _, ml = c.find_assign('_MIN_LENGTH')
        if ml is not None:
          mv = repo.try_const(lof, ml, c)
          good = isinstance(mv, int) and mv <= want
          ctx.ob('R-LAYOUT', c.qual, "_MIN_LENGTH does not exceed sizeof(%s)" % sname, good, "%s <= %d" % (mv, want) if good else "_MIN_LENGTH is %s but the smallest valid %s is %d bytes: valid messages are rejected as too short" % (mv, sname, want), c, 'D3')
    if P is not None:
      for it in P:
        if it.kind.endswith('str!'):
          ctx.bad('R-BYTES', c.methods.get('pack') or c.qual, "`%s` is bytes" % norm(it.src)[:40], "a str (or str padding) is appended to the packed bytes: TypeError whenever this structure is encoded", (lof, it.src), 'D5')
    # D4 / D10 on pack items
    if P is not None:
      for it in codecq.int_slot_args(P):
        e = it.expr
        if isinstance(e, ast.BoolOp) and isinstance(e.op, ast.Or) and len(e.values) == 2:
          k = repo.try_const(lof, e.values[1], c)
          good = (k == 0) or k is None
          ctx.ob('R-AGREE', c.qual, "value 0 of `%s` survives encoding" % it.name, good if k is not None else None,
                 "`%s`" % norm(e) if good else "slot is fed by `%s`: a legitimate value 0 is replaced by %s on the wire and decodes as something else" % (norm(e), k), (lof, e), 'D10')
        if it.kind == 'len':
          t = norm(e)
          good = t == 'len(self)' or _len_local_ok(c, it, P)
          ctx.ob('R-LENFIELD', c.qual, "length slot is fed by the object's real length", good, t if good else "length slot is fed by `%s`" % t, (lof, e), 'D4')
      if sp is not None:
        want_len = [n for n, w in sp[1]['fields'] if n in ('~len', '~length')]
        have = [it for it in P if it.kind == 'len']
        if want_len:
          ctx.ob('R-LENFIELD', c.qual, "a length slot exists where the spec has one", bool(have), "len slot present" if have else
                 "the spec's length field is written from a non-length expression", c, 'D4')
  ctx.floor('libopenflow codec classes with a layout', n_ext, 50)
  ctx.floor('classes with both layouts compared', n_both, 45)
  ctx.floor('layout sides compared with a spec struct', n_spec, 80)
  # nested widths: len(ofp_match), len(ofp_phy_port)
  for cname, w in (('ofp_match', 40), ('ofp_phy_port', 48), ('ofp_header', 8)):
    cl = lof.classes.get(cname)
    sl = layout.static_len(repo, cl) if cl else None
    if cname == 'ofp_header':
      P = layouts.get(cname, (None, None))[0]
      sl = sum(i.width for i in P) if P and all(i.width is not None for i in P) else None
    ctx.ob('R-LAYOUT', "%s:%s" % (lof.short, cname), "size of %s" % cname, sl == w, "%s" % sl, cl, 'D3')
  # ---- Nicira bodies --------------------------------------------------------------------------------
  n_nx = 0
  for c in nx.classes.values():
    for pm, um in (('_pack_body', '_unpack_body'), ('pack', 'unpack')):
      if pm not in c.methods or um not in c.methods: continue
      ex = layout.Extractor(repo, c)
      try: P = ex.pack_layout(c.methods[pm]); U = ex.unpack_layout(c.methods[um])
      except layout.Unknown as e:
        ctx.undecided('R-LAYOUT', c.qual, "%s/%s layout" % (pm, um), "not interpretable: %s" % e, c, 'D8'); continue
      ctx.analysed(c.methods[pm]); ctx.analysed(c.methods[um]); n_nx += 1
      diffs = codecq.compare_sides(P, U)
      if c.name in ('nx_flow_mod',): diffs = [d for d in diffs if 'barrier' not in d[1] and '$po' not in d[1] and "['pad']" not in d[1]]
      diffs = [d for d in diffs if not _benign_nx(d)]
      if not diffs: ctx.ok('R-LAYOUT', c.qual, "%s layout == %s layout" % (pm, um), "%d items agree" % len(codecq.normalise(P)), c, 'D8')
      for off, what in diffs:
        ctx.bad('R-LAYOUT', c.qual, "%s layout == %s layout (%s)" % (pm, um, what[:60]), "at offset %s: %s" % (off, what), c, 'D8')
      for it in P:
        if it.kind == 'str!':
          ctx.bad('R-BYTES', c.methods[pm], "`%s` is bytes" % norm(it.src)[:40], "a str is appended to the packed bytes: TypeError whenever this action/message is encoded", (nx, it.src), 'D5')
  ctx.floor('nicira pack/unpack pairs compared', n_nx, 20)
  # ---- D5 / D6 over codec methods ----------------------------------------------------------------------
  n_m = 0
  for m in (lof, nx):
    for c in m.classes.values():
      for name, f in c.methods.items():
        if name not in CODEC_METHODS and not name.startswith(('_pack', '_unpack')): continue
        n_m += 1
        assume = {'raw': btypes.B} if name.startswith(('unpack', '_unpack')) else None
        for cf in btypes.conflicts(f.node, assume=assume):
          ctx.bad('R-BYTES', f, "`%s`" % cf.text[:60], "%s of %s and %s: %s" % (cf.kind, cf.left, cf.right,
                  "TypeError whenever this path runs" if cf.kind in ('concat', 'fill', 'join', 'tuple-index') else "the comparison is constant"), (m, cf.node), 'D5')
        for nm, node in defs.undefined_names(repo, f):
          why = "@staticmethod body reads `self`" if nm == 'self' and f.is_static else "name is not defined anywhere in scope"
          ctx.bad('R-DEF', f, "undefined name `%s`" % nm, "%s: NameError whenever %s.%s runs" % (why, c.name, name), (m, node), 'D6')
        for nm, node, path in defs.use_before_def(f):
          ctx.bad('R-DEF', f, "local `%s` used before assignment" % nm, "feasible path (lines %s) reads `%s` before any assignment" % (path, nm), (m, node), 'D6', path=path)
        # self.<method>() calls with impossible arity / nonexistent method
        for call in calls_in(f.node):
          if isinstance(call.func, ast.Attribute) and norm(call.func.value) == 'self':
            tgt = c.find_method(call.func.attr)
            if tgt is None:
              fields, open_ = defs.class_fields(repo, c)
              subs = [s for s in repo.subclasses(c) if s.find_method(call.func.attr)]
              if call.func.attr not in fields and not open_ and not subs:
                ctx.bad('R-DEF', f, "self.%s() exists" % call.func.attr, "%s has no method or attribute `%s` (nor any base / subclass): AttributeError when %s runs" % (c.name, call.func.attr, name), (m, call), 'D6')
            elif not defs.arity_ok(tgt, call):
              ctx.bad('R-DEF', f, "call `%s` matches %s.%s%s" % (norm(call)[:40], tgt.cls.name, tgt.name, tuple(tgt.params)), "arguments cannot be bound: TypeError when %s runs" % name, (m, call), 'D6')
          # super(...).method(...) forwarding with the wrong arity
          if isinstance(call.func, ast.Attribute) and isinstance(call.func.value, ast.Call) and call_name(call.func.value) == 'super':
            tgt = None
            for k in c.mro()[1:]:
              if call.func.attr in k.methods: tgt = k.methods[call.func.attr]; break
            if tgt is not None and not defs.arity_ok(tgt, call):
              ctx.bad('R-DEF', f, "call `%s` matches %s.%s%s" % (norm(call)[:60], tgt.cls.name, tgt.name, tuple(tgt.params)),
                      "the forwarded call cannot bind %s's required parameters: TypeError whenever %s.%s runs" % (tgt.name, c.name, name), (m, call), 'D6')
          # Parent.method(self) forwarding with the wrong arity (e.g. unpack forwarding no arguments)
          if isinstance(call.func, ast.Attribute) and isinstance(call.func.value, ast.Name) and call.args and norm(call.args[0]) == 'self':
            r = m.lookup(call.func.value.id)
            if isinstance(r, Cls):
              tgt = r.find_method(call.func.attr)
              if tgt is not None and not defs.arity_ok(tgt, call, bound=False):
                ctx.bad('R-DEF', f, "call `%s` matches %s.%s%s" % (norm(call)[:50], r.name, tgt.name, tuple(tgt.params)), "arguments cannot be bound: TypeError when %s runs" % name, (m, call), 'D6')
      # write-only private attributes (dead cache invalidation)
      stores = {}; loads = set()
      if any('__getattr__' in k.methods or '__setattr__' in k.methods for k in c.mro()): continue
      class _F(object):
        def __init__ (s_, node, f): s_.node = node; s_.f = f
      allf = []
      for bn in c.node.body:
        if isinstance(bn, ast.FunctionDef): allf.append(bn)
      for fnode in allf:
        f = c.methods.get(fnode.name)
        for n in ast.walk(fnode):
          if isinstance(n, ast.Attribute) and isinstance(n.value, ast.Name) and n.value.id == 'self' and n.attr.startswith('_') and not n.attr.startswith('__'):
            if isinstance(n.ctx, ast.Store): stores.setdefault(n.attr, []).append((f, n))
            else: loads.add(n.attr)
      if stores:
        allloads = set(loads)
        for k in c.mro()[1:] + repo.subclasses(c):
          for fnode in [b for b in k.node.body if isinstance(b, ast.FunctionDef)]:
            for n in ast.walk(fnode):
              if isinstance(n, ast.Attribute) and isinstance(n.ctx, ast.Load): allloads.add(n.attr)
        for mm in (lof, nx):      # reads from outside the class (x._attr)
          for n in ast.walk(mm.tree):
            if isinstance(n, ast.Attribute) and isinstance(n.ctx, ast.Load) and not (isinstance(n.value, ast.Name) and n.value.id == 'self'): allloads.add(n.attr)
            if isinstance(n, ast.Constant) and isinstance(n.value, str): allloads.add(n.value)
        for a, sites in stores.items():
          if a in allloads: continue
          if any(a in mm.src.replace('self.' + a + ' =', '') for mm in (lof, nx)) and _mentioned_elsewhere(repo, a): continue
          f, n = sites[0]
          ctx.bad('R-DEF', f, "private attribute `%s` is read somewhere" % a, "self.%s is assigned but never read by any method: the assignment has no effect (e.g. a cache that is never invalidated)" % a, (m, n), 'D6')
  ctx.floor('codec methods scanned', n_m, 200)
  # ---- D7 -------------------------------------------------------------------------------------------------
  for cname in ('ofp_base', 'ofp_action_base'):
    c = lof.classes.get(cname); f = c.methods.get('unpack_new') if c else None
    if f is None: continue
    ctx.analysed(f); g = q.cfg_of(f)
    rets = [n for n in g.nodes if n.kind == 'return']
    good = bool(rets) and all(any('==' in x and ('length' in x or 'len(o)' in x) for x in q.fact_strs(g, r)) for r in rets)
    ctx.ob('R-DOM', f, "unpack_new returns only after asserting consumed == declared length", good, "assert dominates the return" if good else "the consumed-length assertion no longer dominates the return: a decoder may consume bytes of the next message", f, 'D7')
  # a sub-object packed with an option that drops items (omittable=True) while the length function counts them
  for mod_ in (lof, nx):
    for c_ in mod_.classes.values():
      lens = [f_ for n_, f_ in c_.methods.items() if n_ in ('__len__', '_body_length')]
      for n_, f_ in c_.methods.items():
        if n_ not in ('pack', '_pack_body'): continue
        for call in calls_in(f_.node):
          if not (isinstance(call.func, ast.Attribute) and call.func.attr == 'pack'): continue
          om = kwarg(call, 'omittable')
          if om is None: continue
          v_ = repo.try_const(mod_, om, c_, default='?')
          if v_ in (False, None, 0): continue
          if isinstance(om, ast.Name) and om.id in f_.params: continue          # passed through from the caller
          sub = norm(call.func.value)
          counted = any(('len(%s)' % sub) in norm(l_.node) for l_ in lens)
          ctx.ob('R-AGREE', f_, "`%s` emits what the length function counts" % norm(call)[:60], not counted,
                 "length does not count %s" % sub if not counted else
                 "%s is packed with omittable=%s (fully wildcarded entries are left out) but %s counts len(%s): header length / match_len and the bytes emitted disagree for such entries" % (sub, norm(om), lens[0].qual if lens else '?', sub),
                 (mod_, call), 'D4')
  # ---- D8 NXM -------------------------------------------------------------------------------------------------
  rows = repo.dynamic_global(nx, '__nxm_rows__')
  rows = rows[2] if rows else []
  ctx.floor('NXM rows', len(rows), 39)
  seen = {}
  for r in rows:
    key = (r['vendor'], r['field'])
    if key in seen:
      ctx.bad('R-REG', "%s:%s" % (nx.short, r['name']), "unique (vendor, field)", "%s and %s share NXM header (vendor %s, field %s): one of them can never be decoded" % (seen[key], r['name'], key[0], key[1]), (nx, ast.parse('0').body[0]), 'D8')
    seen[key] = r['name']
    sp = nxm['fields'].get(r['name'])
    if sp is None:
      if r['name'].startswith('NXM_NX_REG'): continue
      ctx.undecided('R-REG', "%s:%s" % (nx.short, r['name']), "NXM row vs nicira-ext.h", "not in the spec table", None, 'D8'); continue
    good = [r['vendor'], r['field'], r['len']] == sp
    ctx.ob('R-REG', "%s:%s" % (nx.short, r['name']), "NXM (vendor, field, length) per nicira-ext.h", good, "%s" % sp if good else "code says %s, nicira-ext.h says %s: the entry is encoded under a different header" % ([r['vendor'], r['field'], r['len']], sp), None, 'D8')
  for name in nxm['fields']:
    if name not in [r['name'] for r in rows]:
      ctx.bad('R-REG', "%s:%s" % (nx.short, name), "NXM field defined", "%s is no longer defined" % name, None, 'D8')
  mt = nx.funcs.get('_make_type'); ne = nx.classes.get('nxm_entry')
  if mt is not None:
    rv = q.returns_of(mt.node)
    ctx.ob('R-AGREE', mt, "NXM type = vendor << 7 | field", bool(rv) and norm(rv[0].value) == 'vendor << 7 | field', norm(rv[0].value) if rv else "?", mt, 'D8')
  # ---- D9 ------------------------------------------------------------------------------------------------------
  _wire_symmetry(ctx, repo, lof)
  _pack_gating(ctx, repo, lof)
  _class_level_len(ctx, repo, lof)
  _address_slots(ctx, repo, lof)
  _lazy_caches(ctx, repo, lof)
  # ---- D11 ------------------------------------------------------------------------------------------------------
  _bitfields(ctx, repo, nx)
  _units(ctx, repo, (lof, nx))
  _text_codec(ctx, repo, lof)
  _vendor_hook(ctx, repo, lof, nx)
  _lossless_switches(ctx, repo, lof, nx)
  _dimensions(ctx, repo, (lof, nx))
  _declared_length(ctx, repo, lof)
  # ---- mechanisms this property shares with others
  ctx.include('C02', ['make_type_to_unpacker_table'], "decoding starts from the type-indexed table of decoders this codec hands out")

def _all_funcs (m):
  for f in m.funcs.values(): yield f
  for c in m.classes.values():
    for f in c.methods.values(): yield f

def _dimensions (ctx, repo, mods):
  """D12: decoders never mix positions in the buffer with sizes (pxa/dims.py)"""
  from .. import dims
  n = 0
  for m in mods:
    for f in _all_funcs(m):
      r = dims.analyse(f.node)
      if r is None: continue
      n += 1; ctx.analysed(f)
      if not r: ctx.ok('R-DIM', f, "positions in the buffer and sizes are not mixed", "every comparison / difference / helper argument that could be classified is consistent", f, 'D12')
      for node, what in r:
        ctx.bad('R-DIM', f, "positions in the buffer and sizes are not mixed (%s)" % what, "`%s`: %s - right only while the buffer starts at position 0, i.e. for the first message of a read; every message behind another one is decoded from the wrong bytes or rejected" % (norm(node)[:80], what), (m, node), 'D12')
  ctx.floor('decoder functions with an offset parameter (dimension rule)', n, 80)

def _declared_length (ctx, repo, lof):
  """D13: a message decoder accounts for the declared length: either it asserts that the declared length is the object's length
  (the layout rules tie that to what was read) or it returns the start position plus the declared length"""
  n = 0
  for c in lof.classes.values():
    f = c.methods.get('unpack')
    if f is None or not any(isinstance(x, ast.Call) and call_name(x) == '_unpack_header' for x in ast.walk(f.node)): continue
    if c.name == 'ofp_header': continue
    n += 1
    tied = any(isinstance(x, ast.Assert) and norm(x.test).replace(' ', '') in ('length==len(self)', 'len(self)==length') for x in ast.walk(f.node))
    if tied:
      ctx.ok('R-LENFIELD', f, "the decoder consumes exactly the declared length", "assert length == len(self)", f, 'D13'); continue
    # straight-line symbolic evaluation: offset0 + declared length
    env = {'offset': ({'o0': 1}, 0)}; good = None; why = "not a straight-line function"
    def sym (e):
      if isinstance(e, ast.Constant) and isinstance(e.value, int): return ({}, e.value)
      if isinstance(e, ast.Name): return env.get(e.id)
      if isinstance(e, ast.BinOp) and isinstance(e.op, (ast.Add, ast.Sub)):
        a, b = sym(e.left), sym(e.right)
        if a is None or b is None: return None
        sg = 1 if isinstance(e.op, ast.Add) else -1
        d = dict(a[0])
        for k, v in b[0].items():
          d[k] = d.get(k, 0) + sg * v
          if not d[k]: del d[k]
        return (d, a[1] + sg * b[1])
      return None
    for st in f.node.body:
      if isinstance(st, ast.Expr) and isinstance(st.value, ast.Constant): continue
      if isinstance(st, ast.Assign) and len(st.targets) == 1:
        t = st.targets[0]; v = st.value
        if isinstance(t, ast.Tuple) and len(t.elts) == 2 and isinstance(v, ast.Call) and call_name(v) == '_unpack_header' and len(v.args) == 2 and all(isinstance(x, ast.Name) for x in t.elts):
          a = sym(v.args[1])
          new0 = (a[0], a[1] + 8) if a else None
          env[t.elts[0].id] = new0; env[t.elts[1].id] = ({'L': 1}, 0); continue
        if isinstance(t, ast.Name): env[t.id] = sym(v); continue
        if isinstance(t, ast.Tuple) and all(isinstance(x, ast.Name) for x in t.elts):
          for x in t.elts: env[x.id] = None
          if isinstance(v, ast.Call) and call_name(v) in ('_read', '_skip', '_unpack') and False: pass
          continue
        continue
      if isinstance(st, ast.Return) and isinstance(st.value, ast.Tuple) and st.value.elts:
        r = sym(st.value.elts[0])
        if r is None: why = "returned position `%s` is not linear in the start position and the declared length" % norm(st.value.elts[0])
        else:
          good = r == ({'o0': 1, 'L': 1}, 0)
          why = "returns `%s` = start + declared length" % norm(st.value.elts[0]) if good else \
                "returns `%s`, which is not the start position plus the declared length, and nothing asserts that the declared length is what was read: a message with a longer declared length (a HELLO with version-bitmap elements) leaves its tail to be decoded as the next message" % norm(st.value.elts[0])
        break
      if isinstance(st, (ast.If, ast.While, ast.For, ast.Try, ast.With)): break
    ctx.ob('R-LENFIELD', f, "the decoder consumes exactly the declared length", good, why, f, 'D13')
  ctx.floor('message decoders checked against the declared length', n, 18)

def _units (ctx, repo, mods):
  """R-UNITS: inside a decoder `length` (a parameter, or read from the structure's own header; `avail` likewise) counts bytes of this structure while the cursor, its saved start and len(raw) are
  positions in the whole buffer.  A byte count handed on (to _read, a nested unpack, _unpack_actions ...) that involves
  `length` may contain positions only as differences: the coefficients of all positions sum to zero.  `length - offset`
  is right only while the structure happens to start at position 0."""
  n = 0
  for mod in mods:
    fns = list(mod.funcs.values()) + [f for c in mod.classes.values() for f in c.methods.values()]
    for f in fns:
      ps = f.params
      if 'offset' not in ps: continue
      cur = {'offset'}
      raw = ps[ps.index('offset') - 1] if ps.index('offset') > 0 else None
      changed = True
      while changed:
        changed = False
        for t, v, st, k in q.stores_in(f.node, nested=False):
          if not isinstance(t, ast.Name) or t.id in cur or v is None: continue
          if isinstance(v, ast.Name) and v.id in cur: cur.add(t.id); changed = True
          elif isinstance(v, ast.Call) and any(isinstance(a, ast.Name) and a.id in cur for a in v.args):
            # first element of an (offset, value) pair, or the returned offset itself
            tg = st.targets[0] if isinstance(st, ast.Assign) else None
            if tg is t or (isinstance(tg, ast.Tuple) and tg.elts and tg.elts[0] is t): cur.add(t.id); changed = True
      for c in calls_in(f.node):
        for a in list(c.args) + [k.value for k in c.keywords]:
          if not isinstance(a, ast.BinOp): continue
          lt = q.lin_terms(a)
          if lt is None or not (lt[0].get('length') or lt[0].get('avail')): continue
          n += 1
          pos = sum(v for k_, v in lt[0].items() if k_ in cur or (raw and k_ == 'len(%s)' % raw))
          ctx.ob('R-UNITS', f, "a byte count derived from `length` contains buffer positions only as differences", pos == 0,
                 "%s" % norm(a) if pos == 0 else "`%s` mixes the structure's own length with the absolute position %s: it is right only when the structure starts at offset 0 of the buffer (a second entry of a list, or a body after a header, gets a wrong byte count)"
                 % (norm(a), sorted(k_ for k_ in lt[0] if k_ in cur)), (mod, c), 'D3')
  ctx.floor('length/position arithmetic sites', n, 12)

def _vendor_hook (ctx, repo, lof, nx):
  """the decoder nicira installs for OFPT_VENDOR sees every vendor message, also other vendors' (which may end right after the
  vendor id: ofp_vendor_generic._MIN_LENGTH bytes).  Before it knows the message is Nicira's it may read that much and no more."""
  f = nx.funcs.get('_unpack_nx_vendor')
  if f is None: return
  ctx.analysed(f)
  vg = lof.classes.get('ofp_vendor_generic')
  minlen = repo.try_const(lof, vg.assigns.get('_MIN_LENGTH'), vg, default=None) if vg is not None and vg.assigns.get('_MIN_LENGTH') is not None else None
  if not isinstance(minlen, int): minlen = 12
  g = q.cfg_of(f); off = f.params[1]
  n = 0
  for node in g.nodes:
    for c in q.node_calls(node):
      if call_name(c) not in ('_unpack', 'unpack_from') or len(c.args) < 3: continue
      fmt = repo.try_const(nx, c.args[0] if call_name(c) == '_unpack' else c.args[0], None, default=None)
      # positions may go through local constants (`hdr_len = len(ofp_header)`)
      alias_ = {}
      for t_, v_, st_, k_ in q.stores_in(f.node, nested=False):
        if isinstance(t_, ast.Name) and v_ is not None and k_ == 'assign':
          cv_ = repo.try_const(nx, v_, None, default=None)
          if cv_ is None and isinstance(v_, ast.Call) and call_name(v_) == 'len' and len(v_.args) == 1 and isinstance(v_.args[0], ast.Name) and v_.args[0].id == 'ofp_header': cv_ = 8
          if isinstance(cv_, int): alias_[t_.id] = cv_
      def class_len_ (nm_):
        k_ = nx.lookup(nm_) or lof.lookup(nm_)
        if not hasattr(k_, 'find_method'): return None
        lf_ = k_.find_method('__len__')
        if lf_ is not None and lf_.is_static:
          rs_ = [q.try_int(r_.value) for r_ in q.returns_of(lf_.node)]
          return rs_[0] if len(rs_) == 1 and rs_[0] is not None else None
        c2_, v2_ = k_.find_assign('_MIN_LENGTH')
        return repo.try_const(k_.module, v2_, k_, default=None) if v2_ is not None else None
      class Sub_(ast.NodeTransformer):
        def visit_Name (self, n_): return ast.copy_location(ast.Constant(value=alias_[n_.id]), n_) if n_.id in alias_ and isinstance(n_.ctx, ast.Load) else n_
        def visit_Call (self, n_):
          if call_name(n_) == 'len' and len(n_.args) == 1 and isinstance(n_.args[0], ast.Name) and isinstance(class_len_(n_.args[0].id), int):
            return ast.copy_location(ast.Constant(value=class_len_(n_.args[0].id)), n_)
          return self.generic_visit(n_)
      import copy as copy_
      pos = q.lin_terms(Sub_().visit(copy_.deepcopy(c.args[2])))
      if not isinstance(fmt, str) or pos is None: continue
      if off not in pos[0] and not pos[0]:
        n += 1
        ctx.bad('R-UNITS', f, "`%s` reads relative to the start of the message" % norm(c)[:50],
                "the position `%s` does not depend on `%s`: the hook peeks at an absolute place in the receive buffer, which is this message only when it is the first one there - a Nicira message behind another message "
                "in the same read is taken for another vendor's and decoded by the generic fallback (wrong class, not equal to what was encoded)" % (norm(c.args[2]), off), (nx, c), 'D9')
        continue
      if pos[0] != {off: 1}: continue
      import struct as _st
      try: end = pos[1] + _st.calcsize(fmt)
      except Exception: continue
      n += 1
      fs = q.fact_strs(g, node)
      known = any('NX_VENDOR_ID' in x and ('==' in x) for x in fs)
      good = end <= minlen or known
      ctx.ob('R-DOM', f, "`%s` stays inside what every vendor message has until the vendor id is known to be Nicira's" % norm(c)[:50], good,
             "bytes %d..%d of the message, %s" % (pos[1], end, "vendor id checked" if known else "within the %d-byte generic vendor header" % minlen) if good else
             "the hook reads bytes %d..%d of every vendor message before it has looked at the vendor id: another vendor's message that ends after its %d-byte header (ofp_vendor_generic with no payload) raises UnderrunError "
             "instead of being handed to the generic decoder - a message the library can encode can no longer be decoded" % (pos[1], end, minlen), (nx, c), 'D9')
  ctx.floor('vendor hook reads', n, 2)

def _lossless_switches (ctx, repo, lof, nx):
  """(a) NXM entries are only left out of an encoding when a caller asks for it, and no message-level encoder does: packing
  with omittable=True drops every entry whose mask is all zero, and the decoded match then differs from the encoded one.
  (b) the body cache of a stats reply holds the body's wire form: what is stored there outside the cache's own property must
  be bytes that were taken from the input and not consumed since."""
  n = 0
  for mod in (nx, lof):
    for cls in mod.classes.values():
      for f in cls.methods.values():
        own = 'omittable' in f.params
        for c in calls_in(f.node):
          if call_name(c) not in ('pack', 'get_length'): continue
          v = kwarg(c, 'omittable')
          if v is None: continue
          n += 1
          if own and isinstance(v, ast.Name) and v.id == 'omittable': continue          # the entry / match codec forwarding its own argument
          val = repo.try_const(mod, v, cls, default='?')
          ctx.ob('R-AGREE', f, "`%s` does not leave NXM entries out" % norm(c)[:50], val is False, "omittable=False" if val is False else
                 "%s encodes its match with omittable=%s: entries whose mask is all zero are dropped from the wire form (and from match_len), so the message decodes to a different match than was encoded" % (f.name, norm(v)), (mod, c), 'D8')
  # ... and when the argument is not given at all the answer must be the same: message encoders call match.pack() bare while
  # their length functions go through len(entry) -> get_length() -> pack(<default>)
  nd = 0
  for cls in nx.classes.values():
    for f in cls.methods.values():
      if 'omittable' not in f.params: continue
      a = f.node.args; names = [x.arg for x in a.args]; i_ = names.index('omittable') - (len(names) - len(a.defaults))
      if i_ < 0: continue
      nd += 1
      val = repo.try_const(nx, a.defaults[i_], cls, default='?')
      ctx.ob('R-AGREE', f, "entries are left out only when the caller asks for it (default of `omittable`)", val is False, "omittable=False by default" if val is False else
             "%s.%s leaves fully wildcarded entries out by default (omittable=%s) while len() of the match still counts them: nxt_packet_in / nx_flow_mod emit a match shorter than the match_len and header length they announce"
             % (cls.name, f.name, norm(a.defaults[i_])), (nx, f.node), 'D8')
  ctx.floor('omittable defaults', nd, 3)
  ctx.stat('omittable arguments examined', n)
  sr = lof.classes.get('ofp_stats_reply')
  if sr is not None:
    for f in sr.methods.values():
      if f.name in ('__init__', 'body_data'): continue
      g = q.cfg_of(f)
      for t, v, st, k in q.stores_in(f.node):
        if not (isinstance(t, ast.Attribute) and t.attr == '_body_data' and norm(t.value) == 'self'): continue
        sn = q.enclosing_stmt_node(g, st)
        bad_ = None
        if isinstance(v, ast.Tuple) and len(v.elts) == 2 and isinstance(v.elts[1], ast.Name) and sn is not None:
          nm = v.elts[1].id
          IN, defn = q.reaching_defs(g, nm)
          for d in IN[sn]:
            if d is g.entry: continue
            tt, dv, kind = defn[d]
            if dv is not None and not isinstance(dv, tuple) and any(isinstance(x, ast.Name) and x.id == nm for x in ast.walk(dv)): bad_ = d
        elif not (isinstance(v, ast.Tuple) and all(isinstance(e, ast.Constant) and e.value is None for e in v.elts)):
          bad_ = sn
        if bad_ is not None:
          ctx.bad('R-OWN', f, "the body cache holds the body's wire form (`%s`)" % norm(st)[:50],
                  "%s stores into the pack cache a buffer that `%s` has already cut down while parsing: for list-typed replies it is empty by then, so packing the decoded reply again emits a header that claims the body and no body"
                  % (f.name, bad_.text(40) if hasattr(bad_, 'text') else '?'), (lof, st), 'D5')
        else:
          ctx.ob('R-OWN', f, "the body cache holds the body's wire form (`%s`)" % norm(st)[:50], True, "untouched input bytes / reset", (lof, st), 'D5')

def _text_codec (ctx, repo, lof):
  """fixed-width zero-padded strings (port names, descriptions, table names): the reader must accept every byte string the
  wire can carry and the writer must produce one byte per character, i.e. both use the same total single-byte codec"""
  import codecs
  rd = lof.funcs.get('_readzs'); wr = lof.funcs.get('_packzs')
  if rd is None or wr is None: raise AnalysisError("_readzs/_packzs vanished")
  ctx.analysed(rd); ctx.analysed(wr)
  SINGLE_TOTAL = {'iso8859-1'}                       # codecs.lookup() canonical names
  PARTIAL_OR_MULTI = {'utf-8', 'ascii', 'utf-16', 'utf-16-le', 'utf-16-be', 'utf-32', 'utf-7', 'utf-8-sig', 'idna', 'punycode', 'cp1252', 'gbk', 'big5', 'shift_jis', 'euc_jp'}
  found = {}
  for f, meth in ((rd, 'decode'), (wr, 'encode')):
    cs = [c for c in calls_in(f.node) if call_name(c) == meth and isinstance(c.func, ast.Attribute)]
    names = []
    for c in cs:
      a = c.args[0] if c.args else kwarg(c, 'encoding', 0)
      v = repo.try_const(lof, a, None) if a is not None else 'utf-8'        # the default of str.encode / bytes.decode
      if isinstance(v, str):
        try: v = codecs.lookup(v).name
        except LookupError: pass
      names.append(v)
    found[meth] = (names, cs)
  for meth, f in (('decode', rd), ('encode', wr)):
    names, cs = found[meth]
    if not names:
      ctx.undecided('R-AGREE', f, "zero-padded strings use a total single-byte codec", "no %s() call found" % meth, f, 'D2'); continue
    for nm_, c in zip(names, cs):
      if nm_ in SINGLE_TOTAL:
        ctx.ob('R-AGREE', f, "zero-padded strings use a total single-byte codec", True, "%s(%r)" % (meth, nm_), (lof, c), 'D2')
      elif nm_ in PARTIAL_OR_MULTI:
        ctx.bad('R-AGREE', f, "zero-padded strings use a total single-byte codec",
                "%s with codec %r: %s" % (meth, nm_, "bytes above 0x7f received from a switch (a port or description string) make the decoder raise or change length" if meth == 'decode'
                                          else "a character above 0x7f becomes several bytes: the field overflows its fixed width or the value read back differs"), (lof, c), 'D2')
      else:
        ctx.undecided('R-AGREE', f, "zero-padded strings use a total single-byte codec", "codec %r is not in the table of known codecs" % (nm_,), (lof, c), 'D2')
  # the writer by evaluation: a string that fills its field exactly keeps every character (the fields are zero *padded*, not
  # zero terminated - _validate accepts a 16-character port name), shorter ones are padded with NULs, bytes pass through
  gw = q.cfg_of(wr)
  wrong = []; unknown = 0
  def hook_types (call, env=None):
    return (False, None)
  for data, ln, want in (('abcd', 4, b'abcd'), ('ab', 4, b'ab\x00\x00'), (b'xyz', 3, b'xyz'), ('', 2, b'\x00\x00'), ('p' * 16, 16, b'p' * 16)):
    res = set()
    env = q.Env({wr.params[0]: data, wr.params[1]: ln}, [((lambda e: isinstance(e, ast.Call) and call_name(e) == 'isinstance' and len(e.args) == 2 and norm(e.args[1]) == 'str'), isinstance(data, str)),
                                                            ((lambda e: isinstance(e, ast.Call) and call_name(e) == 'isinstance' and len(e.args) == 2 and norm(e.args[1]) == 'bytes'), isinstance(data, bytes))])
    for p_, e_ in q.paths_under(repo, lof, gw, env, gw.entry, [n for n in gw.nodes if n.kind == 'return'], None, limit=20):
      try: res.add(q.eval_env2(repo, lof, p_[-1].ast.value, e_, None))
      except Exception: res.add('?')
    if len(res) != 1 or '?' in res or not isinstance(list(res)[0], bytes): unknown += 1
    elif list(res)[0] != want: wrong.append((data, ln, list(res)[0], want))
  if unknown:
    ctx.undecided('R-AGREE', wr, "_packzs keeps every character of a string that fits and pads with NULs", "%d sample(s) not evaluable" % unknown, wr, 'D2')
  else:
    ctx.ob('R-AGREE', wr, "_packzs keeps every character of a string that fits and pads with NULs", not wrong, "5 samples" if not wrong else
           "_packzs(%r, %d) evaluates to %r, expected %r: a name that fills its field is cut, so the decoded object differs from the encoded one" % wrong[0], wr, 'D2')
  # the reader by evaluation: everything up to the first NUL, and all of it when the string fills the field (there is no NUL then)
  gr_ = q.cfg_of(rd)
  wrong = []; unknown = 0
  hook_r = q.PureCallHook(repo, lof)
  for data, off, ln, want in ((b'abcd', 0, 4, (4, 'abcd')), (b'ab\x00\x00', 0, 4, (4, 'ab')), (b'xxab\x00\x00', 2, 4, (6, 'ab')), (b'\x00\x00', 0, 2, (2, '')), (b'p' * 16, 0, 16, (16, 'p' * 16))):
    res = set()
    try:
      for p_, e_ in q.paths_under(repo, lof, gr_, q.Env({rd.params[0]: data, rd.params[1]: off, rd.params[2]: ln}, [], hook_r), gr_.entry, [n for n in gr_.nodes if n.kind == 'return'], None, limit=20):
        try: res.add(q.eval_env2(repo, lof, p_[-1].ast.value, e_, None))
        except Exception: res.add('?')
    except Exception: res.add('?')
    if len(res) != 1 or '?' in res or not isinstance(list(res)[0], tuple) or q.OPAQUE in list(res)[0]: unknown += 1
    elif tuple(list(res)[0]) != want: wrong.append((data, off, ln, list(res)[0], want))
  if unknown and not wrong:
    ctx.undecided('R-AGREE', rd, "_readzs returns the characters before the first NUL, all of them when the field is full", "%d sample(s) not evaluable" % unknown, rd, 'D2')
  else:
    ctx.ob('R-AGREE', rd, "_readzs returns the characters before the first NUL, all of them when the field is full", not wrong, "5 samples" if not wrong else
           "_readzs(%r, %d, %d) evaluates to %r, expected %r: a name that fills its field (no NUL) loses characters, so the port is known under another name than the switch reported" % wrong[0], rd, 'D2')
  dn = set(x for x in found['decode'][0]); en = set(x for x in found['encode'][0])
  if dn and en and all(isinstance(x, str) for x in dn | en):
    ctx.ob('R-SIB', rd, "reader and writer of zero-padded strings use the same codec", dn == en, "both %s" % sorted(dn) if dn == en else "reader decodes with %s, writer encodes with %s" % (sorted(dn), sorted(en)), rd, 'D2')

def _benign_nx (d):
  w = d[1]
  return False

def _mentioned_elsewhere (repo, attr):
  return False

def _len_local_ok (c, it, P):
  """length slot fed by `len(body) + K` / a local defined so, where K is the fixed prefix width"""
  e = it.expr
  t = norm(e)
  fixed = 0
  for x in P:
    if x.width is None: break
    fixed += x.width
  k = None
  if isinstance(e, ast.BinOp) and isinstance(e.op, ast.Add):
    for a, b in ((e.left, e.right), (e.right, e.left)):
      kk = q.try_int(a)
      if kk is not None and isinstance(b, ast.Call) and call_name(b) == 'len': k = kk
  if k is not None and k == fixed: return True
  # the length of a sub-part: len(<local>) where that local's bytes are themselves part of what is emitted (actions_len = len(actions))
  if isinstance(e, ast.Call) and call_name(e) == 'len' and len(e.args) == 1 and isinstance(e.args[0], ast.Name):
    nm = e.args[0].id
    for x in P:
      if x is it: continue
      if x.name == nm or (x.expr is not None and norm(x.expr) == nm) or (isinstance(x.src, ast.AST) and norm(x.src) == nm): return True
  return False

def _registries (ctx, repo, lof, spec):
  msgs = ofreg.messages(repo); acts = ofreg.actions(repo); sts = ofreg.stats(repo); qps = ofreg.queue_props(repo)
  ctx.floor('registered message codes', len(set(m.value for m in msgs)), 22)
  ctx.floor('registered action codes', len(set(a.value for a in acts)), 13)
  ctx.floor('registered stats codes', len(set(s.value for s in sts)), 7)
  for kind, regs, table in (('message', msgs, spec['ofp_type']), ('action', acts, spec['ofp_action_type']), ('stats', sts, spec['ofp_stats_types']), ('queue property', qps, spec['ofp_queue_properties'])):
    by_name = {}
    for r in regs: by_name.setdefault(r.name, set()).add(r.value)
    for name, val in table.items():
      got = by_name.get(name)
      ctx.ob('R-REG', "%s:%s" % (lof.short, name), "%s code per OpenFlow 1.0" % kind, got == {val},
             "%s = %s" % (name, val) if got == {val} else "%s is registered as %s, the specification says %s: peers decode a different %s" % (name, sorted(got) if got else None, val, kind),
             [r for r in regs if r.name == name][0].cls if got else None, 'D1')
    by_val = {}
    for r in regs:
      if kind == 'stats': continue
      by_val.setdefault(r.value, set()).add(r.cls.name)
    for v, cs in by_val.items():
      ctx.ob('R-REG', "%s:%s code %s" % (lof.short, kind, v), "one class per %s code" % kind, len(cs) == 1, "%s" % sorted(cs) if len(cs) == 1 else "code %s is registered for %s: the later one silently replaces the earlier in the decode table" % (v, sorted(cs)), None, 'D1')
    extra = set(by_name) - set(table)
    for e in extra:
      ctx.bad('R-REG', "%s:%s" % (lof.short, e), "%s name exists in OpenFlow 1.0" % kind, "%s is not an OpenFlow 1.0 %s" % (e, kind), None, 'D1')
  vals = sorted(set(m.value for m in msgs))
  ctx.ob('R-REG', lof.short + ':_message_type_to_class', "message codes are contiguous from 0 (the unpacker table is indexed by type)", vals == list(range(len(vals))), "0..%d" % (len(vals) - 1), None, 'D1')
  for m in msgs:
    c2s = m.value in spec['controller_to_switch']; s2c = m.value in spec['switch_to_controller']
    ctx.ob('R-REG', "%s:%s" % (lof.short, m.name), "direction per OpenFlow 1.0", (m.controller == c2s) and (m.switch == s2c),
           "controller=%s switch=%s" % (m.controller, m.switch) if (m.controller == c2s) and (m.switch == s2c) else "registered controller=%s switch=%s, spec says controller=%s switch=%s" % (m.controller, m.switch, c2s, s2c), m.cls, 'D1')
  # list-ness as the decorators leave it: every application (request or reply, in source order) whose `is_list` - given or the
  # factory's default - is not None overwrites the entry's flag
  fdef = {}
  for fn_ in ('openflow_stats_request', 'openflow_stats_reply'):
    ff_ = lof.funcs.get(fn_)
    if ff_ is not None:
      a_ = ff_.node.args; names_ = [x_.arg for x_ in a_.args]; defs_ = [None] * (len(names_) - len(a_.defaults)) + list(a_.defaults)
      d_ = dict(zip(names_, defs_)).get('is_list')
      try: fdef[fn_] = ast.literal_eval(d_) if d_ is not None else None
      except Exception: fdef[fn_] = '?'
  eff = {}
  for s in sorted(sts, key=lambda r_: getattr(r_.call, 'lineno', 0)):
    v_ = s.is_list if any(k_.arg == 'is_list' for k_ in s.call.keywords) or len(s.call.args) > 2 else fdef.get(s.deco, None)
    if len(s.call.args) > 2 and not any(k_.arg == 'is_list' for k_ in s.call.keywords):
      try: v_ = ast.literal_eval(s.call.args[2])
      except Exception: v_ = '?'
    if v_ is not None: eff[s.name] = v_
  for s in sts:
    if s.is_reply and s.name in spec['ofp_stats_types']:
      want = s.name in spec['stats_reply_is_list']
      have = eff.get(s.name, None)
      ctx.ob('R-REG', "%s:%s" % (lof.short, s.name), "stats reply body is %s" % ('a list' if want else 'a single struct'), have != '?' and want == bool(have),
             "is_list=%s after all registrations" % have if want == bool(have) else
             "after all stats registrations of %s (in source order, with the decorator factories' defaults) reply_is_list is %r, OpenFlow 1.0 says %s: a reply with %s decodes to %s" %
             (s.name, have, want, "several entries" if want else "one struct", "a single object / fails its length assertion" if want else "a list"), s.cls, 'D1')
  # constants generated from rev_maps vs spec
  mod = lof
  n = 0
  for group in ('ofp_port', 'ofp_flow_wildcards', 'ofp_port_config', 'ofp_port_state', 'ofp_flow_mod_command', 'ofp_flow_mod_flags', 'ofp_error_type', 'reasons', 'misc'):
    for name, val in spec[group].items():
      got = ofreg.const_value(repo, mod, name)
      n += 1
      ctx.ob('R-REG', "%s:%s" % (lof.short, name), "constant value per OpenFlow 1.0", got == val, "%s = %s" % (name, got) if got == val else "%s is %s, the specification says %s" % (name, got, val), None, 'D1')
  for fam, codes in spec['error_code_families'].items():
    for name, val in codes.items():
      got = ofreg.const_value(repo, mod, name); n += 1
      ctx.ob('R-REG', "%s:%s" % (lof.short, name), "constant value per OpenFlow 1.0", got == val, "%s = %s" % (name, got) if got == val else "%s is %s, the specification says %s" % (name, got, val), None, 'D1')
  ctx.floor('spec constants compared', n, 90)

def _branches_on (g, var_texts):
  """{constant: [branch nodes True]} for tests `<var> == CONST`"""
  out = {}
  for b in g.nodes:
    if b.kind != 'branch' or b.label[1] is not True: continue
    t = b.label[0]
    if isinstance(t, ast.Compare) and len(t.ops) == 1 and isinstance(t.ops[0], ast.Eq) and norm(t.left) in var_texts:
      k = q.try_int(t.comparators[0])
      if k is not None: out.setdefault(k, []).append(b)
  return out

def _bits_in (repo, mod, cls, e):
  """set of OFPFW_* names mentioned in an expression"""
  return set(x.id for x in ast.walk(e) if isinstance(x, ast.Name) and x.id.startswith('OFPFW_'))

def _wire_symmetry (ctx, repo, lof):
  m = lof.classes.get('ofp_match')
  w = m.methods.get('_wire_wildcards'); u = m.methods.get('_unwire_wildcards'); fx = m.methods.get('fix')
  if not (w and u and fx): raise AnalysisError("ofp_match wire/unwire/fix vanished")
  for f in (w, u, fx): ctx.analysed(f)
  def by_type (f):
    g = q.cfg_of(f)
    br = _branches_on(g, ('self.dl_type', 'self._dl_type'))
    return g, set(br)
  gw, tw = by_type(w); gu, tu = by_type(u); gf, tf = by_type(fx)
  for name, f, ts in (('_unwire_wildcards', u, tu), ('fix', fx, tf)):
    missing = sorted(tw - ts); extra = sorted(ts - tw)
    good = not missing and not extra
    ctx.ob('R-SIB', f, "%s branches on the same ethertypes as _wire_wildcards" % name, good,
           "ethertypes %s" % sorted("0x%04x" % t for t in ts) if good else
           "_wire_wildcards has a branch for ethertype(s) %s that %s lacks%s: a match with that dl_type is encoded with one set of wildcard bits and decoded/normalised with another - "
           "fields that were specified come back wildcarded, so decode(encode(m)) != m and re-encoding differs" % (["0x%04x" % t for t in missing], name, (" (and extra %s)" % ["0x%04x" % t for t in extra]) if extra else ''), f, 'D9')
  # per ethertype: the bit set cleared by wire == the bit set set by unwire
  def bits_per_branch (g, f):
    out = {}
    for r in [n for n in g.nodes if n.kind == 'return' and n.ast.value is not None]:
      fs = q.guard_facts(g, r)
      key = []
      for l, o, rr, b in fs:
        if rr is not None and norm(l) in ('self.dl_type', 'self._dl_type') and o in ('==', '!='):
          key.append((o, q.try_int(rr)))
        if rr is not None and 'nw_proto' in norm(l): key.append(('proto', o))
      out[tuple(sorted(key, key=str))] = (_bits_in(None, None, None, r.ast.value), r)
    return out
  bw = bits_per_branch(gw, w); bu = bits_per_branch(gu, u)
  for key, (bits, r) in bw.items():
    other = bu.get(key)
    if other is None: continue
    good = other[0] == bits
    ctx.ob('R-SIB', u, "wire and unwire touch the same wildcard bits for branch %s" % (list(key),), good, "%s" % sorted(bits) if good else "wire clears %s, unwire sets %s" % (sorted(bits), sorted(other[0])), (lof, other[1].ast), 'D9')
    inv = isinstance(r.ast.value, ast.BinOp) and isinstance(r.ast.value.op, ast.BitAnd) if bits else True
    inv2 = isinstance(other[1].ast.value, ast.BinOp) and isinstance(other[1].ast.value.op, ast.BitOr) if other[0] else True
    ctx.ob('R-SIB', u, "inverse operations (wire: & ~S, unwire: | S) for branch %s" % (list(key),), inv and inv2, "& ~ / |", (lof, other[1].ast), 'D9')

def _pack_gating (ctx, repo, lof):
  """ofp_match.pack zeroes protocol-dependent fields unless dl_type is in a set; _wire_wildcards keeps a field's
  wildcard bit meaningful for an ethertype unless it clears it: a field kept by the wildcards must be written by pack"""
  m = lof.classes['ofp_match']; pk = m.methods.get('pack'); w = m.methods.get('_wire_wildcards')
  if pk is None or w is None: return
  # which ethertypes let each protocol-dependent field through pack(): decided by evaluating the arguments of the struct.pack
  # calls for a sample match (distinct non-zero field values) under each ethertype - closures, booleans computed up front and
  # conditional expressions are all the same to this
  SAMPLE = {'nw_tos': 0x2c, 'nw_proto': 6, 'nw_src': 0x0a000001, 'nw_dst': 0x0a000002, 'tp_src': 80, 'tp_dst': 81}
  nested = dict((fn.name, fn) for fn in walk_no_nested(pk.node) if isinstance(fn, ast.FunctionDef))
  class ClosureHook(object):
    wants_env = True
    def __init__ (self): self.depth = 0
    def __call__ (self, call, env):
      fn = call.func
      target = None
      if isinstance(fn, ast.Name) and fn.id in nested: target = nested[fn.id]
      elif isinstance(fn, ast.Attribute) and norm(fn.value) in ('self', m.name) and m.find_method(fn.attr) is not None and fn.attr.startswith('_pack'):
        target = m.find_method(fn.attr).node
      if target is None or call.keywords or self.depth > 4: return (False, None)
      try: args = [q.eval_env2(repo, lof, a_, env, m) for a_ in call.args]
      except Exception: return (False, None)
      ps = [a_.arg for a_ in target.args.args]
      if ps and ps[0] == 'self': ps = ps[1:]
      if len(ps) != len(args): return (False, None)
      inner = q.Env(dict(env.exact), list(env.matchers), self)
      for k_, v_ in zip(ps, args): inner.exact[k_] = v_
      gt = q.cfg_of(target); res = []
      self.depth += 1
      try:
        for p_, e_ in q.paths_under(repo, lof, gt, inner, gt.entry, [n_ for n_ in gt.nodes if n_.kind == 'return'], m, limit=30):
          try: res.append(q.eval_env2(repo, lof, p_[-1].ast.value, e_, m))
          except Exception: res.append('?')
      finally: self.depth -= 1
      if res and '?' not in res and all(r_ == res[0] for r_ in res): return (True, res[0])
      return (False, None)
  pack_calls = []
  gp = q.cfg_of(pk)
  for n_ in gp.nodes:
    for call in q.node_calls(n_):
      if call_name(call) == 'pack' and norm(call.func.value) == 'struct': pack_calls.append((n_, call))
  gate = dict((fld, set()) for fld in SAMPLE)
  decided_types = set()
  def written_under (t, proto=6):
    ex = {'self.dl_type': t, 'self.wildcards': 0, 'self.in_port': 3, 'self.dl_vlan': 5, 'self.dl_vlan_pcp': 2, 'self.dl_src': None, 'self.dl_dst': None}
    for k_, v_ in SAMPLE.items(): ex['self.' + k_] = v_
    ex['self.nw_proto'] = proto
    ms = [((lambda e: isinstance(e, ast.Call) and call_name(e) == '_assert'), True), ((lambda e: isinstance(e, ast.Call) and call_name(e) == '_wire_wildcards'), 0),
          ((lambda e: isinstance(e, ast.Call) and call_name(e) == 'toRaw'), b'\0' * 6)]
    vals = set(); unknown = False
    for n_, call in pack_calls:
      for a_ in call.args[1:]:
        vs = q.values_at(repo, lof, gp, q.Env(dict(ex), list(ms), ClosureHook()), n_, a_, m)
        if '?' in vs: unknown = True
        vals |= set(v_ for v_ in vs if isinstance(v_, int) and not isinstance(v_, bool))
    return vals, unknown
  types_probe = set()
  for x in ast.walk(w.node):
    if isinstance(x, ast.Compare) and 'dl_type' in norm(x.left) and isinstance(x.ops[0], (ast.Eq, ast.NotEq)):
      k = q.try_int(x.comparators[0])
      if k is None: k = repo.try_const(lof, x.comparators[0], m)
      if isinstance(k, int): types_probe.add(k)
  for t in sorted(types_probe | {0x1234}):
    vals, unknown = written_under(t)
    for fld, sv in SAMPLE.items():
      if sv in vals: gate[fld].add(t)
    if not unknown or all(sv in vals or True for sv in SAMPLE.values()): decided_types.add(t)
  FW = {'nw_tos': 'OFPFW_NW_TOS', 'nw_proto': 'OFPFW_NW_PROTO', 'nw_src': 'OFPFW_NW_SRC_MASK', 'nw_dst': 'OFPFW_NW_DST_MASK', 'tp_src': 'OFPFW_TP_SRC', 'tp_dst': 'OFPFW_TP_DST'}
  g = q.cfg_of(w)
  per_type = {}
  # decided by evaluation: for each ethertype the function distinguishes (and one it does not), which wildcard bits does
  # _wire_wildcards clear when given all ones?  (works for per-branch returns and for a shared helper alike)
  types_ = set()
  for x in ast.walk(w.node):
    if isinstance(x, ast.Compare) and 'dl_type' in norm(x.left) and isinstance(x.ops[0], (ast.Eq, ast.NotEq)):
      k = q.try_int(x.comparators[0])
      if k is None:
        k = repo.try_const(lof, x.comparators[0], m)
      if isinstance(k, int): types_.add(k)
  allw = ofreg.const_value(repo, lof, 'OFPFW_ALL')
  wparam = w.params[1] if len(w.params) > 1 else 'wildcards'
  for t in sorted(types_):
    for proto in (6, 47):
      for r in [n_ for n_ in g.nodes if n_.kind == 'return' and n_.ast.value is not None]:
        vals = q.values_at(repo, lof, g, q.Env({'self.dl_type': t, 'self.nw_proto': proto, wparam: allw}), r, r.ast.value, m)
        for v_ in vals:
          if not isinstance(v_, int) or isinstance(v_, bool): continue
          cleared = set()
          for fld_, bit_ in FW.items():
            bv = ofreg.const_value(repo, lof, bit_)
            if isinstance(bv, int) and (v_ & bv) == 0: cleared.add(bit_)
          per_type.setdefault(t, []).append(cleared)
  n = 0
  # transport ports (ICMP type / code) depend on the IP protocol as well: per (ethertype, protocol) the wildcard function and pack()
  # must agree - a port the wildcards call specified is written, for every protocol the wildcard function lets through
  for t in sorted(types_):
    for proto in (1, 6, 17, 47):
      keep_ = None
      for r in [n_ for n_ in g.nodes if n_.kind == 'return' and n_.ast.value is not None]:
        for v_ in q.values_at(repo, lof, g, q.Env({'self.dl_type': t, 'self.nw_proto': proto, wparam: allw}), r, r.ast.value, m):
          if not isinstance(v_, int) or isinstance(v_, bool): keep_ = '?'; continue
          k_ = set(f_ for f_ in ('tp_src', 'tp_dst') if isinstance(ofreg.const_value(repo, lof, FW[f_]), int) and (v_ & ofreg.const_value(repo, lof, FW[f_])) != 0)
          keep_ = k_ if keep_ is None else (keep_ if keep_ == '?' else (keep_ | k_))
      if keep_ is None or keep_ == '?': continue
      vals, unknown = written_under(t, proto)
      if unknown: continue
      for fld in ('tp_src', 'tp_dst'):
        n += 1
        kept = fld in keep_; written = SAMPLE[fld] in vals
        good = (not kept) or written
        ctx.ob('R-SIB', pk, "dl_type 0x%04x, nw_proto %d: field `%s` kept by _wire_wildcards is also written by pack" % (t, proto, fld), good,
               "kept=%s written=%s" % (kept, written) if good else
               "for dl_type 0x%04x and nw_proto %d _wire_wildcards leaves %s specified but pack() writes 0 for `%s`: the wire says 'specified, value 0' (for ICMP: type / code 0) and the decoded match differs from the encoded one"
               % (t, proto, FW[fld], fld), pk, 'D9')
  for t, sets in per_type.items():
    always_cleared = set.intersection(*sets) if sets else set()
    for fld, bit in FW.items():
      if fld not in gate: continue
      if fld.startswith('tp_'): continue        # tp_* additionally depend on nw_proto; gated by check_tp
      n += 1
      kept = bit not in always_cleared
      written = t in gate[fld]
      good = (not kept) or written
      ctx.ob('R-SIB', pk, "dl_type 0x%04x: field `%s` kept by _wire_wildcards is also written by pack" % (t, fld), good,
             "kept=%s written=%s" % (kept, written) if good else
             "for dl_type 0x%04x _wire_wildcards leaves %s specified but pack() writes 0 for `%s` (its gate only passes %s): the wire says 'specified, value 0' and the decoded match differs from the encoded one" % (t, bit, fld, sorted('0x%04x' % x for x in gate[fld])),
             pk, 'D9')
  ctx.floor('pack gating obligations', n, 8)

def _bitfields (ctx, repo, nx):
  """composite int slots: for (offset, nbits) samples, unpack(pack) must give the fields back"""
  SAMPLES = {'offset': [0, 1, 5, 1023], 'nbits': [1, 2, 17, 32, 63, 64]}
  hook = _pure_hook(repo, nx)
  n = 0
  for c in nx.classes.values():
    pm = c.methods.get('_pack_body'); um = c.methods.get('_unpack_body')
    if pm is None or um is None: continue
    # composite local packed in an int slot, fed from self.offset / self.nbits
    comp = None
    for call in calls_in(pm.node):
      if call_name(call) == 'pack' and norm(call.func.value) == 'struct':
        for a in call.args[1:]:
          if isinstance(a, ast.Name) and 'nbits' in a.id and a.id != 'nbits': comp = (a.id, call)
    if comp is None: continue
    wname, pcall = comp
    ug = q.cfg_of(um); pg = q.cfg_of(pm)
    # unpack-side stores self.offset / self.nbits
    ust = {}
    for st in [n for n in walk_no_nested(um.node) if isinstance(n, ast.Assign)]:
      tg = st.targets[0]
      if isinstance(tg, ast.Tuple):
        for i, t in enumerate(tg.elts):
          if isinstance(t, ast.Attribute) and norm(t.value) == 'self' and t.attr in ('offset', 'nbits'):
            ust[t.attr] = (ast.Subscript(value=st.value, slice=ast.Constant(value=i), ctx=ast.Load()), st)
      elif isinstance(tg, ast.Attribute) and norm(tg.value) == 'self' and tg.attr in ('offset', 'nbits'):
        ust[tg.attr] = (st.value, st)
    if set(ust) != {'offset', 'nbits'}:
      ctx.undecided('R-AGREE', c.qual, "bit-field composite `%s`" % wname, "unpack side does not assign both offset and nbits", c, 'D11'); continue
    uname = None
    for v, st in ust.values():
      for x in ast.walk(v):
        if isinstance(x, ast.Name) and 'nbits' in x.id: uname = x.id
    bad = None; tested = 0
    for off in SAMPLES['offset']:
      for nb in SAMPLES['nbits']:
        got = []
        def on_node (node, env, got=got):
          if node.ast is not None and any(cc is pcall for cc in q.node_calls(node)):
            try: got.append(q.eval_env2(repo, nx, ast.Name(id=wname, ctx=ast.Load()), env, c))
            except Exception: pass
        env = q.Env({'self.offset': off, 'self.nbits': nb, 'self.dst': '<dst>', 'self.dst is None': False, 'dst is None': False, 'self.nbits is None': False,
                     'self.reg is None': False, 'self.dst is not None': True}, [(lambda e: isinstance(e, ast.Call) and call_name(e) == 'isinstance', False)], call_hook=hook)
        q.paths_under(repo, nx, pg, env, pg.entry, [pg.exit], c, limit=60, on_node=on_node)
        vals = set(v for v in got if isinstance(v, int))
        if len(vals) != 1: continue
        wv = vals.pop(); tested += 1
        back = {}
        for fld, (v, st) in ust.items():
          try: back[fld] = q.eval_env2(repo, nx, v, q.Env({uname: wv}, call_hook=hook), c)
          except Exception: back[fld] = None
        if back.get('offset') != off or back.get('nbits') != nb:
          bad = (off, nb, wv, back); break
      if bad: break
    n += 1
    if tested < 6:
      ctx.undecided('R-AGREE', c.qual, "bit-field composite `%s` is inverted by unpack" % wname, "composite value not evaluable on the sample domain (%d samples)" % tested, c, 'D11'); continue
    ctx.ob('R-AGREE', c.qual, "bit-field composite `%s` is inverted by unpack" % wname, bad is None,
           "%d (offset, nbits) samples round-trip through the pack / unpack expressions" % tested if bad is None else
           "offset=%d nbits=%d is packed as %s=0x%x but unpack's expressions give offset=%s nbits=%s: the decoded action differs from the encoded one" % (bad[0], bad[1], wname, bad[2], bad[3].get('offset'), bad[3].get('nbits')),
           c, 'D11')
  ctx.floor('bit-field composites checked', n, 2)

def _pure_hook (repo, module):
  return q.PureCallHook(repo, module)


def _class_level_len (ctx, repo, lof):
  """`len(ofp_xxx)` on a *class* goes through the metaclass: it calls `cls.__len__()` and falls back to `_MIN_LENGTH`.  For a class
  with an instance-method __len__ that call raises TypeError; for a class without any __len__ (ofp_header) the attribute found is
  the metaclass's own method, so it recurses until RecursionError.  The fallback handler has to catch what the classes actually
  used with len() make it raise."""
  meta = lof.classes.get('_ofp_meta')
  ml = meta.methods.get('__len__') if meta is not None else None
  if ml is None: raise AnalysisError("_ofp_meta.__len__ vanished")
  ctx.analysed(ml)
  hs = [h for h in ast.walk(ml.node) if isinstance(h, ast.ExceptHandler)]
  def catches (exc):
    fam = {'TypeError': ('TypeError', 'Exception', 'BaseException'), 'RecursionError': ('RecursionError', 'RuntimeError', 'Exception', 'BaseException')}[exc]
    for h in hs:
      if h.type is None: return True
      ts = h.type.elts if isinstance(h.type, ast.Tuple) else [h.type]
      if any(norm(t_).split('.')[-1] in fam for t_ in ts): return True
    return False
  n = 0
  mods = [lof] + [m_ for nm_, m_ in repo.modules.items() if nm_.endswith('openflow.nicira')]
  seen = set()
  for m_ in mods:
    for c_ in calls_in(m_.tree, nested=True):
      if call_name(c_) != 'len' or len(c_.args) != 1 or not isinstance(c_.args[0], ast.Name): continue
      k = m_.lookup(c_.args[0].id)
      if not hasattr(k, 'find_method') or not any(b.name == 'ofp_base' for b in k.mro()): continue
      if k.name in seen: continue
      seen.add(k.name); n += 1
      f = k.find_method('__len__')
      need = None if (f is not None and f.is_static) else ('TypeError' if f is not None else 'RecursionError')
      good = need is None or catches(need)
      ctx.ob('R-CONTAIN', ml, "class-level `len(%s)` yields a length" % k.name, good,
             "static __len__" if need is None else ("fallback to _MIN_LENGTH catches %s" % need) if good else
             "%s %s, so `cls.__len__()` in the metaclass raises %s, which the fallback handler (%s) does not catch: every codec that evaluates `len(%s)` (line %d) raises instead of using _MIN_LENGTH"
             % (k.name, "has an instance-method __len__" if f is not None else "defines no __len__ at all (the lookup finds the metaclass's own method, which recurses)", need,
                ', '.join(norm(h.type) if h.type is not None else 'bare' for h in hs) or 'none', k.name, c_.lineno), (m_, c_), 'D3')
  ctx.floor('classes used with class-level len()', n, 3)


def _lazy_caches (ctx, repo, lof):
  """A codec object that keeps a lazily packed copy (`if self.C is None: self.C = pack(self.S)`) of a field S: every store to
  `self.S` outside the constructor is followed, on every path, by the reset `self.C = None` - otherwise length and bytes are
  computed from the previous value (an object decoded into, or assigned to, after it was packed once)."""
  n = 0
  for c in lof.classes.values():
    pairs = []
    for f in c.methods.values():
      for x in ast.walk(f.node):
        if not (isinstance(x, ast.If) and isinstance(x.test, ast.Compare) and len(x.test.ops) == 1 and isinstance(x.test.ops[0], ast.Is)
                and isinstance(x.test.comparators[0], ast.Constant) and x.test.comparators[0].value is None and q.is_self_attr(x.test.left)): continue
        C = x.test.left.attr
        fills = [st for b in x.body for st in ast.walk(b) if isinstance(st, ast.Assign) and any(q.is_self_attr(t, C) for t in st.targets)]
        if not fills: continue
        srcs = set(y.attr for b in x.body for y in ast.walk(b) if q.is_self_attr(y) and isinstance(y.ctx, ast.Load) and y.attr != C and y.attr.startswith('_'))
        for S in srcs: pairs.append((C, S, f))
    for C, S, filler in pairs:
      for f in c.methods.values():
        if f.name == '__init__': continue
        g = q.cfg_of(f)
        sn = [n_ for n_ in g.nodes if isinstance(n_.ast, (ast.Assign, ast.AugAssign)) and any(q.is_self_attr(t, S) for t in (n_.ast.targets if isinstance(n_.ast, ast.Assign) else [n_.ast.target]))]
        if not sn: continue
        rn = [n_ for n_ in g.nodes if isinstance(n_.ast, ast.Assign) and any(q.is_self_attr(t, C) for t in n_.ast.targets) and isinstance(n_.ast.value, ast.Constant) and n_.ast.value.value is None]
        for s_ in sn:
          n += 1
          good = bool(rn) and (g.postdominates(rn, s_) or any(g.dominates(r_, s_) and not [w_ for w_ in g.nodes if w_ is not r_ and w_ in g.reachable(r_, exc=False) and s_ in g.reachable(w_, exc=False)
                                                                                             and isinstance(w_.ast, ast.Assign) and any(q.is_self_attr(t, C) for t in w_.ast.targets)] for r_ in rn))
          ctx.ob('R-EFFECT', f, "a store to `self.%s` resets the packed copy `self.%s`" % (S, C), good, "`self.%s = None` on every path" % C if good else
                 "`%s` replaces the field that %s packs lazily into self.%s, without `self.%s = None`: if the object has been packed (or measured) before, its length and bytes are still those of the previous value - "
                 "the header length no longer equals the byte count of what the object now holds" % (s_.text(50), filler.qual, C, C), (lof, s_.ast), 'D5')
  ctx.floor('stores to lazily packed fields', n, 1)


def _address_slots (ctx, repo, lof):
  """Integer slots that are filled through a conversion helper of another module: `ofp_action_nw_addr` packs IPAddr.toSigned() into a
  signed 32-bit slot ('l').  The helper is evaluated on sample addresses - 0, 1.2.3.4, 127.255.255.255, 128.0.0.0 (the sign bit alone),
  128.0.0.1, 255.255.255.255 - and has to give the two's-complement reading of the host-order value, which always fits the slot."""
  import socket as so_, struct as st_
  am = repo.mod('lib.addresses'); ip = am.classes.get('IPAddr')
  users = [c_ for k_ in lof.classes.values() for f_ in k_.methods.values() if f_.name == 'pack' for c_ in calls_in(f_.node) if call_name(c_) in ('toSigned', 'toSignedN')]
  if ip is None or not users: return
  n = 0
  for name, net in (('toSigned', False),):
    f = ip.methods.get(name)
    if f is None: continue
    ctx.analysed(f); g = q.cfg_of(f)
    bad = []; und = 0
    for host in (0, 0x01020304, 0x7fffffff, 0x80000000, 0x80000001, 0xffffffff):
      stored = so_.ntohl(host)                      # IPAddr keeps the address in network order
      want = host - (1 << 32) if host >= (1 << 31) else host
      del q.RAISED[:]
      outs = set()
      for p_, e_ in q.paths_under(repo, am, g, q.Env({'self._value': stored, (f.params[1] if len(f.params) > 1 else 'networkOrder'): net}), g.entry, [n_ for n_ in g.nodes if n_.kind == 'return'], ip, limit=20):
        try: outs.add(q.eval_env2(repo, am, p_[-1].ast.value, e_, ip))
        except Exception: outs.add('?')
      n += 1
      if q.RAISED: bad.append((host, "raises %s" % q.RAISED[0][1])); continue
      if not outs or '?' in outs: und += 1; continue
      if outs != {want}: bad.append((host, "gives %s, expected %d" % (sorted(outs), want)))
    if und and not bad:
      ctx.undecided('R-AGREE', f, "the address conversion packed into a signed slot is the two's-complement reading (6 sample addresses)", "%d samples not evaluable" % und, f, 'D4')
    else:
      ctx.ob('R-AGREE', f, "the address conversion packed into a signed slot is the two's-complement reading (6 sample addresses)", not bad, "0, 1.2.3.4, 127.255.255.255, 128.0.0.0, 128.0.0.1, 255.255.255.255" if not bad else
             "IPAddr.%s() for host-order value 0x%08x %s; %s packs it with a signed 32-bit code: that address cannot be encoded (struct.error) or encodes as another address" % (name, bad[0][0], bad[0][1], users[0].__class__.__name__ and 'ofp_action_nw_addr.pack'), f, 'D4')
  ctx.floor('address conversion samples', n, 6)
