"""C02 - message framing independent of segmentation: the obligations of the loop invariant
"buffer = unconsumed suffix of the stream; every complete prefix message delivered once, in order".

 D1 received bytes are appended to the reassembly buffer; every other writer drops a prefix
 D2 header bytes are read only when enough bytes are available from the cursor
 D3 decode and delivery are dominated by "available >= wire length"
 D4 the cursor advances by exactly the wire length on every path that continues after a decode
 D5 exactly one delivery per decoded message, none on the incomplete-message path
 D6 the unconsumed residual is kept on the normal exit; nothing clears the buffer
 D7 every arrival of bytes leads to a framing attempt (no path from the append to the normal exit
    bypasses the loop)
 D8 the value returned when no complete message was found does not make a caller close the connection
"""
import ast, struct
from .. import q, framing
from ..model import AnalysisError, calls_in, call_name, norm, kwarg, walk_no_nested

EXPLAIN = ("Role inference (BUF, CUR, WLEN, AVAIL, DECODE, DELIVER, ADVANCE) on both framing loops, then: R-OWN/shape of the "
           "reassembly buffer's writers (append vs prefix-drop); R-DOM index/struct reads guarded by available bytes; R-DOM decode and "
           "delivery under available >= wire length; R-AGREE advance by exactly the wire length; R-EFFECT one delivery per decode; "
           "R-ORDER residual kept; every receive reaches the loop. Decides the obligations of the loop invariant, not 'for every "
           "segmentation' as an executed statement.")

LOOPS = ['openflow.of_01:Connection.read', 'datapaths.switch:OFConnection.read']

def run (ctx):
  ctx.explanation = EXPLAIN
  ctx.assumptions = ["handlers do not re-enter read()", "the hand argument: D1-D7 imply the invariant 'buffer = unconsumed suffix, complete prefix messages delivered once in order'"]
  repo = ctx.repo
  n_loops = 0
  for qual in LOOPS:
    f = repo.func(qual); ctx.analysed(f)
    try:
      L = framing.find_loop(repo, f)
    except AnalysisError as e:
      ctx.undecided('R-DOM', f, "framing roles", str(e), f, 'D2'); continue
    n_loops += 1
    _loop(ctx, repo, f, L)
    _caller_contract(ctx, repo, f, L)
  # the type-indexed decoder table: both sides customise their table in place (the Nicira vendor hook on the controller's, wrappers
  # on a switch connection's), so the function that builds it hands out a fresh list - a list kept in a module global and handed to
  # every caller makes one side's customisation the other's decoder
  um_ = repo.mod('openflow.util'); mk_ = um_.funcs.get('make_type_to_unpacker_table')
  if mk_ is not None:
    ctx.analysed(mk_)
    globs_ = set(n_ for x_ in ast.walk(mk_.node) if isinstance(x_, ast.Global) for n_ in x_.names) | set(um_.assigns.keys())
    shared_ = [r_ for r_ in q.returns_of(mk_.node) if isinstance(r_.value, ast.Name) and r_.value.id in globs_ and not any(isinstance(v_, (ast.ListComp, ast.List)) for v_, st_, k_ in q.reaching_assign(mk_.node, r_.value.id) if False)]
    shared_ = [r_ for r_ in shared_ if any(isinstance(x_, ast.Global) and r_.value.id in x_.names for x_ in ast.walk(mk_.node)) or r_.value.id in um_.assigns]
    ctx.ob('R-OWN', mk_, "every caller gets a decoder table of its own", not shared_, "a new list per call" if not shared_ else
           "`return %s` hands every caller the same module-level list; the controller side stores decoders into its table in place (nicira's vendor hook) and so may a switch connection: whichever runs last rewrites the other side's "
           "decoders - e.g. offsets relative to a slice on one side trip the consumed == declared assertion on the other for every message that is not first in its read" % shared_[0].value.id, (um_, shared_[0]) if shared_ else mk_, 'D3')
  # decoders never size a read by the length of the buffer they are handed (it may hold further messages)
  uses_, nd_ = framing.buffer_length_uses(repo)
  ctx.floor('codec decoders scanned for buffer-length-sized reads', nd_, 60)
  for f_, x_, txt_ in uses_:
    ctx.bad('R-UNITS', f_, "the receive buffer's own length only guards reads, it never sizes one (`%s`)" % txt_[:50],
            "`%s` derives a read size / cursor from len(<buffer>): the decoder is handed the connection's whole receive buffer, so with a further message behind this one it takes that message's bytes as its own - "
            "decoding consumes beyond the declared length (and the consumed == declared test then rejects a well-formed stream)" % txt_, (f_.module, x_), 'D3')
  if not uses_: ctx.ok('R-UNITS', 'openflow.libopenflow_01', "the receive buffer's own length only guards reads, it never sizes one", "%d decoders: len(<buffer>) occurs in comparisons only" % nd_, None, 'D3')
  # what a framed message is delivered to must not depend on which read() it arrived in (shared with C09)
  from . import c09
  ofm = repo.mod('openflow.of_01'); con_ = ofm.classes.get('Connection')
  if con_ is not None: c09.current_table_dispatch(ctx, repo, ofm, con_, 'D6')
  ctx.floor('framing loops with roles assigned', n_loops, 2)
  _buffers(ctx, repo)
  _decoder_table(ctx, repo)
  # ---- mechanisms this property shares with others: their checks' rules about these functions are obligations here too
  ctx.include('C01', ['_unpack_nx_vendor'], "the vendor decode hook sits in the controller's unpacker table")
  ctx.include('C01', ['.unpack'], "the framing loops advance by what each decoder reports as consumed: it must be the declared length, from whatever position the message starts at")

def _loop (ctx, repo, f, L):
  g = L.g; mod = f.module
  # ---- D2 header reads guarded -----------------------------------------------------
  reads = []
  for n in g.nodes:
    if n.ast is None or n.kind in ('def', 'branch', 'handler', 'for'): continue
    src = n.ast
    for x in ([src] if not isinstance(src, ast.With) else [i.context_expr for i in src.items]):
      for s_ in walk_no_nested(x):
        if isinstance(s_, ast.Subscript) and norm(s_.value) == L.buf and not isinstance(s_.slice, ast.Slice) and isinstance(s_.ctx, ast.Load):
          b, k = q.linear(s_.slice, None)
          if b == L.cur: reads.append((n, s_, k + 1, "index %s" % norm(s_.slice)))
        if isinstance(s_, ast.Call) and call_name(s_) == 'unpack_from' and len(s_.args) >= 2 and norm(s_.args[1]) == L.buf:
          fmt = repo.try_const(mod, s_.args[0])
          off = s_.args[2] if len(s_.args) > 2 else None
          b, k = q.linear(off, None) if off is not None else (L.cur, 0)
          if off is None: b = None if L.cur is None else '<start>'
          if fmt is not None and (b == L.cur or (off is None and L.cur is None)):
            reads.append((n, s_, k + struct.calcsize(fmt), "unpack_from(%r)" % fmt))
  ctx.floor('%s: header reads' % f.name, len(reads), 1)
  for n, s_, need, what in reads:
    if n not in L.body and n is not L.head: continue
    have = framing.avail_lower_bound(L, n)
    good = have >= need
    ctx.ob('R-DOM', f, "header read `%s` needs %d byte(s) from the cursor" % (norm(s_)[:50], need), good,
           "dominating guards give >= %d available" % have if good else
           "only %d byte(s) are guaranteed available here but the read needs %d: a read ending mid-header raises (%s) instead of waiting for the rest" % (have, need, "struct.error" if 'unpack' in what else "IndexError"),
           (mod, s_), 'D2')
  # ---- D3 ----------------------------------------------------------------------------
  ctx.floor('%s: decode site' % f.name, len(L.decode), 1); ctx.floor('%s: delivery site' % f.name, len(L.deliver), 1)
  for n, c in L.decode + L.deliver:
    good = framing.avail_ge_wlen(L, n)
    if not good:        # dominance cannot see flags that are correlated with the length test: enumerate the feasible paths
      good, bad_path = framing.avail_ge_wlen_paths(repo, f, L, n)
      if good is None:
        ctx.undecided('R-DOM', f, "`%s` only when the whole message has arrived" % n.text(50), "no dominating length test, and the paths from the loop head could not be enumerated", (mod, n.ast), 'D3'); continue
    ctx.ob('R-DOM', f, "`%s` only when the whole message has arrived" % n.text(50), good,
           "dominated by available >= %s" % L.wlen if good else "not dominated by a test that the available bytes cover the declared length %s: an incomplete trailing message is decoded/delivered early (facts %s)" % (L.wlen, q.fact_strs(g, n)),
           (mod, n.ast), 'D3')
  for n, c in L.decode:
    a1 = norm(c.args[1])
    good = (a1 == L.cur) if L.cur else (a1 == '0')
    ctx.ob('R-AGREE', f, "decoding starts at the cursor", good, "decode(%s, %s)" % (L.buf, a1), (mod, c), 'D3')
    sub_ = L.decode_sub[id(c)]; tbl = norm(sub_.value); idx = norm(sub_.slice)
    tdef = q.single_def(f.node, idx)
    good = tdef is not None and norm(tdef) == '%s[%s]' % (L.buf, ('%s + 1' % L.cur) if L.cur else '1')
    if tdef is None or (isinstance(tdef, ast.Call) and call_name(tdef) == 'unpack_from'):
      for a_ in walk_no_nested(f.node):
        if isinstance(a_, ast.Assign) and isinstance(a_.targets[0], ast.Tuple) and isinstance(a_.value, ast.Call) and call_name(a_.value) == 'unpack_from':
          fmt = repo.try_const(mod, a_.value.args[0]); offs = framing.field_offsets(fmt) if isinstance(fmt, str) else []
          for (o, sz), nm in zip(offs, a_.targets[0].elts):
            if norm(nm) == idx and o == 1 and sz == 1 and norm(a_.value.args[1]) == L.buf and (not L.cur or (len(a_.value.args) > 2 and norm(a_.value.args[2]) == L.cur)): good = True; tdef = a_.value
    ctx.ob('R-AGREE', f, "decoder selected by the header's type byte", good, "%s = %s" % (idx, norm(tdef)), (mod, c), 'D3')
  # ---- D4 advance by exactly WLEN ------------------------------------------------------
  after_dec = set()
  for n, c in L.decode: after_dec |= g.reachable(n, avoid=[L.head])
  adv_nodes = [a for a in L.advance if a[0] in after_dec]
  ctx.floor('%s: advance sites' % f.name, len(adv_nodes), 1)
  for n, kind, v in adv_nodes:
    if kind == 'consume':
      good = v is not None and norm(v) == L.wlen
      if not good and isinstance(v, ast.Name):
        # a local that carries the declared length to a shared tail (`skip = message_length` ... `consume(skip)`): every definition
        # that reaches the call is the wire length, or the None that a dominating `is not None` test excludes
        try:
          IN_, defn_ = q.reaching_defs(g, v.id)
          ds_ = [defn_[d_] for d_ in IN_[n] if d_ is not g.entry]
          fs_ = q.fact_strs(g, n)
          none_excluded = ('%s is not None' % v.id) in fs_
          if ds_ and len(ds_) == len(IN_[n]) and all((kind_ == 'assign' and val_ is not None and not isinstance(val_, tuple) and (norm(val_) == L.wlen or (none_excluded and isinstance(val_, ast.Constant) and val_.value is None))) for tt_, val_, kind_ in ds_) \
             and any(norm(val_) == L.wlen for tt_, val_, kind_ in ds_ if val_ is not None and not isinstance(val_, tuple)):
            good = True
        except Exception: pass
      ctx.ob('R-AGREE', f, "`%s` consumes exactly the declared length" % n.text(50), good, "consume(%s)" % L.wlen if good else
             "the cursor advances by `%s`, not by the wire length %s: bytes of the next message are dropped or a message is delivered twice" % (norm(v), L.wlen), (mod, n.ast), 'D4')
    else:
      # cursor = new_offset under assert new_offset - cursor == WLEN
      fs = q.fact_strs(g, n)
      want = ['%s - %s == %s' % (norm(v), L.cur, L.wlen), '%s == %s - %s' % (L.wlen, norm(v), L.cur), '%s == %s + %s' % (norm(v), L.cur, L.wlen)]
      good = any(w in fs for w in want) or norm(v) in ('%s + %s' % (L.cur, L.wlen), '%s + %s' % (L.wlen, L.cur)) or framing.advance_tied(L, g, n, norm(v))
      ctx.ob('R-AGREE', f, "`%s` advances the cursor by exactly the declared length" % n.text(50), good, "asserted %s" % want[0] if good else
             "no dominating fact ties the new cursor `%s` to cursor + %s (facts %s)" % (norm(v), L.wlen, fs), (mod, n.ast), 'D4')
  if getattr(L, 'wlen_code', None) is not None:
    bo_, code_ = L.wlen_code
    ctx.ob('R-LAYOUT', f, "the declared length is read as an unsigned 16-bit big-endian value", bo_ in ('!', '>') and code_ == 'H', "struct code %s%s" % (bo_, code_) if (bo_ in ('!', '>') and code_ == 'H') else
           "the header's length field is unpacked with struct code `%s%s`%s: a message of 32768 bytes or more is seen with a negative length and treated as malformed - the connection is shut down and nothing behind it is answered"
           % (bo_, code_, " (signed)" if code_ == 'h' else ""), (mod, L.wlen_stmt), 'D2')
  # every path decode -> loop head advances exactly once
  for n, c in L.decode:
    iv = g.interval(lambda x: x in [a[0] for a in L.advance], start=n, stop=L.head)
    good = iv == (1, 1)
    if not good and iv is not None:
      # path-sensitive recount: the markers an inlined helper leaves behind (`ok = False ... if not ok: break`) correlate branches
      advn = [a[0] for a in L.advance]
      for env0_ in (q.Env(), q.Env({L.wlen: 12} if L.wlen else {})):      # second try: the declared length as a sample value (a local that carries it is then known not to be None)
        ps_ = q.paths_under(repo, mod, g, env0_, n, [L.head], f.cls, limit=300, track_start=True)
        if ps_ and len(ps_) < 300:
          cnts = set(sum(1 for x_ in p_ if x_ in advn) for p_, e_ in ps_)
          if cnts == {1}: good = True; iv = (1, 1); break
        # flags set at the top of the iteration (`problem = None`) are only known on paths that start at the loop head
        # (from the loop head the declared length is re-read on the way: a sample value for every later read of that name)
        envh_ = env0_ if not env0_.exact else q.Env({}, [((lambda e: isinstance(e, ast.Name) and isinstance(e.ctx, ast.Load) and e.id == L.wlen), 12)])
        ps_ = q.paths_under(repo, mod, g, envh_, L.head, [L.head, L.after, g.exit, g.raise_exit], f.cls, limit=600)
        if ps_ and len(ps_) < 600:
          thru = [p_ for p_, e_ in ps_ if n in p_ and p_[-1] is L.head]
          cnts = set(sum(1 for x_ in p_[p_.index(n):] if x_ in advn) for p_ in thru)
          if thru and cnts == {1}: good = True; iv = (1, 1); break
    ctx.ob('R-EFFECT', f, "after a decode the loop continues only with the cursor advanced once", good, "advance count on paths back to the loop head: %s" % (iv,),
           (mod, c), 'D4') if iv is not None else ctx.undecided('R-EFFECT', f, "advance per iteration", "loop head not reachable from decode", (mod, c), 'D4')
    # ... also when the delivery raises and a handler inside the loop carries on: the message that was handed over is not handed over again
    ivx = g.interval(lambda x: x in [a[0] for a in L.advance], start=n, stop=L.head, exc=True)
    if iv == (1, 1) and ivx is not None and ivx[0] < 1:
      advn = [a[0] for a in L.advance]
      ps_ = q.paths_under(repo, mod, g, q.Env(), n, [L.head], f.cls, limit=400, track_start=True, exc=True)
      if ps_ and len(ps_) < 400:
        cnts = [sum(1 for x_ in p_ if x_ in advn) for p_, e_ in ps_]
        if min(cnts) >= 1: ivx = (min(cnts), max(cnts))
      if ivx[0] < 1:
        # flags set at the top of the iteration: enumerate from the loop head, count from the decode on
        envh_ = q.Env({}, [((lambda e: isinstance(e, ast.Name) and isinstance(e.ctx, ast.Load) and e.id == L.wlen), 12)])
        ps_ = q.paths_under(repo, mod, g, envh_, L.head, [L.head, L.after, g.exit, g.raise_exit], f.cls, limit=800, exc=True)
        if ps_ and len(ps_) < 800:
          thru = [p_ for p_, e_ in ps_ if n in p_ and p_[-1] is L.head]
          cnts = [sum(1 for x_ in p_[p_.index(n):] if x_ in advn) for p_ in thru]
          if cnts and min(cnts) >= 1: ivx = (min(cnts), max(cnts))
    if iv == (1, 1) and ivx is not None and ivx[0] >= 1 and ivx[1] > 1:
      # ... and not twice: a consume added to the handler of a delivery whose message was already consumed drops the next message's bytes
      advn = [a[0] for a in L.advance]
      ps_ = q.paths_under(repo, mod, g, q.Env(), n, [L.head], f.cls, limit=400, track_start=True, exc=True)
      twice = [p_ for p_, e_ in ps_ if sum(1 for x_ in p_ if x_ in advn) > 1] if ps_ and len(ps_) < 400 else []
      ctx.ob('R-EFFECT', f, "the cursor advances once per decoded message also when the delivery raises", not twice, "no path with two advances" if not twice else
             "a path from the decode through an `except` clause back to the loop head advances the cursor twice (lines %s): when the message handler raises, the declared length of the failed message is consumed a second time - "
             "the bytes of the next message are dropped (or mis-framed, or the buffer underruns), so what is delivered depends on what happened to be buffered" % sorted(set(x_.line for x_ in twice[0] if x_ in advn)), (mod, c), 'D4')
    if iv == (1, 1) and ivx is not None:
      ctx.ob('R-EFFECT', f, "the cursor has advanced also on the paths through an exception handler back to the loop head", ivx[0] >= 1,
             "advance count including handler paths: %s" % (ivx,) if ivx[0] >= 1 else
             "a path from the decode through an `except` clause back to the loop head advances the cursor %s time(s): when the message handler raises, the same message is decoded and delivered again - forever - and the messages behind it never are" % (ivx[0],),
             (mod, c), 'D4')
  # ---- D5 delivery -----------------------------------------------------------------------
  dn = [d[0] for d in L.deliver]
  for n, c in L.decode:
    iv = g.interval(lambda x: x in dn, start=n, stop=L.head)
    ctx.ob('R-EFFECT', f, "each decoded message is delivered at most once, in loop order", iv is not None and iv[1] <= 1, "deliveries per iteration %s" % (iv,), (mod, c), 'D5')
  brk = [n for n in g.nodes if n.kind == 'break' and any(m is L.after for m, l in n.succ)]
  inc = [b for b in brk if any((L.wlen in f_) for f_ in q.fact_strs(g, b))]
  for b in inc:
    r = g.reachable(b, avoid=[L.head])
    good = not any(d in r for d in dn) and not any(a[0] in r for a in L.advance)
    ctx.ob('R-EFFECT', f, "the incomplete-message exit delivers nothing and consumes nothing", good, "break path is effect-free", (mod, b.ast), 'D5')
  for n, c in L.deliver:
    good = norm(c.args[-1]) == L.msgvar or L.msgvar in [norm(a) for a in c.args]
    dec_dom = any(g.dominates(d[0], n) for d in L.decode)
    if not dec_dom and any(g.dominates(d[0], n, exc=False) for d in L.decode):
      # the decode sits in a try: the delivery is not reached from its handler (by evaluation - a handler that marks the failure,
      # `new_offset = None`, and the length comparison behind it send the iteration to the error path)
      def hookN_ (call, env=None): return (True, None) if call_name(call) == '_error_handler' else (False, None)
      via = []
      for d in L.decode:
        for h_ in g.handlers_for(d[0]):
          ps_ = q.paths_under(repo, mod, g, q.Env({L.wlen: 12} if L.wlen else {}, [], hookN_), h_, [n, L.head, L.after, g.exit, g.raise_exit], f.cls, limit=200, track_start=True)
          if not ps_ or len(ps_) >= 200: via.append(None)
          else: via += [p_ for p_, e_ in ps_ if p_[-1] is n]
      if via:
        # the same from the loop head (flags of the iteration known): does any feasible path run through a handler of the decode and still deliver?
        envh_ = q.Env({}, [((lambda e: isinstance(e, ast.Name) and isinstance(e.ctx, ast.Load) and e.id == L.wlen), 12)], hookN_)
        hs_all = [h_ for d in L.decode for h_ in g.handlers_for(d[0])]
        ps_ = q.paths_under(repo, mod, g, envh_, L.head, [n, L.head, L.after, g.exit, g.raise_exit], f.cls, limit=800, exc=True)
        if ps_ and len(ps_) < 800 and not [p_ for p_, e_ in ps_ if p_[-1] is n and any(h_ in p_ for h_ in hs_all)]: via = []
      if not via: dec_dom = True
    if not dec_dom:
      # no structural dominance (the decode sits in one arm of a ladder that records what went wrong in a flag): every feasible
      # path from the loop head to the delivery runs through the decode and through none of its handlers
      try:
        def hookM_ (call, env=None): return (True, None) if call_name(call) == '_error_handler' else (False, None)
        envh_ = q.Env({}, [((lambda e: isinstance(e, ast.Name) and isinstance(e.ctx, ast.Load) and e.id == L.wlen), 12)], hookM_)
        decs_ = [d[0] for d in L.decode]; hs_all = [h_ for d in L.decode for h_ in g.handlers_for(d[0])]
        ps_ = q.paths_under(repo, mod, g, envh_, L.head, [n, L.head, L.after, g.exit, g.raise_exit], f.cls, limit=800, exc=True)
        to_n = [p_ for p_, e_ in ps_ if p_[-1] is n] if ps_ and len(ps_) < 800 else []
        if to_n and all(any(d_ in p_ for d_ in decs_) and not any(h_ in p_ for h_ in hs_all) for p_ in to_n): dec_dom = True
      except Exception: pass
    ctx.ob('R-ORDER', f, "the delivered object is the one just decoded", good and dec_dom, "decode dominates delivery of %s" % L.msgvar, (mod, c), 'D5')
  # a delivery that raised must not end the loop: the complete messages behind it in the buffer are still owed
  # (decided with the error handler's summary for the constant reason it is called with)
  ehf = f.cls.find_method('_error_handler') if f.cls is not None else None
  if ehf is not None:
    for n in g.nodes_with_call(lambda c: call_name(c) == '_error_handler'):
      c = [c for c in q.node_calls(n) if call_name(c) == '_error_handler'][0]
      hs = [h for h in g.nodes if h.kind == 'handler' and g.dominates(h, n) and any(g.dominates(d, h) or d in g.try_of.get(h, ()) or True for d in dn)]
      hs = [h for h in hs if any(d in g.loop_body_nodes(L.head) for d in dn)]
      if not hs or not c.args: continue
      cname = norm(c.args[0]).split('.')[-1]
      cc, cv = f.cls.find_assign(cname)
      val = repo.try_const(mod, cv, f.cls) if cv is not None else None
      if val is None: continue
      summ = framing.return_summary(repo, ehf, q.Env({ehf.params[1]: val}))
      if len(summ) != 1 or list(summ)[0] not in ('None', 'True', 'False'): continue
      const = {'None': None, 'True': True, 'False': False}[list(summ)[0]]
      if const is False: continue            # the handler always closes: leaving the loop is right
      def hook (call, env=None, const=const):
        return (True, const) if call_name(call) == '_error_handler' else (False, None)
      start = hs[-1]
      # one iteration from the loop head, through the exception edge into the handler (locals set before the try keep their values)
      paths = q.paths_under(repo, mod, g, q.Env({}, [], hook), L.head, [L.head, L.after, g.exit], f.cls, limit=800, exc=True)
      if not any(n in p_ for p_, e_ in paths):
        paths = q.paths_under(repo, mod, g, q.Env({}, [], hook), start, [L.head, L.after, g.exit], f.cls, limit=100)
      leaving = [p_ for p_, e_ in paths if p_[-1] is not L.head and n in p_]
      ctx.ob('R-EFFECT', f, "after a handler exception (reason %s) the loop goes on with the next message" % cname, not leaving,
             "every path from the exception handler returns to the loop head (handler result is always %s)" % const if not leaving else
             "_error_handler(%s) always returns %s, and with that result the path through line(s) %s leaves the read loop: complete messages that follow a failing one in the same read stay undelivered until more bytes arrive" % (
               cname, const, sorted(set(x.line for x in leaving[0] if x.line))[-4:]), (mod, c), 'D5')
  # ---- D6 residual ---------------------------------------------------------------------------
  if L.cur:
    keep = [(v, st) for v, st in L.buf_defs if isinstance(v, ast.Subscript) and isinstance(v.slice, ast.Slice) and v.slice.lower is not None and norm(v.slice.lower) == L.cur and v.slice.upper is None and norm(v.value) == L.buf]
    ctx.ob('R-ORDER', f, "consumed bytes are dropped as a prefix, the residual is kept", len(keep) == 1, norm(keep[0][1]) if keep else "no `%s = %s[%s:]`" % (L.buf, L.buf, L.cur), f, 'D6')
    if keep:
      kn = q.enclosing_stmt_node(g, keep[0][1])
      # on the normal exit after the loop: reached whenever cursor != 0
      r = q.reach_under(repo, mod, g, q.Env({'%s != 0' % L.cur: True, '%s == 0' % L.cur: False, L.cur: 5}), f.cls, start=L.after)
      rets = [x for x in r if x.kind == 'return']
      good = kn in r and all(g.dominates(kn, x) or x not in g.reachable(L.after) for x in rets if x in g.reachable(L.after) and q.reach_under(repo, mod, g, q.Env({'%s != 0' % L.cur: True, L.cur: 5}), f.cls, start=L.after))
      # simpler: with cursor != 0, no return is reachable from the loop exit without passing the trim
      r2 = q.reach_under(repo, mod, g, q.Env({'%s != 0' % L.cur: True, '%s == 0' % L.cur: False, L.cur: 5}), f.cls, start=L.after)
      bypass = g.exit in set(x for x in _reach_avoid(g, L.after, [kn], r2))
      ctx.ob('R-ORDER', f, "when bytes were consumed the buffer is trimmed before returning", not bypass, "trim on every normal exit with cursor != 0" if not bypass else
             "the function can return normally with consumed bytes still at the head of the buffer: the next read re-delivers them", (mod, keep[0][1]), 'D6')
    others = [(v, st) for v, st in L.buf_defs if (v, st) not in keep and not (isinstance(st, ast.AugAssign))]
    for v, st in others:
      ctx.bad('R-OWN', f, "buffer store `%s`" % norm(st)[:50], "the reassembly buffer is overwritten by something other than append / prefix-drop: buffered bytes of an incomplete message are lost", (mod, st), 'D6')
  else:
    # re-peeked: BUF must be (re)defined from peek() inside the loop, before WLEN
    ok_ = any(isinstance(v, ast.Call) and call_name(v) == 'peek' and not v.args for v, st in L.buf_defs)
    pn = [q.enclosing_stmt_node(g, st) for v, st in L.buf_defs]
    ctx.ob('R-ORDER', f, "the working view is re-read from the receive buffer every iteration", ok_ and all(p in L.body for p in pn) and all(g.dominates(p, L.wlen_node) for p in pn),
           "message = io_worker.peek() at the top of the loop" if ok_ else "BUF is not refreshed after consuming", f, 'D6')
  # ---- D7 every receive leads to a framing attempt ---------------------------------------------------
  if L.cur:
    app = [q.enclosing_stmt_node(g, st) for t, v, st, k in q.stores_in(f.node, nested=False) if norm(t) == L.buf and k == 'augassign']
    for a in app:
      bypass = g.exit in _reach_avoid(g, a, [L.head], None)
      ctx.ob('R-ORDER', f, "after appending received bytes the framing loop is always entered", not bypass, "loop head on every path from the append to the exit" if not bypass else
             "a path from `%s` to a normal return bypasses the framing loop: complete messages can sit in the buffer undelivered until more bytes arrive" % a.text(40), (mod, a.ast), 'D7')
  else:
    rets = [n for n in g.nodes if n.kind == 'return' and n not in g.reachable(L.head)]
    ctx.ob('R-ORDER', f, "every invocation enters the framing loop", not rets, "no return before the loop" if not rets else "early return before the loop (line %s)" % rets[0].line, f, 'D7')

def _decoder_table (ctx, repo):
  """both framing loops index one table with the header's type byte: it must hold, at index t, the decoder of message type t
  for every registered type (evaluated on a three-entry sample registry)"""
  um = repo.mod('openflow.util'); f = um.funcs.get('make_type_to_unpacker_table')
  if f is None: raise AnalysisError("openflow.util.make_type_to_unpacker_table vanished")
  ctx.analysed(f)
  g = q.cfg_of(f)
  reg = {0: q.Rec(unpack_new='dec0'), 1: q.Rec(unpack_new='dec1'), 2: q.Rec(unpack_new='dec2')}
  is_reg = lambda e: isinstance(e, ast.Attribute) and e.attr == '_message_type_to_class'
  outs = set()
  for p_, e_ in q.paths_under(repo, um, g, q.Env({}, [(is_reg, reg)]), g.entry, [n for n in g.nodes if n.kind == 'return'], None, limit=40):
    try: v = q.eval_env2(repo, um, p_[-1].ast.value, e_, None)
    except Exception: v = '?'
    try: outs.add(tuple(v) if isinstance(v, (list, tuple)) else '?')
    except Exception: outs.add('?')
  if not outs or '?' in outs:
    ctx.undecided('R-REG', f, "decoder table holds the decoder of type t at index t for every registered type", "table construction not evaluable on the sample registry", f, 'D3')
  else:
    good = outs == {('dec0', 'dec1', 'dec2')}
    ctx.ob('R-REG', f, "decoder table holds the decoder of type t at index t for every registered type", good, "registry {0,1,2} -> [dec0, dec1, dec2]" if good else
           "for a registry with types 0, 1, 2 the table is %s: a message of the missing/shifted type is framed but cannot be decoded (IndexError / wrong class) and everything behind it in the buffer is lost" % sorted(outs), f, 'D3')

  # every caller gets a table of its own: the connections patch their tables (nicira replaces the vendor decoder in the controller's,
  # a late registration shows up in tables built afterwards) - a table kept in a module global is one list shared by both sides
  gl_ = set()
  for n_ in ast.walk(f.node):
    if isinstance(n_, (ast.Global, ast.Nonlocal)): gl_.update(n_.names)
  shared = []
  for r_ in q.returns_of(f.node):
    v_ = r_.value
    if isinstance(v_, ast.Name) and (v_.id in gl_ or (v_.id in um.assigns and not [1 for t_, vv_, st_, k_ in q.stores_in(f.node) if isinstance(t_, ast.Name) and t_.id == v_.id])): shared.append(r_)
    elif isinstance(v_, ast.Attribute): shared.append(r_)
  ctx.ob('R-OWN', f, "every call builds a new decoder table", not shared, "the returned list is created in the call" if not shared else
         "`%s` hands out an object kept outside the call (a module global): the controller's table and every switch-side connection's table are the same list - when nicira installs its vendor decoder in the controller's "
         "table the software switch starts decoding vendor messages with it as well, and a type registered later is missing from every table handed out afterwards" % norm(shared[0]), (um, shared[0]) if shared else f, 'D3')

def _caller_contract (ctx, repo, f, L):
  """D8: a read that merely found no complete message yet must not look like a failure to whoever called it: the value
  returned on the normal exit, put into each caller's test of the call, must not lead to that connection being closed"""
  g = L.g; mod = f.module
  wh = L.head.stmt if getattr(L.head, 'stmt', None) is not None else None
  if not isinstance(wh, ast.While): return
  test_nodes = set(id(x) for x in ast.walk(wh.test))
  # scenario: nothing complete in the buffer -> the loop test fails at once
  loop_off = [((lambda e, t=test_nodes: id(e) in t and not isinstance(e, ast.Constant)), False)]
  rets = [n for n in g.reachable(L.after, exc=False) | {L.after} if n.kind == 'return']
  vals = set()
  for p_, e_ in q.paths_under(repo, mod, g, q.Env({}, loop_off), g.entry, rets, f.cls, limit=80):
    rn = p_[-1]
    if rn.ast.value is None: vals.add(None); continue
    try: v = q.eval_env2(repo, mod, rn.ast.value, e_, f.cls)
    except Exception: v = '?'
    try: hash(v)
    except TypeError: v = '?'
    vals.add('?' if v is q.OPAQUE else v)
  fns = list(mod.funcs.values()) + [m_ for c in mod.classes.values() for m_ in c.methods.values()]
  n_sites = 0
  for h in fns:
    if h is f: continue
    def is_call (e):
      return isinstance(e, ast.Call) and call_name(e) == f.name and not e.args and not e.keywords and isinstance(e.func, ast.Attribute) \
             and not any(w in norm(e.func.value).lower() for w in ('sock', 'file', 'pipe', 'stream'))
    if not any(is_call(c) for c in calls_in(h.node)): continue
    gh = q.cfg_of(h)
    for cn in [n for n in gh.nodes if n.kind == 'cond' and any(is_call(x) for x in ast.walk(n.ast))]:
      call = [x for x in ast.walk(cn.ast) if is_call(x)][0]
      recv = norm(call.func.value)
      n_sites += 1
      if '?' in vals or not vals:
        ctx.undecided('R-AGREE', f, "an incomplete message is not reported to the caller as a failure", "value returned on the normal exit not evaluable (%s)" % sorted(map(repr, vals)), (mod, cn.ast), 'D8'); continue
      bad_ = []
      for v in vals:
        try: b = bool(q.eval_env2(repo, mod, cn.ast, q.Env({}, [(is_call, v)]), h.cls))
        except Exception: b = None
        if b is None: bad_ = None; break
        nxt = [m for m, l in cn.succ if l is b]
        heads = [x for x in gh.nodes if x.kind in ('loop', 'for', 'while') or any(l == 'back' for _, l in x.pred)]
        r = gh.reachable(nxt, avoid=heads, exc=False) | set(nxt)
        closes = [x for x in r for c in q.node_calls(x) if call_name(c) in ('close', 'disconnect', 'remove') and (norm(c.func.value) == recv or any(norm(a) == recv for a in c.args))] if nxt else []
        if closes: bad_.append((v, closes[0]))
      if bad_ is None:
        ctx.undecided('R-AGREE', f, "an incomplete message is not reported to the caller as a failure", "caller's test `%s` not evaluable" % norm(cn.ast), (mod, cn.ast), 'D8')
      else:
        ctx.ob('R-AGREE', f, "an incomplete message is not reported to the caller as a failure", not bad_,
               "normal exit returns %s; `%s` in %s keeps the connection" % (sorted(map(repr, vals)), norm(cn.ast), h.qual) if not bad_ else
               "when a read ends inside a message %s returns %r, and %s tests `%s`, which then reaches `%s`: the connection is dropped because a message arrived in two pieces"
               % (f.name, bad_[0][0], h.qual, norm(cn.ast), bad_[0][1].text(40)), (mod, cn.ast), 'D8')
  return n_sites

def _reach_avoid (g, start, avoid, restrict):
  seen = set([start]); st = [start]; avoid = set(avoid)
  while st:
    n = st.pop()
    for m, l in n.succ:
      if l == 'exc' or m in seen or m in avoid: continue
      if restrict is not None and m not in restrict: continue
      seen.add(m); st.append(m)
  return seen

def _rx_attr (iow):
  """(expression text of the attribute that holds the switch-side receive buffer, constructor of a sample value): `self.receive_buf`
  itself - or, when receive_buf is a property over a private attribute (`return bytes(self._rx_buf)`), that attribute"""
  pf = iow.methods.get('receive_buf')
  if pf is not None and any('property' in norm(d) or norm(d).endswith('.setter') or norm(d).endswith('.getter') for d in pf.node.decorator_list):
    props = [x for x in iow.node.body if isinstance(x, ast.FunctionDef) and x.name == 'receive_buf']
    for x in props:
      for r_ in q.returns_of(x):
        if r_.value is None: continue
        for a_ in ast.walk(r_.value):
          if isinstance(a_, ast.Attribute) and norm(a_.value) == 'self':
            mut = any(isinstance(c_, ast.Call) and call_name(c_) == 'bytearray' for y in iow.node.body for c_ in ast.walk(y))
            return norm(a_), (bytearray if mut else bytes), props
  return 'self.receive_buf', bytes, []

def _emptied_when_all_consumed (f, st, buf, count=None):
  """`buf = b''` is a prefix drop when a dominating guard says the consumed count equals len(buf)"""
  v = st.value
  if not (isinstance(v, ast.Constant) and v.value == b''): return False
  g = q.cfg_of(f); n = q.enclosing_stmt_node(g, st)
  if n is None: return False
  for l, o, r, b in q.guard_facts(g, n):
    if r is None or o != '==': continue
    L, R = norm(l), norm(r)
    for a_, b_ in ((L, R), (R, L)):
      if b_ == 'len(%s)' % buf and (count is None or a_ == count): return True
      # a property that returns len(buf) (IOWorker.available)
      if b_.startswith('self.') and f.cls is not None and (count is None or a_ == count):
        pf = f.cls.find_method(b_[5:])
        if pf is not None and 'property' in pf.decorators:
          rv = [r_.value for r_ in q.returns_of(pf.node) if r_.value is not None]
          if len(rv) == 1 and norm(rv[0]) == 'len(%s)' % buf: return True
  return False

def _buffers (ctx, repo):
  """D1: who writes the reassembly buffers and how"""
  # controller: Connection.buf
  con = repo.cls('openflow.of_01', 'Connection'); mod = con.module
  n = 0
  for f in con.methods.values():
    for t, v, st, k in q.stores_in(f.node):
      if norm(t) != 'self.buf': continue
      n += 1
      if k == 'assign' and isinstance(v, ast.BinOp) and isinstance(v.op, ast.Add) and norm(v.left) == 'self.buf':
        ctx.ob('R-OWN', f, "received bytes are appended (`%s`)" % norm(st), True, "buf + data", (mod, st), 'D1')
        if f.name == 'read':
          d = q.single_def(f.node, norm(v.right))
          good = d is not None and 'recv' in norm(d)
          ctx.ob('R-AGREE', f, "what is appended is exactly what was received", good, "%s = %s" % (norm(v.right), norm(d)) if d is not None else "?", (mod, st), 'D1')
      elif k == 'augassign':
        good = isinstance(st.op, ast.Add)
        ctx.ob('R-OWN', f, "received bytes are appended (`%s`)" % norm(st), good, "+=" if good else "buffer combined with %s" % type(st.op).__name__, (mod, st), 'D1')
        if good and f.name == 'read':
          d = q.single_def(f.node, norm(st.value))
          good = d is not None and 'recv' in norm(d)
          ctx.ob('R-AGREE', f, "what is appended is exactly what was received", good, "%s = %s" % (norm(st.value), norm(d)) if d is not None else "?", (mod, st), 'D1')
      elif f.name == '__init__':
        ctx.ob('R-OWN', f, "buffer starts empty", isinstance(v, ast.Constant) and v.value == b'', norm(st), (mod, st), 'D1')
      else:
        good = (isinstance(v, ast.Subscript) and norm(v.value) == 'self.buf' and isinstance(v.slice, ast.Slice) and v.slice.upper is None and v.slice.lower is not None) or _emptied_when_all_consumed(f, st, 'self.buf')
        ctx.ob('R-OWN', f, "`%s` drops a prefix only" % norm(st), good, "suffix slice" if good else "%s rewrites the reassembly buffer (not append / prefix-drop): bytes are lost, duplicated or reordered" % f.qual, (mod, st), 'D1')
  ctx.floor('controller buffer writers', n, 3)
  iow = repo.cls('lib.ioworker', 'IOWorker'); iom = iow.module
  RB, RBK, rb_props = _rx_attr(iow)
  n = 0
  for cls in iom.classes.values():
    for f in cls.methods.values():
      for t, v, st, k in q.stores_in(f.node):
        if k == 'del' and isinstance(t, ast.Subscript) and norm(t.value) == RB:
          # in-place removal from a mutable buffer: a prefix only
          n += 1
          good = isinstance(t.slice, ast.Slice) and t.slice.lower is None and t.slice.upper is not None and t.slice.step is None
          if good: good = _suffix_by_evaluation(repo, iom, cls, f, RB, RBK)
          ctx.ob('R-OWN', f, "`%s` drops a prefix only" % norm(st), good, "del of a prefix slice" if good else "%s rewrites the receive buffer" % f.qual, (iom, st), 'D1'); continue
        if norm(t) != RB: continue
        n += 1
        if f.node in rb_props:
          # the property's setter: converts what it is given into the buffer's representation
          good = len(f.node.args.args) == 2 and norm(v) in ('bytearray(%s)' % f.node.args.args[1].arg, 'bytes(%s)' % f.node.args.args[1].arg, f.node.args.args[1].arg)
          ctx.ob('R-OWN', f, "the receive_buf setter stores exactly what it is given", good, norm(st), (iom, st), 'D1'); continue
        if k == 'assign' and isinstance(v, ast.BinOp) and isinstance(v.op, ast.Add) and norm(v.left) == RB:
          # the append written out: buf = buf + data
          good = f.name == '_push_receive_data' and norm(v.right) == f.params[1]
          ctx.ob('R-OWN', f, "received bytes are appended (`%s`)" % norm(st), good, "buf + new data" if good else "unexpected append in %s" % f.qual, (iom, st), 'D1')
        elif k == 'augassign':
          good = isinstance(st.op, ast.Add) and f.name == '_push_receive_data' and norm(st.value) == f.params[1]
          ctx.ob('R-OWN', f, "received bytes are appended (`%s`)" % norm(st), good, "+= new data" if good else "unexpected append in %s" % f.qual, (iom, st), 'D1')
        elif f.name == '__init__':
          ctx.ob('R-OWN', f, "buffer starts empty", (isinstance(v, ast.Constant) and v.value == b'') or norm(v) in ('bytearray()', 'bytes()', "bytearray(b'')"), norm(st), (iom, st), 'D1')
        else:
          good = (isinstance(v, ast.Subscript) and norm(v.value) == RB and isinstance(v.slice, ast.Slice) and v.slice.upper is None and v.slice.lower is not None) or _emptied_when_all_consumed(f, st, RB)
          if not good: good = _suffix_by_evaluation(repo, iom, cls, f, RB, RBK)
          ctx.ob('R-OWN', f, "`%s` drops a prefix only" % norm(st), good, "suffix slice" if good else "%s rewrites the receive buffer" % f.qual, (iom, st), 'D1')
  ctx.floor('switch-side buffer writers', n, 4)
  # the sockets are non-blocking and a receive is made once per readiness notification; a second recv() in the same invocation
  # finds nothing whenever the pending data ended exactly at the previous read, and the resulting EAGAIN must then be harmless
  for owner, fname in ((iow, '_do_recv'), (con, 'read')):
    rf = owner.find_method(fname)
    if rf is None: continue
    gr = q.cfg_of(rf)
    rcv = gr.nodes_with_call(lambda c: call_name(c) in ('recv', 'recv_into', 'recvfrom') and ('sock' in norm(c.func.value)))
    for n_ in rcv:
      in_loop = any(n_ in gr.loop_body_nodes(h_) for st_, h_, a_ in gr.loop_nodes)
      if not in_loop:
        ctx.ob('R-EFFECT', rf, "one receive per readiness notification (`%s`)" % n_.text(40), True, "recv outside any loop", (owner.module, n_.ast), 'D7'); continue
      hs = gr.handlers_for(n_)
      tolerant = False
      for h in hs:
        txt = " ".join(norm(x) for x in ast.walk(h.ast) if isinstance(x, ast.Compare))
        if 'EAGAIN' in txt or 'EWOULDBLOCK' in txt: tolerant = True
      for t_ in gr.try_of.get(n_, ()):
        for h in t_.handlers:
          if h.type is not None and ('BlockingIOError' in norm(h.type)): tolerant = True
      ctx.ob('R-EFFECT', rf, "a repeated receive tolerates 'nothing more to read' (`%s`)" % n_.text(40), tolerant, "EAGAIN handled" if tolerant else
             "recv() is called repeatedly in one invocation and no handler distinguishes EAGAIN/EWOULDBLOCK: when the pending bytes are an exact multiple of the read size the extra recv raises, the error path closes the connection and every later message is lost",
             (owner.module, n_.ast), 'D7')
  crb = q.find_method(repo, iow, 'consume_receive_buf', 'C02'); ctx.analysed(crb)
  st = [s_ for t, v, s_, k in q.stores_in(crb.node) if norm(t) == RB]
  good = bool(st) and all(norm(x.value) == '%s[%s:]' % (RB, crb.params[1]) or _emptied_when_all_consumed(crb, x, RB, crb.params[1]) for x in st) \
         and any(norm(x.value) == '%s[%s:]' % (RB, crb.params[1]) for x in st)
  if not good:
    # by evaluation: consuming 2 of b'abcdef' leaves b'cdef'
    gc_ = q.cfg_of(crb); outs_ = set()
    for p_, e_ in q.paths_under(repo, iow.module, gc_, q.Env({RB: RBK(b'abcdef'), crb.params[1]: 2}), gc_.entry, [gc_.exit], iow, limit=20):
      o_ = e_.exact.get(RB, '?'); outs_.add(bytes(o_) if isinstance(o_, (bytes, bytearray)) else '?')
    if outs_ == {b'cdef'}: good = True
  ctx.ob('R-AGREE', crb, "consume drops exactly the requested number of bytes from the head", good, norm(st[0]) if st else "?", crb, 'D1')
  pk = q.find_method(repo, iow, 'peek', 'C02'); ctx.analysed(pk)
  rv = [norm(r.value) for r in q.returns_of(pk.node)]
  # by evaluation on a sample buffer: peek() -> everything, peek(2) -> the first two bytes, the buffer itself untouched
  gp_ = q.cfg_of(pk); vals_ = {}
  for ln_ in (None, 2):
    outs_ = set()
    for p_, e_ in q.paths_under(repo, iow.module, gp_, q.Env({RB: RBK(b'abcdef'), (pk.params[1] if len(pk.params) > 1 else 'length'): ln_}), gp_.entry, [n_ for n_ in gp_.nodes if n_.kind == 'return'], iow, limit=20):
      try:
        v1_ = q.eval_env2(repo, iow.module, p_[-1].ast.value, e_, iow); v2_ = e_.exact.get(RB)
        outs_.add((bytes(v1_) if isinstance(v1_, bytearray) else v1_, bytes(v2_) if isinstance(v2_, bytearray) else v2_))
      except Exception: outs_.add('?')
    vals_[ln_] = outs_
  if any('?' in v_ or not v_ for v_ in vals_.values()):
    ctx.ob('R-AGREE', pk, "peek shows the buffer from its head without consuming", set(rv) <= {RB, '%s[:length]' % RB} and not [1 for t, v, s_, k in q.stores_in(pk.node)], "returns %s" % rv, pk, 'D1')
  else:
    good_ = vals_[None] == {(b'abcdef', b'abcdef')} and vals_[2] == {(b'ab', b'abcdef')}
    ctx.ob('R-AGREE', pk, "peek shows the buffer from its head without consuming", good_, "peek() / peek(2) on a sample buffer" if good_ else "on the buffer b'abcdef' peek() gives %s and peek(2) gives %s (value, buffer afterwards)" % (sorted(vals_[None]), sorted(vals_[2])), pk, 'D1')
  prd = q.find_method(repo, iow, '_push_receive_data', 'C02'); ctx.analysed(prd)
  g = q.cfg_of(prd)
  app = [q.enclosing_stmt_node(g, s_) for t, v, s_, k in q.stores_in(prd.node) if norm(t) == RB]
  hrx = g.nodes_with_call(lambda c: call_name(c) in ('_handle_rx',) or (call_name(c) == '_call_safe' and '_handle_rx' in norm(c)))
  good = bool(app) and bool(hrx) and g.dominates(app[0], hrx[0]) and g.postdominates(hrx, app[0])
  ctx.ob('R-ORDER', prd, "every arrival is appended and then handed to the receive handler", good, "append dominates _handle_rx, which follows on every path" if good else "arrival can skip the receive handler or be handled before it is appended", prd, 'D7')


def _suffix_by_evaluation (repo, mod, cls, f, attr, kind=bytes):
  """the function evaluated on a sample buffer (b'abcdef') with every numeric-looking parameter = 2 and = None: on every path that
  completes, what it leaves in `attr` is a suffix of the sample (a prefix was dropped, nothing else changed)"""
  g = q.cfg_of(f)
  sample = b'abcdef'
  decided = False
  avail = (lambda e: isinstance(e, ast.Attribute) and e.attr == 'available' and norm(e.value) == 'self')
  for val in (2, None, 6):
    ex = {attr: kind(sample)}
    for p_ in f.params[1:]: ex[p_] = val
    paths = q.paths_under(repo, mod, g, q.Env(ex, [(avail, len(sample))]), g.entry, [g.exit], cls, limit=40)
    for p_, e_ in paths:
      out = e_.exact.get(attr, '?')
      if isinstance(out, bytearray): out = bytes(out)
      if not isinstance(out, bytes): return False
      if not sample.endswith(out): return False
      decided = True
  return decided
