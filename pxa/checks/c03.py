"""C03 - flow match and lookup semantics (structural part).

 D1 exhaustiveness: the fields tested by matches_with_wildcards and __eq__ are exactly the keys of ofp_match_data; every
    comparison pairs the same field on both sides
 D2 constants: each match field carries the spec's wildcard bit; prefix masks / shifts / ALL constants are consistent
 D3 extraction: every `match.X = ...` in from_packet, under its protocol guard, equals OF 1.0 section 3.4 (VLAN, untagged,
    IPv4, fragments incl. first fragments, TCP/UDP ports, ICMP type/code, ARP); the table lookup extracts with spec_frags
 D4 sorted-table discipline: only add_entry inserts, nobody sorts/appends/reverses or rewrites priority/match of an entry;
    add_entry is an accepted ordered-insert idiom yielding descending effective_priority; entry_for_packet scans forward
    and returns the first hit, None only after exhaustion; an exact match outranks every 16-bit priority; "exact" means no
    wildcard bit at all (including partial prefix bits)
 D5 R-BYTES in extraction
"""
import ast
from .. import q, ofreg, defs, btypes
from ..model import AnalysisError, calls_in, call_name, norm, kwarg, walk_no_nested

EXPLAIN = ("R-ALL field exhaustiveness of matches_with_wildcards / __eq__ vs ofp_match_data; R-AGREE wildcard constants vs spec; "
           "extraction assignments of from_packet decided under protocol environments (path-sensitive reachability incl. first "
           "fragments); R-OWN/R-AGREE sorted-table discipline (writers of _table, ordered-insert idiom, forward first-match scan, "
           "exact-match rank, is_wildcarded evaluated on every wildcard bit); R-BYTES. Decides these necessary conditions, not the "
           "truth of matching for particular values.")
LOF = 'openflow.libopenflow_01'; FT = 'openflow.flow_table'

def _fresh_lookup (ctx, repo):
  """the entry a frame is processed with is the result of a table lookup made for this frame.  An entry remembered from an
  earlier lookup is only the highest-priority match as long as nothing was added to the table since."""
  swm = repo.mod('datapaths.switch'); sw = swm.classes.get('SoftwareSwitchBase') if swm is not None else None
  rx = sw.methods.get('rx_packet') if sw is not None else None
  if rx is None: return
  ctx.analysed(rx); g = q.cfg_of(rx)
  uses = g.nodes_with_call(lambda c: call_name(c) == 'touch_packet' and isinstance(c.func.value, ast.Name))
  ctx.floor('matched-entry use in rx_packet', len(uses), 1)
  for n in uses:
    c = [c for c in q.node_calls(n) if call_name(c) == 'touch_packet'][0]
    nm = c.func.value.id
    pv = q.provenance(g, n, nm)
    other = []
    for d_, kind, val in pv:
      if val is None and kind == 'param': other.append((d_, 'a parameter')); continue
      if isinstance(val, ast.Constant) and val.value is None: continue
      if isinstance(val, ast.Call) and call_name(val) == 'entry_for_packet': continue
      other.append((d_, norm(val) if val is not None and not isinstance(val, tuple) else kind))
    if not other:
      ctx.ob('R-OWN', rx, "the matched entry is the result of a table lookup made for this frame", True, "`%s` comes from entry_for_packet() only" % nm, (swm, c), 'D4'); continue
    # a remembered entry: fine only if every change of the table forgets it
    attrs = set(x.attr for d_, txt in other for x in (ast.walk(ast.parse(txt, mode='eval')) if txt not in ('a parameter',) and not txt.isidentifier() else []) if isinstance(x, ast.Attribute) and norm(x.value) == 'self')
    attrs -= {'table'}
    hm = sw.methods.get('_handle_FlowTableModification')
    verdict = None; why = "`%s` can also come from %s" % (nm, sorted(set(t for d_, t in other)))
    if attrs and hm is not None:
      gh = q.cfg_of(hm)
      for a in attrs:
        clears = [x for x in gh.nodes if any(call_name(c_) == 'clear' and norm(c_.func.value) == 'self.' + a for c_ in q.node_calls(x))] + \
                 [q.enclosing_stmt_node(gh, st) for t, v, st, k in q.stores_in(hm.node) if isinstance(t, ast.Attribute) and t.attr == a and norm(t.value) == 'self']
        clears = [x for x in clears if x is not None]
        always = bool(clears) and q.must_pass_under(repo, swm, gh, q.Env(), clears, sw)[0]
        if not always:
          verdict = False
          why = ("`%s` can be an entry remembered in self.%s from an earlier lookup (%s), and %s: once a higher-priority (or exact-match) entry that covers the same frames is added, frames of the "
                 "remembered flow keep hitting the old entry - lookup no longer returns the highest-priority matching entry") % (
                 nm, a, sorted(set(t for d_, t in other))[0], "the table-modification handler forgets it only on some paths (not when entries are added)" if clears else "nothing forgets it when the table changes")
    ctx.ob('R-OWN', rx, "the matched entry is the result of a table lookup made for this frame", verdict, why, (swm, c), 'D4')

def effective_priority_rule (ctx, repo, clause):
  """shared with C04 (the overlap check and the replace-on-identical test compare effective priorities too)"""
  ft = repo.cls(FT, 'FlowTable'); te = repo.cls(FT, 'TableEntry'); ftm = ft.module
  # effective priority
  ep = te.methods.get('effective_priority')
  if ep is None: raise AnalysisError("TableEntry.effective_priority vanished")
  eg = q.cfg_of(ep)
  def rets_under (flag):
    is_w = lambda e: isinstance(e, ast.Attribute) and e.attr == 'is_wildcarded'
    is_x = lambda e: isinstance(e, ast.Attribute) and e.attr == 'is_exact'          # the complementary property of ofp_match
    r = q.reach_under(repo, ftm, eg, q.Env({}, [(is_w, flag), (is_x, not flag)]), te)
    return [n.ast.value for n in eg.nodes if n.kind == 'return' and n in r and n.ast.value is not None]
  rw = rets_under(True); rx = rets_under(False)
  exact = [repo.try_const(ftm, v, te) for v in rx]
  good = len(rw) == 1 and norm(rw[0]) == 'self.priority' and len(rx) == 1 and isinstance(exact[0], int) and exact[0] > 0xffff
  ctx.ob('R-AGREE', ep, "an exact match outranks every 16-bit priority; wildcarded entries use their own priority", good,
         "wildcarded -> %s, exact -> %s" % ([norm(v) for v in rw], exact) if good else
         "effective priority is %s for a wildcarded entry and %s for an exact one: it must be the entry's own priority resp. a constant above 0xffff" % ([norm(v) for v in rw], [norm(v) for v in rx]), ep, clause)

  # ... and `is_exact` / `is_wildcarded` of ofp_match, which that function relies on, are complementary and look at *every* wildcard
  # bit - evaluated on sample matches: nothing wildcarded; one single-bit field wildcarded; every field given but nw_src only as a /24
  lof_ = repo.mod(LOF); m_ = repo.cls(LOF, 'ofp_match')
  md_ = lof_.assigns.get('ofp_match_data')
  fields_ = [k.value for k in md_.keys] if isinstance(md_, ast.Dict) else []
  sh_ = ofreg.const_value(repo, lof_, 'OFPFW_NW_SRC_SHIFT'); inport_ = ofreg.const_value(repo, lof_, 'OFPFW_IN_PORT')
  class GA(object):
    wants_env = True
    def __call__ (self, call, env):
      if call_name(call) == 'getattr' and len(call.args) >= 2 and norm(call.args[0]) == 'self':
        try: nm_ = q.eval_env2(repo, lof_, call.args[1], env, m_)
        except Exception: return (False, None)
        if isinstance(nm_, str) and ('self.' + nm_) in env.exact: return (True, env.exact['self.' + nm_])
      return (False, None)
  def prop (name, wild):
    f_ = m_.methods.get(name)
    if f_ is None: return '?'
    g_ = q.cfg_of(f_); ex = {'self.wildcards': wild, 'self._wildcards': wild}
    for fl in fields_: ex['self.' + fl] = 1; ex['self._' + fl] = 1
    other = 'is_exact' if name == 'is_wildcarded' else 'is_wildcarded'
    outs = set()
    for ov in ((None,) if name == 'is_wildcarded' else (None,)):
      ms = []
      if name == 'is_exact':
        w_ = prop('is_wildcarded', wild)
        if w_ in (True, False): ms = [((lambda e: isinstance(e, ast.Attribute) and e.attr == 'is_wildcarded' and norm(e.value) == 'self'), w_)]
      for p_, e_ in q.paths_under(repo, lof_, g_, q.Env(dict(ex), ms, GA()), g_.entry, [n for n in g_.nodes if n.kind == 'return'], m_, limit=20):
        try: outs.add(bool(q.eval_env2(repo, lof_, p_[-1].ast.value, e_, m_)))
        except Exception: outs.add('?')
    return list(outs)[0] if len(outs) == 1 else '?'
  if isinstance(sh_, int) and isinstance(inport_, int) and fields_:
    samples = [("nothing wildcarded", 0, False), ("in_port wildcarded", inport_, True), ("every field given, nw_src as a /24 prefix", 8 << sh_, True)]
    got = [(d_, prop('is_wildcarded', w_), prop('is_exact', w_), want_) for d_, w_, want_ in samples]
    if any(a_ == '?' or b_ == '?' for d_, a_, b_, w_ in got):
      ctx.undecided('R-AGREE', m_.qual + '.is_exact', "is_exact / is_wildcarded are complementary and see partial IP prefixes", "not evaluable on the sample matches: %s" % [(d_, a_, b_) for d_, a_, b_, w_ in got], m_, clause)
    else:
      bad_ = [(d_, a_, b_) for d_, a_, b_, w_ in got if a_ != w_ or b_ == w_]
      ctx.ob('R-AGREE', m_.qual + '.is_exact', "is_exact / is_wildcarded are complementary and see partial IP prefixes", not bad_, "3 sample matches" if not bad_ else
             "for %s: is_wildcarded=%s, is_exact=%s - an entry that still wildcards part of an address counts as exact, gets the 'infinite' effective priority and outranks higher-priority wildcarded entries"
             % bad_[0], m_.methods.get('is_exact') or m_, clause)

  # a copy of a match carries the wildcard word: the prefix lengths of nw_src / nw_dst live nowhere else (the field accessors hand
  # back the address only), so a copy assembled from the public fields alone turns every /1../31 prefix into a /32
  cl_ = m_.methods.get('clone')
  if cl_ is not None:
    ctx.analysed(cl_)
    reads_w = any(isinstance(x_, ast.Attribute) and x_.attr in ('wildcards', '_wildcards') and norm(x_.value) == 'self' and isinstance(x_.ctx, ast.Load) for x_ in ast.walk(cl_.node)) \
              or any(isinstance(x_, ast.Call) and call_name(x_) in ('get_nw_src', 'get_nw_dst', 'pack', 'deepcopy', 'copy') for x_ in ast.walk(cl_.node))
    ctx.ob('R-AGREE', cl_, "a cloned match keeps the wildcard word (IP prefix lengths)", reads_w, "self.wildcards is copied" if reads_w else
           "clone() builds the copy without reading self.wildcards (nor get_nw_src/get_nw_dst): the prefix lengths are lost - an entry stored from a cloned match with nw_src 10.0.0.0/8 only matches 10.0.0.0 itself", cl_, clause)

def run (ctx):
  ctx.explanation = EXPLAIN
  ctx.assumptions = ["ofp_match exposes fields through __getattr__ (None when wildcarded)"]
  repo = ctx.repo; spec = ofreg.spec(); ext = ofreg.spec('match_extraction')
  lof = repo.mod(LOF); m = repo.cls(LOF, 'ofp_match')
  md = lof.assigns.get('ofp_match_data')
  if not isinstance(md, ast.Dict): raise AnalysisError("ofp_match_data is no longer a dict literal")
  fields = [k.value for k in md.keys]
  ctx.floor('match fields', len(fields), 12)
  # ---- D2 -----------------------------------------------------------------------------------------
  for k, v in zip(md.keys, md.values):
    f = k.value
    want = spec['match_field_wildcard'].get(f)
    bit = norm(v.elts[1]) if isinstance(v, ast.Tuple) and len(v.elts) == 2 else None
    ctx.ob('R-AGREE', lof.short + ':ofp_match_data', "field `%s` is wildcarded by %s" % (f, want), bit == want, "%s" % bit if bit == want else
           "ofp_match_data['%s'] uses %s, the specification's bit is %s: wildcarding this field actually wildcards another" % (f, bit, want), (lof, k), 'D2')
  for f in spec['match_field_wildcard']:
    ctx.ob('R-ALL', lof.short + ':ofp_match_data', "spec match field `%s` is present" % f, f in fields, "present" if f in fields else "missing", (lof, md), 'D2')
  W = spec['ofp_flow_wildcards']
  for side in ('SRC', 'DST'):
    sh = ofreg.const_value(repo, lof, 'OFPFW_NW_%s_SHIFT' % side); bits = ofreg.const_value(repo, lof, 'OFPFW_NW_%s_BITS' % side)
    mask = ofreg.const_value(repo, lof, 'OFPFW_NW_%s_MASK' % side); allv = ofreg.const_value(repo, lof, 'OFPFW_NW_%s_ALL' % side)
    good = None not in (sh, bits, mask, allv) and mask == ((1 << bits) - 1) << sh and allv == 32 << sh
    ctx.ob('R-AGREE', lof.short + ':OFPFW_NW_%s' % side, "prefix mask / shift / ALL are consistent", good, "mask=0x%x shift=%s bits=%s all=0x%x" % (mask or 0, sh, bits, allv or 0), None, 'D2')
  allc = ofreg.const_value(repo, lof, 'OFPFW_ALL')
  ctx.ob('R-AGREE', lof.short + ':OFPFW_ALL', "OFPFW_ALL covers all 22 wildcard bits", allc == (1 << 22) - 1, "0x%x" % (allc or 0), None, 'D2')
  # transport-field prerequisite: the protocols under which tp_src/tp_dst are kept on the wire must be exactly the
  # ones from_packet can extract ports / type+code for (ICMP, TCP, UDP): a wider set yields flows no frame can match,
  # a narrower one silently wildcards a field the controller specified
  nproto = 0
  for f_ in m.methods.values():
    for n in ast.walk(f_.node):
      if isinstance(n, ast.Compare) and len(n.ops) == 1 and isinstance(n.ops[0], (ast.In, ast.NotIn)) and isinstance(n.left, ast.Attribute) and n.left.attr in ('nw_proto', '_nw_proto'):
        v = repo.try_const(lof, n.comparators[0], m)
        if v is None: ctx.undecided('R-AGREE', f_, "transport prerequisite set `%s`" % norm(n), "cannot evaluate the protocol set", (lof, n), 'D2'); continue
        nproto += 1
        good = set(v) == {1, 6, 17}
        ctx.ob('R-AGREE', f_, "transport fields are kept exactly for ICMP, TCP and UDP (`%s`)" % norm(n)[:50], good, "%s" % (sorted(v),) if good else
               "the prerequisite set is %s but from_packet extracts transport fields only for protocols 1, 6 and 17: a flow on another protocol with tp_src/tp_dst specified is "
               "installed un-wildcarded and can never match a frame (extraction yields no ports for it)" % (sorted(v),), (lof, n), 'D2')
  ctx.floor('transport prerequisite tests', nproto, 1)
  # ---- D1 -------------------------------------------------------------------------------------------
  mw = q.find_method(repo, m, 'matches_with_wildcards', 'C03'); eq = q.find_method(repo, m, '__eq__', 'C03')
  ctx.analysed(mw); ctx.analysed(eq)
  other = mw.params[1]
  tested = set()
  loc_ = {}; cnt_ = {}
  for st_ in walk_no_nested(mw.node):
    if isinstance(st_, ast.Assign) and len(st_.targets) == 1:
      t_ = st_.targets[0]
      prs_ = list(zip(t_.elts, st_.value.elts)) if isinstance(t_, ast.Tuple) and isinstance(st_.value, ast.Tuple) and len(t_.elts) == len(st_.value.elts) else [(t_, st_.value)]
      for tt_, vv_ in prs_:
        if isinstance(tt_, ast.Name): loc_.setdefault(tt_.id, []).append((st_.lineno, vv_))
  def pair (a, b, site):
    # a local that holds a field of one side (`mine, others = self.f, other.f`)
    def latest_ (nm_):
      ds_ = [(l_, v_) for l_, v_ in loc_.get(nm_, []) if l_ <= getattr(site, 'lineno', 0)]
      return max(ds_, key=lambda x_: x_[0])[1] if ds_ else None
    if isinstance(a, ast.Name) and latest_(a.id) is not None: a = latest_(a.id)
    if isinstance(b, ast.Name) and latest_(b.id) is not None: b = latest_(b.id)
    fa = a.attr if isinstance(a, ast.Attribute) else None; fb = b.attr if isinstance(b, ast.Attribute) else None
    if fa is None or fb is None: return
    va, vb = norm(a.value), norm(b.value)
    if {va, vb} != {'self', other} and not (va == 'self' and vb == other): return
    if va != 'self': fa, fb = fb, fa
    good = fa == fb
    if fa in fields or fb in fields:
      tested.add(fa)
      ctx.ob('R-AGREE', mw, "comparison `%s` pairs the same field of both matches" % norm(site), good, "self.%s vs %s.%s" % (fa, other, fb) if good else
             "`%s` compares field `%s` of this match with field `%s` of the other" % (norm(site), fa, fb), (lof, site), 'D1')
  for c in calls_in(mw.node):
    if call_name(c) == 'match_fail' and len(c.args) == 2: pair(c.args[0], c.args[1], c)
  for n in walk_no_nested(mw.node):
    if isinstance(n, ast.Compare) and len(n.ops) == 1 and isinstance(n.ops[0], (ast.NotEq, ast.Eq)): pair(n.left, n.comparators[0], n)
  # the same comparison written once over the field names: for name in (<literals>): getattr(self, name) vs getattr(other, name)
  for lp in walk_no_nested(mw.node):
    if isinstance(lp, ast.For) and isinstance(lp.target, ast.Name) and isinstance(lp.iter, (ast.Tuple, ast.List)) and all(isinstance(e_, ast.Constant) and isinstance(e_.value, str) for e_ in lp.iter.elts):
      ga = [c for c in ast.walk(lp) if isinstance(c, ast.Call) and call_name(c) == 'getattr' and len(c.args) >= 2 and isinstance(c.args[1], ast.Name) and c.args[1].id == lp.target.id]
      recv = set(norm(c.args[0]) for c in ga)
      if {'self', other} <= recv:
        for e_ in lp.iter.elts:
          if e_.value in fields: tested.add(e_.value)
          elif e_.value.startswith('get_') and e_.value[4:] in fields: tested.add(e_.value[4:])
  for side in ('src', 'dst'):
    g1 = [c for c in calls_in(mw.node) if call_name(c) == 'get_nw_' + side]
    if any(norm(c.func.value) == 'self' for c in g1) and any(norm(c.func.value) == other for c in g1): tested.add('nw_' + side)
  missing = sorted(set(fields) - tested); extra = sorted(tested - set(fields))
  ctx.ob('R-ALL', mw, "every match field takes part in matching", not missing and not extra, "%d fields" % len(tested) if not missing else
         "field(s) %s are never compared: two matches (or a match and a frame) that differ only there are treated as matching" % missing, mw, 'D1')
  g = q.cfg_of(mw)
  mfn = q.nested_defs(mw.node).get('match_fail')
  if mfn is None:
    # unrolled / inlined form: each field comparison `self.X != other.X` must lead to the negative result and
    # must be skipped only when self.X is None
    for n in g.nodes:
      if n.kind == 'cond' and isinstance(n.ast, ast.Compare) and isinstance(n.ast.ops[0], ast.NotEq) and isinstance(n.ast.left, ast.Attribute) and norm(n.ast.left.value) == 'self' and n.ast.left.attr in fields:
        fs = q.fact_strs(g, n)
        skip_ok = all(not (f.startswith('self.%s ' % n.ast.left.attr)) or f == 'self.%s is not None' % n.ast.left.attr for f in fs)
        tb = [b for b, l in n.succ if l is True]
        neg = bool(tb) and all(x.kind == 'return' and isinstance(x.ast.value, ast.Constant) and x.ast.value.value is False for b in tb for x, l2 in b.succ)
        ctx.ob('R-AGREE', mw, "field `%s`: a wildcarded field never fails; a specified one must be equal" % n.ast.left.attr, skip_ok and neg,
               "compared unless None; inequality -> no match" if skip_ok and neg else "comparison of `%s` is guarded by %s / does not end the match negatively" % (n.ast.left.attr, fs), (lof, n.ast), 'D1')
  if mfn is not None:
    src = norm(mfn)
    good = 'if mine is None: return False' in src.replace('\n', ' ').replace('    ', ' ').replace('  ', ' ') or ('mine is None' in src and 'return mine != others' in src)
    ctx.ob('R-AGREE', mw, "a wildcarded field never fails; a specified one must be equal", 'mine is None' in src and 'mine != others' in src, "match_fail: None -> ok, else !=", (lof, mfn), 'D1')
  rets_true = [n for n in g.nodes if n.kind == 'return' and isinstance(n.ast.value, ast.Constant) and n.ast.value.value is True]
  ctx.ob('R-EFFECT', mw, "a match is reported only after every field test passed", bool(rets_true), "%d `return True` sites" % len(rets_true), mw, 'D1')
  for side in ('src', 'dst'):
    pres = [c for c in calls_in(mw.node) if call_name(c) == 'inNetwork']
  ctx.ob('R-AGREE', mw, "IP addresses are compared under the prefix mask", len([c for c in calls_in(mw.node) if call_name(c) == 'inNetwork']) == 2, "two inNetwork tests", mw, 'D1')
  eq_fields = set()
  for n in ast.walk(eq.node):
    if isinstance(n, ast.Compare) and isinstance(n.left, ast.Attribute) and norm(n.left.value) == 'self' and isinstance(n.ops[0], ast.NotEq):
      r = n.comparators[0]
      good = isinstance(r, ast.Attribute) and r.attr == n.left.attr
      eq_fields.add(n.left.attr)
      ctx.ob('R-AGREE', eq, "equality `%s` pairs the same field" % norm(n), good, norm(n), (lof, n), 'D1')
  missing = sorted(set(fields) - eq_fields)
  ctx.ob('R-ALL', eq, "equality considers every match field and the wildcards", not missing and 'wildcards' in eq_fields, "%d fields + wildcards" % (len(eq_fields) - 1) if not missing else "equality ignores %s: entries differing there count as identical (replace / strict delete hit the wrong entry)" % missing, eq, 'D1')
  # ---- D3 extraction ------------------------------------------------------------------------------------
  fp = q.find_method(repo, m, 'from_packet', 'C03'); ctx.analysed(fp)
  g = q.cfg_of(fp)
  # the match under construction: the local that is returned
  mvar = None
  for r in q.returns_of(fp.node):
    if isinstance(r.value, ast.Name): mvar = r.value.id
  if mvar is None: raise AnalysisError("from_packet no longer returns a local match object")
  assigns = []
  for t, v, st, k in q.stores_in(fp.node, nested=False):
    if isinstance(t, ast.Attribute) and norm(t.value) == mvar and v is not None:
      assigns.append((t.attr, norm(v), q.enclosing_stmt_node(g, st), st))
  ctx.floor('extraction assignments', len(assigns), 14)
  def isi (cls):
    def m_ (e):
      if not (isinstance(e, ast.Call) and call_name(e) == 'isinstance' and len(e.args) == 2): return False
      k = e.args[1]
      return norm(k) == cls or (isinstance(k, ast.Tuple) and all(norm(x) in (cls,) for x in k.elts))
    return m_
  def isi_any (true_classes):
    # isinstance(x, (a, b)): true when any member is true in this scenario
    def m_ (e):
      return isinstance(e, ast.Call) and call_name(e) == 'isinstance' and len(e.args) == 2 and isinstance(e.args[1], ast.Tuple) and len(e.args[1].elts) > 1
    return m_
  ALLC = ('llc', 'vlan', 'ipv4', 'arp', 'udp', 'tcp', 'icmp', 'ofp_packet_in')
  def attr_cmp (attr, ops, const):
    def m_ (e):
      return isinstance(e, ast.Compare) and len(e.ops) == 1 and isinstance(e.left, ast.Attribute) and e.left.attr == attr and type(e.ops[0]) in ops \
             and isinstance(e.comparators[0], ast.Constant) and e.comparators[0].value == const
    return m_
  def env (true_classes, extra=None, frag=None, non_eth=False):
    ms = [(isi(c), c in true_classes) for c in ALLC]
    class TupleIsi(object): pass
    def tuple_isi (e):
      return isinstance(e, ast.Call) and call_name(e) == 'isinstance' and len(e.args) == 2 and isinstance(e.args[1], ast.Tuple) and len(e.args[1].elts) > 1
    # a tuple isinstance is true iff one of its members is
    for combo_true in (True, False):
      pass
    ms.append(((lambda e, tc=true_classes: tuple_isi(e) and any(norm(x) in tc for x in e.args[1].elts)), True))
    ms.append(((lambda e, tc=true_classes: tuple_isi(e) and not any(norm(x) in tc for x in e.args[1].elts)), False))
    ex = {'spec_frags': True, 'in_port is not None': True}
    if non_eth is not None:
      ms.append((attr_cmp('type', (ast.Lt,), 1536), non_eth)); ms.append((attr_cmp('type', (ast.GtE,), 1536), not non_eth))
    ms.append((attr_cmp('opcode', (ast.LtE,), 255), True)); ms.append((attr_cmp('opcode', (ast.Gt,), 255), False))
    if frag is not None:
      mf, off = frag
      ms.append((lambda e: isinstance(e, ast.BinOp) and isinstance(e.op, ast.BitAnd) and 'MF_FLAG' in norm(e), 0x2000 if mf else 0))
      ms.append((attr_cmp('frag', (ast.NotEq,), 0), bool(off))); ms.append((attr_cmp('frag', (ast.Eq,), 0), not off)); ms.append((attr_cmp('frag', (ast.Gt,), 0), bool(off)))
      ms.append((lambda e: isinstance(e, ast.Attribute) and e.attr == 'frag', 5 if off else 0))
    if extra:
      for k_, v_ in extra.items():
        if callable(k_): ms.append((k_, v_))
        else: ex[k_] = v_
    return q.Env(ex, ms)
  def same (spec_val, got_val):
    if spec_val == got_val: return True
    if '.' in spec_val and not spec_val[0].isdigit():
      suf = spec_val[spec_val.index('.'):]
      return got_val.endswith(suf) and not got_val[:-len(suf)].endswith(')')
    return False
  def decided (label, e, want, forbid=()):
    # the stores whose value survives to the return (a default that is overwritten later on every path does not count)
    fieldof = dict((n, f_) for f_, val, n, st in assigns)
    fin = q.final_stores_under(repo, lof, g, e, lambda n_: fieldof.get(n_), m)
    live = [(f_, val) for f_, val, n, st in assigns if n in fin]
    for f_, val in want.items():
      got = [v for ff, v in live if ff == f_]
      good = any(same(val, x) for x in got)
      ctx.ob('R-AGREE', fp, "%s: match.%s = %s" % (label, f_, val), good, "assignment reachable" if good else
             "for %s the extraction assigns %s to match.%s, the specification prescribes %s" % (label, got or 'nothing', f_, val), fp, 'D3')
    for f_, val in forbid:
      got = [v for ff, v in live if ff == f_ and same(val, v)]
      ctx.ob('R-AGREE', fp, "%s: match.%s is not taken from %s" % (label, f_, val), not got, "unreachable" if not got else
             "for %s the assignment match.%s = %s is still reachable: the match carries a value the specification says must not be used" % (label, f_, val), fp, 'D3')
  decided("any frame", env(()), ext['always'])
  decided("an untagged frame", env(()), ext['untagged'])
  decided("a VLAN-tagged frame", env(('vlan',)), ext['vlan'], forbid=[('dl_vlan', 'OFP_VLAN_NONE')])
  decided("an IPv4 packet", env(('ipv4',), frag=(False, False)), ext['ipv4'])
  decided("an unfragmented TCP/UDP packet", env(('ipv4', 'udp', 'tcp'), frag=(False, False)), ext['tcp_udp'], forbid=[('tp_src', '0')])
  decided("an unfragmented ICMP packet", env(('ipv4', 'icmp'), frag=(False, False)), ext['icmp'])
  for label, fr in (("a first fragment (offset 0, more-fragments set)", (True, False)), ("a later fragment (offset != 0)", (False, True)), ("a middle fragment", (True, True))):
    decided(label, env(('ipv4', 'udp', 'tcp'), frag=fr), ext['fragment'], forbid=[('tp_src', 'p.srcport'), ('tp_dst', 'p.dstport')])
  decided("an ARP packet", env(('arp',)), ext['arp'])
  decided("an 802.3 frame without ethertype", env((), non_eth=True), ext['non_ethertype'])
  # the boundary by value: 0x05ff is the largest 802.3 length, 0x0600 the smallest EtherType (OpenFlow 1.0, ofp_match.dl_type)
  decided("a frame whose type/length field is 0x05ff", env((), extra={'packet.type': 0x5ff}, non_eth=None), ext['non_ethertype'], forbid=[('dl_type', 'packet.type')])
  decided("an Ethernet II frame with EtherType 0x0600", env((), extra={'packet.type': 0x600}, non_eth=None), {'dl_type': 'packet.type'}, forbid=[('dl_type', 'OFP_DL_TYPE_NOT_ETH_TYPE')])
  snap = {(lambda e: isinstance(e, ast.Attribute) and e.attr == 'has_snap'): True,
          (lambda e: isinstance(e, ast.Compare) and isinstance(e.left, ast.Attribute) and e.left.attr == 'oui' and isinstance(e.ops[0], ast.Eq)): True}
  decided("an LLC/SNAP frame with OUI 0", env(('llc',), extra=snap, non_eth=True), ext['snap'])
  ip = [st for f_, val, n, st in assigns if f_ == 'in_port']
  ctx.ob('R-AGREE', fp, "the ingress port is recorded when given", bool(ip) and norm(ip[0].value) == fp.params[2], norm(ip[0]) if ip else "?", fp, 'D3')
  for cf in btypes.conflicts(fp.node):
    ctx.bad('R-BYTES', fp, "`%s`" % cf.text[:60], "%s of %s and %s: the comparison is constant, so the branch it guards is dead" % (cf.kind, cf.left, cf.right), (lof, cf.node), 'D5')
  # llc attribute typed from its class: oui is bytes
  for n in ast.walk(fp.node):
    if isinstance(n, ast.Compare) and 'oui' in norm(n.left) and isinstance(n.comparators[0], ast.Constant):
      good = isinstance(n.comparators[0].value, bytes)
      ctx.ob('R-BYTES', fp, "SNAP OUI is compared with bytes", good, norm(n) if good else "`%s` compares the 3-byte OUI with a str: never equal, SNAP-encapsulated ethertypes are ignored" % norm(n), (lof, n), 'D5')
  _fresh_lookup(ctx, repo)
  # ---- D4 table ---------------------------------------------------------------------------------------------
  ft = repo.cls(FT, 'FlowTable'); te = repo.cls(FT, 'TableEntry'); ftm = ft.module
  efp = q.find_method(repo, ft, 'entry_for_packet', 'C03'); ae = q.find_method(repo, ft, 'add_entry', 'C03')
  ctx.analysed(efp); ctx.analysed(ae)
  nmut = 0
  for mod in repo.modules.values():
    if '_table' not in mod.src and '.entries' not in mod.src: continue
    for cls in mod.classes.values():
      for f in cls.methods.values():
        aliases = set()
        for t, v, st, k in q.stores_in(f.node):
          if isinstance(t, ast.Name) and v is not None and (norm(v) in ('self._table',) or norm(v).endswith('table.entries')): aliases.add(t.id)
        for c in calls_in(f.node, nested=True):
          if isinstance(c.func, ast.Attribute) and c.func.attr in ('append', 'insert', 'sort', 'reverse', 'extend', 'remove', 'pop', 'clear') :
            base = c.func.value
            is_tab = (isinstance(base, ast.Attribute) and base.attr == '_table' and cls is ft) or (isinstance(base, ast.Name) and base.id in aliases) or (isinstance(base, ast.Attribute) and base.attr == 'entries' and norm(base.value).split('.')[-1] in ('table', 'flow_table', '_table'))
            if not is_tab: continue
            nmut += 1
            if c.func.attr in ('remove', 'pop', 'clear'):
              good = cls is ft
              ctx.ob('R-OWN', f, "entries are removed only by the table itself (`%s`)" % norm(c)[:40], good, f.name if good else "%s removes entries behind the table's back (no removal event)" % f.qual, (mod, c), 'D4')
            else:
              good = cls is ft and f.name == 'add_entry' and c.func.attr == 'insert'
              ctx.ob('R-OWN', f, "only add_entry inserts into the sorted table (`%s`)" % norm(c)[:40], good, "ordered insert" if good else
                     "%s %ss the table list directly: the descending-priority order lookup relies on is destroyed" % (f.qual, c.func.attr), (mod, c), 'D4')
        for t, v, st, k in q.stores_in(f.node):
          if isinstance(t, ast.Attribute) and t.attr in ('priority', 'match') and cls is not te and not (isinstance(t.value, ast.Name) and t.value.id in ('self', 'msg', 'fm', 'flow_mod', 'fr', 'n', 'm', 'po', 'r')) and mod.name in ('pox.openflow.flow_table', 'pox.datapaths.switch'):
            ctx.bad('R-OWN', f, "an installed entry's %s is never rewritten" % t.attr, "`%s` changes the sort key of an entry that is already in the table" % norm(st), (mod, st), 'D4')
  ctx.floor('table mutator sites', nmut, 2)
  # from_packet treats a frame as tagged exactly when the packet library parsed a vlan header: the library may hand the vlan
  # parser only frames of ethertype 0x8100 (OpenFlow 1.0 knows no other tag type; a 0x9100 frame is untagged with dl_type 0x9100)
  try:
    emod = repo.mod('lib.packet.ethernet'); ecls = emod.classes.get('ethernet')
  except Exception: ecls = None
  if ecls is not None:
    keys = []
    for em_ in ecls.methods.values():
      for t_, v_, st_, k_ in q.stores_in(em_.node):
        if isinstance(t_, ast.Subscript) and 'type_parsers' in norm(t_.value) and isinstance(v_, ast.Name) and v_.id == 'vlan': keys.append((t_.slice, st_))
      for c_ in calls_in(em_.node):
        if call_name(c_) == 'update' and isinstance(c_.func, ast.Attribute) and 'type_parsers' in norm(c_.func.value) and c_.args and isinstance(c_.args[0], ast.Dict):
          for k2, v2 in zip(c_.args[0].keys, c_.args[0].values):
            if isinstance(v2, ast.Name) and v2.id == 'vlan': keys.append((k2, c_))
    for k_, site in keys:
      kv = repo.try_const(emod, k_, ecls)
      ctx.ob('R-AGREE', ecls, "the vlan parser is registered for ethertype 0x8100 only (`%s`)" % norm(k_), kv == 0x8100, "0x8100" if kv == 0x8100 else
             "ethertype %s is parsed as a VLAN tag: from_packet then reports dl_vlan / dl_vlan_pcp and the inner ethertype for such frames, where OpenFlow 1.0 requires 'untagged, dl_type = %s' - flows match the wrong frames"
             % (hex(kv) if isinstance(kv, int) else norm(k_), hex(kv) if isinstance(kv, int) else norm(k_)), (emod, site), 'D2')
    ctx.floor('vlan parser registrations', len(keys), 1)
  # ordered insert idiom
  g = q.cfg_of(ae)
  ins = [c for c in calls_in(ae.node) if call_name(c) == 'insert']
  srt = [c for c in calls_in(ae.node) if call_name(c) == 'sort']
  bis = [c for c in calls_in(ae.node) if call_name(c) in ('bisect_left', 'bisect_right', 'bisect', 'insort', 'insort_left', 'insort_right')]
  # by evaluation on sample tables (E = exact-match entry, Wn = wildcarded entry of priority n): where does the new entry land?
  def entry_ (nm_, prio, exact):
    return q.Rec(name=nm_, priority=prio, effective_priority=(65537 if exact else prio), match=q.Rec(is_exact=exact, is_wildcarded=not exact))
  def add_on (table, new):
    import bisect as _bisect
    def hook (call, env=None):
      nmc = call_name(call)
      if nmc in ('insort', 'insort_left', 'insort_right', 'bisect', 'bisect_left', 'bisect_right') and len(call.args) >= 2:
        try:
          lst = q.eval_env2(repo, ftm, call.args[0], env, ft); x = q.eval_env2(repo, ftm, call.args[1], env, ft)
          kf = kwarg(call, 'key')
          keyf = None
          if isinstance(kf, ast.Lambda) and len(kf.args.args) == 1:
            keyf = lambda o_, kf=kf: q.eval_env2(repo, ftm, kf.body, q.Env({kf.args.args[0].arg: o_}), ft)
          elif kf is not None: return (False, None)
          keys = [keyf(o_) for o_ in lst] if keyf else list(lst)
          kx = keyf(x) if (keyf and nmc.startswith('insort')) else x
          pos = (_bisect.bisect_left if nmc.endswith('left') else _bisect.bisect_right)(keys, kx)
          if nmc.startswith('insort'):
            cur = lst; c2 = list(cur); c2.insert(pos, x)
            for k2_, v2_ in list(env.exact.items()):
              if v2_ is cur: env.exact[k2_] = c2
            return (True, None)
          return (True, pos)
        except Exception: return (False, None)
      if nmc == '_dirty': return (True, None)
      return (False, None)
    hook.wants_env = True; hook.effects = True
    outs = set()
    for p_, e_ in q.paths_under(repo, ftm, g, q.Env({'self._table': list(table), ae.params[1]: new}, [((lambda e: isinstance(e, ast.Call) and call_name(e) == 'isinstance'), True)], hook), g.entry, [g.exit], ft, limit=200):
      v_ = e_.exact.get('self._table', '?')
      outs.add(tuple(x['name'] for x in v_) if isinstance(v_, list) else '?')
    return outs
  E5, W10, W7, W5, E1 = entry_('E5', 5, True), entry_('W10', 10, False), entry_('W7', 7, False), entry_('W5', 5, False), entry_('E1', 1, True)
  samples = [([], W7, ('W7',)), ([E5], W10, ('E5', 'W10')), ([W10, W5], W7, ('W10', 'W7', 'W5')), ([W10], E1, ('E1', 'W10')), ([E5, W10, W5], W7, ('E5', 'W10', 'W7', 'W5'))]
  ins_wrong = []; ins_unknown = 0
  for tbl_, new_, want_ in samples:
    got_ = add_on(tbl_, new_)
    if len(got_) != 1 or '?' in got_: ins_unknown += 1
    elif got_ != {want_}: ins_wrong.append(([x['name'] for x in tbl_], new_['name'], sorted(got_), want_))
  if ins_unknown:
    ctx.undecided('R-AGREE', ae, "add_entry on sample tables keeps descending effective priority (exact entries first)", "%d of %d sample tables not evaluable" % (ins_unknown, len(samples)), ae, 'D4')
  else:
    ctx.ob('R-AGREE', ae, "add_entry on sample tables keeps descending effective priority (exact entries first)", not ins_wrong, "%d sample tables" % len(samples) if not ins_wrong else
           "adding %s to the table %s gives %s, expected %s: an exact-match entry no longer outranks a wildcarded one of numerically higher priority (or priorities are out of order) - lookup returns the wrong entry"
           % (ins_wrong[0][1], ins_wrong[0][0], ins_wrong[0][2], list(ins_wrong[0][3])), ae, 'D4')
  if ins and bis:
    # ordered insert through a parallel list of sort keys: sound only if every writer of the table keeps that list in step
    c = bis[0]
    keyattr = c.args[0].attr if c.args and isinstance(c.args[0], ast.Attribute) and norm(c.args[0].value) == 'self' else None
    if keyattr is None or keyattr == '_table':
      ctx.undecided('R-AGREE', ae, "ordered-insert idiom", "bisect call not understood: %s" % norm(c), (ftm, c), 'D4')
    else:
      for f in ft.methods.values():
        if f.name == '__init__': continue
        tw = list(q.mutations_of_attr(f.node, '_table')); kw_ = list(q.mutations_of_attr(f.node, keyattr))
        if tw:
          ctx.ob('R-AGREE', f, "the sort-key list `%s` is updated wherever the table is" % keyattr, bool(kw_), "both updated" if kw_ else
                 "%s changes self._table but not self.%s, which add_entry bisects on: after this runs the two lists are out of step and later entries are inserted "
                 "at the wrong rank - lookup returns a lower-priority entry first" % (f.qual, keyattr), (ftm, tw[0][1]), 'D4')
      ctx.undecided('R-AGREE', ae, "ordered-insert idiom (key list)", "descending order through negated keys is not evaluated", ae, 'D4') if False else None
  elif ins:
    loops = [(s_, h, a) for (s_, h, a) in g.loop_nodes if isinstance(s_, ast.While)]
    # bisection: V_hi = middle on one branch, V_lo = middle + 1 on the other; decided from the facts at the two updates
    stores = [(t_, v, st) for t_, v, st, k in q.stores_in(ae.node, nested=False) if isinstance(t_, ast.Name) and v is not None]
    def is_mid (e):
      e2 = e
      if isinstance(e2, ast.Name):
        d = [v for t_, v, st in stores if t_.id == e2.id]
        if len(d) == 1: e2 = d[0]
      return isinstance(e2, ast.BinOp) and isinstance(e2.op, ast.FloorDiv) and isinstance(e2.right, ast.Constant) and e2.right.value == 2 and isinstance(e2.left, ast.BinOp) and isinstance(e2.left.op, ast.Add)
    hi_up = [(t_, st) for t_, v, st in stores if is_mid(v) and not (isinstance(v, ast.BinOp) and isinstance(v.op, ast.Add))]
    tnames = set(q.names_in(loops[0][0].test)) if loops else set()
    hi_up = [(t_, st) for t_, st in hi_up if t_.id in tnames]
    lo_up = [(t_, st) for t_, v, st in stores if isinstance(v, ast.BinOp) and isinstance(v.op, ast.Add) and isinstance(v.right, ast.Constant) and v.right.value == 1 and is_mid(v.left)]
    if loops and len(hi_up) == 1 and len(lo_up) == 1:
      hn = q.enclosing_stmt_node(g, hi_up[0][1])
      rel = None
      for l, o, r, b_ in q.guard_facts(g, hn):
        if r is None: continue
        L, R = norm(l), norm(r)
        if 'effective_priority' not in L + R: continue
        tab_left = '[' in L and '[' not in R
        tab_right = '[' in R and '[' not in L
        if tab_right: o = q.flip(o); tab_left = True
        if tab_left and o in ('<', '<=', '>', '>='): rel = o
      good = rel in ('<=', '<')
      ctx.ob('R-AGREE', ae, "binary insert keeps descending effective priority", good, "upper bound moves down when table[middle] %s new" % rel if good else
             "the bisection lowers its upper bound when table[middle] %s new priority: entries end up in ascending order (or the shape was not understood) - lookup returns the lowest priority match first" % rel, (ftm, hi_up[0][1]), 'D4')
      lo_name = lo_up[0][0].id
      c = ins[0]
      good = len(c.args) == 2 and norm(c.args[0]) == lo_name and norm(c.args[1]) == ae.params[1]
      ctx.ob('R-AGREE', ae, "the entry is inserted at the position found", good, norm(c), (ftm, c), 'D4')
    else:
      ctx.undecided('R-AGREE', ae, "ordered-insert idiom", "binary search shape not recognised", ae, 'D4')
  elif srt:
    c = srt[0]
    good = norm(kwarg(c, 'reverse')) == 'True' and 'effective_priority' in norm(kwarg(c, 'key'))
    ctx.ob('R-AGREE', ae, "append + sort keeps descending effective priority", good, norm(c), (ftm, c), 'D4')
  else:
    ctx.undecided('R-AGREE', ae, "ordered-insert idiom", "neither insert nor sort found", ae, 'D4')
  # lookup
  g = q.cfg_of(efp)
  loops = [(s_, h, a) for (s_, h, a) in g.loop_nodes if isinstance(s_, ast.For)]
  gen = None
  for r in q.returns_of(efp.node):
    v = r.value
    if isinstance(v, ast.Call) and call_name(v) == 'next' and v.args and isinstance(v.args[0], ast.GeneratorExp): gen = v
  if gen is not None and not loops:
    ge = gen.args[0]; c0 = ge.generators[0]
    good = len(ge.generators) == 1 and norm(c0.iter) == 'self._table'
    ctx.ob('R-AGREE', efp, "lookup scans the sorted table from the front", good, "next(generator over %s)" % norm(c0.iter), efp, 'D4')
    hit = norm(ge.elt) == norm(c0.target) and len(c0.ifs) == 1 and any(call_name(c) == 'matches_with_wildcards' for c in calls_in(c0.ifs[0])) \
          and not (isinstance(c0.ifs[0], ast.UnaryOp) and isinstance(c0.ifs[0].op, ast.Not))
    ctx.ob('R-AGREE', efp, "the first matching entry is returned", hit, "first element satisfying the match test", efp, 'D4')
    dflt = len(gen.args) == 2 and isinstance(gen.args[1], ast.Constant) and gen.args[1].value is None
    ctx.ob('R-DOM', efp, "a miss is reported only after the whole table was scanned", dflt, "next(..., None)" if dflt else "next() without the None default raises StopIteration on a miss", efp, 'D4')
    ctx.ob('R-ALL', efp, "the scan is never abandoned early", True, "generator consumed by next()", efp, 'D4')
  else:
    good = len(loops) == 1 and norm(loops[0][0].iter) == 'self._table'
    ctx.ob('R-AGREE', efp, "lookup scans the sorted table from the front", good, norm(loops[0][0].iter) if loops else "no loop", efp, 'D4')
  if loops:
    st_, h, a = loops[0]
    # decided by evaluation on a sample table: entries A, B, C in table order, B and C match the frame -> B; none matches -> None
    def lookup (flags):
      tbl = [q.Rec(name=nm_, match=q.Rec(res=fl_, name=nm_)) for nm_, fl_ in zip('ABC', flags)]
      def hook (call, env=None):
        if call_name(call) == 'matches_with_wildcards' and isinstance(call.func, ast.Attribute):
          try: rc = q.eval_env2(repo, ftm, call.func.value, env, ft)
          except Exception: return (False, None)
          if isinstance(rc, q.Rec) and 'res' in rc: return (True, rc['res'])
        if call_name(call) == 'from_packet': return (True, q.Rec(name='frame'))
        return (False, None)
      hook.wants_env = True
      out = set()
      for p_, e_ in q.paths_under(repo, ftm, g, q.Env({'self._table': tbl}, [], hook), g.entry, [n for n in g.nodes if n.kind == 'return'] + [g.exit], ft, limit=80):
        last = p_[-1]
        if last.kind != 'return': out.add(None if last is g.exit else '?'); continue
        if last.ast.value is None: out.add(None); continue
        try: v_ = q.eval_env2(repo, ftm, last.ast.value, e_, ft)
        except Exception: v_ = '?'
        out.add(v_['name'] if isinstance(v_, q.Rec) and 'name' in v_ else (None if v_ is None else '?'))
      return out
    r_first, r_none, r_last = lookup((False, True, True)), lookup((False, False, False)), lookup((False, False, True))
    if '?' in r_first | r_none | r_last or not r_first:
      ctx.undecided('R-AGREE', efp, "the first matching entry is returned", "lookup not evaluable on the sample table (%s)" % sorted(map(str, r_first | r_none | r_last)), efp, 'D4')
    else:
      ctx.ob('R-AGREE', efp, "the first matching entry is returned", r_first == {'B'} and r_last == {'C'}, "table [A,B,C], B and C match -> B; only C matches -> C" if r_first == {'B'} and r_last == {'C'} else
             "on a table [A, B, C] where B and C match the frame the lookup yields %s (and %s when only C matches): not the first - i.e. highest ranked - matching entry" % (sorted(map(str, r_first)), sorted(map(str, r_last))), efp, 'D4')
      ctx.ob('R-DOM', efp, "a miss is reported only after the whole table was scanned", r_none == {None}, "no entry matches -> None" if r_none == {None} else "with no matching entry the lookup yields %s" % sorted(map(str, r_none)), efp, 'D4')
      ctx.ob('R-ALL', efp, "the scan is never abandoned early", r_last == {'C'}, "the last entry is still found", efp, 'D4')
  mc = [c for c in calls_in(efp.node) if call_name(c) == 'matches_with_wildcards']
  if mc:
    c = mc[0]
    good = norm(c.func.value).endswith('.match') and norm(kwarg(c, 'consider_other_wildcards', 1)) == 'False'
    ctx.ob('R-AGREE', efp, "the entry's match is applied to the frame's exact match", good, norm(c)[:80], (ftm, c), 'D4')
  if mc and mc[0].args and isinstance(mc[0].args[0], ast.Name):
    # the match looked up is extracted from this very frame in this very call: every origin of the variable is a
    # from_packet(<packet param>, <in_port param>) - not a value kept from an earlier lookup
    mn = q.enclosing_stmt_node(g, mc[0])
    pv = q.provenance(g, mn, mc[0].args[0].id) if mn is not None else []
    def fresh (kind, val):
      return kind == 'assign' and isinstance(val, ast.Call) and call_name(val) == 'from_packet' and val.args and norm(val.args[0]) == efp.params[1]
    stale_ = [(d_, kind, val) for d_, kind, val in pv if not fresh(kind, val)]
    if not pv:
      ctx.undecided('R-AGREE', efp, "the match that is looked up is extracted from the given frame in this call", "origin of `%s` not found" % mc[0].args[0].id, (ftm, mc[0]), 'D4')
    else:
      ctx.ob('R-AGREE', efp, "the match that is looked up is extracted from the given frame in this call", not stale_,
             "%s = from_packet(%s, ...)" % (mc[0].args[0].id, efp.params[1]) if not stale_ else
             "`%s` can also come from `%s`, i.e. from state kept between lookups: a frame object that is looked up again after its headers were rewritten (or a reused buffer) is matched by its old field values"
             % (mc[0].args[0].id, norm(stale_[0][2])[:60] if stale_[0][2] is not None else stale_[0][1]), (ftm, mc[0]), 'D4')
  fpc = [c for c in calls_in(efp.node) if call_name(c) == 'from_packet']
  good = bool(fpc) and norm(kwarg(fpc[0], 'spec_frags', 2)) == 'True' and len(fpc[0].args) >= 2 and norm(fpc[0].args[1]) == efp.params[2]
  ctx.ob('R-AGREE', efp, "the frame is extracted per spec (fragments) with its ingress port", good, norm(fpc[0]) if fpc else "?", efp, 'D4')
  effective_priority_rule(ctx, repo, 'D4')
  # is_wildcarded: true for every single wildcard bit, false for none
  iw = None
  for bn in m.node.body:
    if isinstance(bn, ast.FunctionDef) and bn.name == 'is_wildcarded': iw = bn
  if iw is None: raise AnalysisError("ofp_match.is_wildcarded vanished")
  ig = q.cfg_of(iw)
  bad_bits = []; n_ok = 0; unknown = 0
  for bit in [0] + [1 << i for i in range(22)] + [5 << 8, 17 << 14, 31 << 8, 31 << 14]:
    res = []
    def on_node (n, e, res=res):
      if n.kind == 'return' and n.ast.value is not None:
        try: res.append(bool(q.eval_env2(repo, lof, n.ast.value, e, m)))
        except Exception: res.append(None)
    q.paths_under(repo, lof, ig, q.Env({'self.wildcards': bit}), ig.entry, [ig.exit], m, limit=50, on_node=on_node)
    vals = set(res)
    if len(vals) != 1 or None in vals: unknown += 1; continue
    n_ok += 1
    if vals.pop() != (bit != 0): bad_bits.append(bit)
  if n_ok < 20:
    ctx.undecided('R-AGREE', m.qual + '.is_wildcarded', "'exact' means no wildcard bit at all", "is_wildcarded could be evaluated for only %d of %d wildcard values" % (n_ok, n_ok + unknown), (lof, iw), 'D4')
    ctx.floor('is_wildcarded decided', 0, 1)
  else:
    ctx.ob('R-AGREE', m.qual + '.is_wildcarded', "'exact' means no wildcard bit at all (incl. partial IP prefixes)", not bad_bits,
           "evaluated on %d wildcard values" % n_ok if not bad_bits else
           "is_wildcarded is %s for wildcards=0x%x (e.g. a /%d IP prefix with everything else specified): such an entry is ranked as an exact match (infinite priority) and shadows higher-priority wildcarded entries that also match" % (
             not (bad_bits[0] != 0), bad_bits[0], 32 - ((bad_bits[0] >> 8) & 63) if bad_bits[0] >> 8 & 63 else 32 - ((bad_bits[0] >> 14) & 63)), (lof, iw), 'D4')
  for f in (mw, eq, fp, efp, ae):
    for nm, node in defs.undefined_names(repo, f):
      ctx.bad('R-DEF', f, "undefined name `%s`" % nm, "NameError on this path", (f.module, node), 'D1')
  # ---- mechanisms this property shares with others: a lookup answers from the table the accepted flow-mods built - a flow-mod that is
  # refused must leave it untouched (C04's rules about the ADD path), and the exact-slot view of a port (C17) is not involved
  ctx.include('C04', ['_flow_mod_add'], "the entries a lookup ranks are those the accepted flow-mods installed; a refused flow-mod changes nothing")
  # a lookup result remembered across lookups must be remembered under the packet's header fields themselves: a hash of them
  # (ofp_match.hash_code() is an XOR of field hashes cut to 31 bits) is the same for different headers - tp_src/tp_dst swapped, in_port
  # and tp_src exchanged - and the second frame of such a pair is answered with the first frame's entry (or miss)
  for f in (efp,):
    lossy = []
    for n in walk_no_nested(f.node):
      idx = None
      if isinstance(n, ast.Subscript): idx, cont = n.slice, n.value
      elif isinstance(n, ast.Compare) and len(n.ops) == 1 and isinstance(n.ops[0], (ast.In, ast.NotIn)): idx, cont = n.left, n.comparators[0]
      elif isinstance(n, ast.Call) and isinstance(n.func, ast.Attribute) and n.func.attr in ('get', 'setdefault', 'pop') and n.args: idx, cont = n.args[0], n.func.value
      if idx is None: continue
      d_ = q.single_def(f.node, idx.id) if isinstance(idx, ast.Name) else idx
      cd_ = q.single_def(f.node, cont.id) if isinstance(cont, ast.Name) else cont
      is_hash = isinstance(d_, ast.Call) and ((isinstance(d_.func, ast.Attribute) and d_.func.attr in ('hash_code', '__hash__')) or (isinstance(d_.func, ast.Name) and d_.func.id == 'hash'))
      is_state = cd_ is not None and isinstance(cd_, ast.Attribute) and norm(cd_.value) == 'self'
      if is_hash and is_state: lossy.append((n, d_, cd_))
    ctx.ob('R-AGREE', f, "what a lookup remembers is not keyed by a hash of the header fields", not lossy, "no memo keyed by a hash value" if not lossy else
           "%s is looked up / stored under `%s`: two different headers with the same hash value (for hash_code(): transport ports swapped, in_port and tp_src exchanged, addresses differing in a masked-out bit pattern) share one "
           "remembered result - the second frame is reported as matching the first frame's entry, or as a miss, although the table says otherwise" % (norm(lossy[0][2]), norm(lossy[0][1])) if lossy else "", (f.module, lossy[0][0]) if lossy else f, 'D2')
