"""C04 - flow table as the FLOW_MOD / timeout state machine (structural part).

 D1 R-REG     all five commands have a _flow_mod_<name>; unknown command -> BAD_COMMAND error and return
 D2 R-ORDER   _flow_mod_add: emergency/overlap rejections precede any table mutation; strict removal of
              the identical (match, priority) precedes add_entry for ADD; capacity check precedes insert
 D3 R-AGREE   *_strict variants pass strict=True; delete passes out_port (NONE -> None) and reason DELETE;
              modify falls through to add only when nothing matched
 D4 R-EFFECT  every removal routine announces its removal exactly once with the removed entries;
              flow_removed only from to_flow_removed in the notification handler, under SEND_FLOW_REM & !EMERG,
              for each of the reasons idle / hard / delete; one send per qualifying entry
 D5 R-AGREE   clocks: created written once; touch refreshes the idle clock only; idle/hard tests pair the right
              clock with the right timeout and cannot succeed early; expiry reasons; touch before actions; timer
 D6 R-ITERMUT expiry collects then removes
 D7 R-ALL     full-table scans have no early exit; out_port filter applies to strict and non-strict matching
"""
import ast
from .. import q, ofreg, defs, switchq
from ..model import AnalysisError, calls_in, call_name, norm, kwarg, walk_no_nested

EXPLAIN = ("R-REG flow-mod command handlers; R-ORDER/R-DOM rejection-before-mutation, replace-on-ADD, capacity; "
           "R-AGREE strict/out_port/reason arguments, clock/timeout pairing and comparison orientation, expiry reasons; "
           "R-EFFECT removal announced exactly once, flow_removed only for notify-flagged non-emergency entries under each "
           "of the three reasons (guards evaluated under constant substitution); R-ITERMUT/R-ALL scans. Decides these "
           "necessary conditions on all paths, not equivalence with the spec table over histories.")
FT = 'openflow.flow_table'

LOFM = 'openflow.libopenflow_01'
SWM = 'datapaths.switch'

def run (ctx):
  ctx.explanation = EXPLAIN
  ctx.assumptions = ["handler tables built by naming convention (shape re-checked)", "assert statements execute"]
  repo = ctx.repo; spec = ofreg.spec()
  sw = switchq.switch_class(repo); swmod = sw.module
  conv = switchq.convention_tables(repo)
  te = repo.cls(FT, 'TableEntry'); ft = repo.cls(FT, 'FlowTable'); ftmod = ft.module

  # ---- D1 ------------------------------------------------------------------
  cmds = {}
  for cname in spec['ofp_flow_mod_command']:
    v = ofreg.const_value(repo, swmod, cname)
    ctx.ob('R-REG', swmod.short + ':' + cname, "command constant value", v == spec['ofp_flow_mod_command'][cname],
           "%s = %s" % (cname, v), sw, 'D1')
    h, hname = switchq.handler_for(sw, '_flow_mod_', conv['_flow_mod_'], cname)
    ctx.ob('R-REG', sw.qual, "handler for %s" % cname, h is not None,
           "%s" % hname if h else "no method %s: %s is answered with BAD_COMMAND although the spec requires it" % (hname, cname), sw, 'D1')
    if h: cmds[cname] = h; ctx.analysed(h)
  ctx.floor('flow-mod command handlers', len(cmds), 5)
  rx = q.find_method(repo, sw, '_rx_flow_mod', 'C04'); ctx.analysed(rx)
  g = q.cfg_of(rx)
  # unknown command: under `handler is None`: one send_error(FLOW_MOD_FAILED, BAD_COMMAND) and return
  errs = g.nodes_with_call(switchq.is_send_error)
  okerr = False
  for e in errs:
    c = [c for c in q.node_calls(e) if switchq.is_send_error(c)][0]
    if norm(kwarg(c, 'type', 0)) == 'OFPET_FLOW_MOD_FAILED' and norm(kwarg(c, 'code', 1)) == 'OFPFMFC_BAD_COMMAND':
      facts = q.fact_strs(g, e)
      # nothing else happens: no further (non-logging) call is reachable from the error send
      after_ = [n for n in g.reachable(e, exc=False) if n is not e and any(not (isinstance(c_.func, ast.Attribute) and ('log' in norm(c_.func.value))) for c_ in q.node_calls(n))]
      ret_after = not after_
      okerr = any(f.endswith('is None') for f in facts) and ret_after
  ctx.ob('R-EFFECT', rx, "unknown command answered with FLOW_MOD_FAILED/BAD_COMMAND and nothing else happens", okerr,
         "error under `handler is None`, followed by return" if okerr else "the unknown-command path no longer sends BAD_COMMAND and returns", rx, 'D1')
  # the handler is dispatched on ofp.command
  disp = [c for c in calls_in(rx.node) if call_name(c) == 'get' and 'flow_mod_handlers' in norm(c.func)]
  good = bool(disp) and norm(disp[0].args[0]) == rx.params[1] + '.command'
  ctx.ob('R-AGREE', rx, "dispatch key is the message's command", good, "flow_mod_handlers.get(%s.command)" % rx.params[1] if good else "dispatch key is %s" % (norm(disp[0].args[0]) if disp else None), rx, 'D1')
  for f in [rx] + list(cmds.values()):
    for nm, node in defs.undefined_names(repo, f):
      ctx.bad('R-DEF', f, "undefined name `%s`" % nm, "NameError on this path instead of the specified behaviour", (f.module, node), 'D1')
    for nm, node, path in defs.use_before_def(f):
      ctx.bad('R-DEF', f, "local `%s` used before assignment" % nm, "feasible path %s" % path, (f.module, node), 'D1')

  # ---- D2 _flow_mod_add ----------------------------------------------------
  add = cmds.get('OFPFC_ADD')
  if add is not None:
    g = q.cfg_of(add)
    mut = g.nodes_with_call(lambda c: call_name(c) in ('add_entry', 'remove_matching_entries', 'remove_entry', '_remove_specific_entries'))
    adds = g.nodes_with_call(lambda c: call_name(c) == 'add_entry')
    rems = g.nodes_with_call(lambda c: call_name(c) == 'remove_matching_entries')
    ovl = g.nodes_with_call(lambda c: call_name(c) == 'check_for_overlapping_entry')
    ctx.floor('add_entry sites in ADD', len(adds), 1)
    after_mut = set()
    for m in mut: after_mut |= g.reachable(m)
    for o in ovl:
      good = o not in after_mut
      ctx.ob('R-ORDER', add, "overlap check precedes any table mutation", good,
             "check_for_overlapping_entry is not reachable from a mutation" if good else "the overlap check runs after the table was already modified", (swmod, o.ast), 'D2')
      # only when the flag is set
      fs = q.fact_strs(g, o)
      good = any('OFPFF_CHECK_OVERLAP' in f and f.endswith(':truthy') for f in fs)
      ctx.ob('R-DOM', add, "overlap check only when CHECK_OVERLAP is set", good, "guarded by the flag" if good else "facts %s" % fs, (swmod, o.ast), 'D2')
    if not ovl: ctx.bad('R-ORDER', add, "overlap check present", "ADD no longer checks for overlapping entries when CHECK_OVERLAP is set", add, 'D2')
    for e in g.nodes_with_call(switchq.is_send_error):
      c = [c for c in q.node_calls(e) if switchq.is_send_error(c)][0]
      code = norm(kwarg(c, 'code', 1))
      if code in ('OFPFMFC_OVERLAP', 'OFPFMFC_BAD_EMERG_TIMEOUT', 'OFPFMFC_EPERM'):
        good = e not in after_mut
        ctx.ob('R-ORDER', add, "rejection %s precedes any table mutation" % code, good,
               "error path is not reachable from a mutation" if good else "the flow-mod is rejected with %s after the table was already modified" % code, (swmod, e.ast), 'D2')
      # every error is followed by return without add
      good = not any(a in g.reachable(e) for a in adds)
      ctx.ob('R-ORDER', add, "rejected flow-mod (%s) installs nothing" % code, good,
             "no add_entry after the error" if good else "add_entry is reachable after the error reply %s" % code, (swmod, e.ast), 'D2')
    # replace on ADD
    for a in adds:
      fb = [b for b in g.nodes if b.kind == 'branch' and norm(b.label[0]) in ('flow_mod.command == OFPFC_ADD', 'OFPFC_ADD == flow_mod.command') and b.label[1] is False]
      r = g.reachable(g.entry, avoid=set(rems) | set(fb))
      good = bool(rems) and a not in r
      ctx.ob('R-ORDER', add, "identical (match, priority) entry is removed before the insert for OFPFC_ADD", good,
             "every path to add_entry with command==ADD passes the strict removal" if good else
             "add_entry is reachable for an ADD without first removing the entry with identical match and priority: the table ends up with duplicates instead of a replacement", (swmod, a.ast), 'D2')
      facts = q.guard_facts(g, a)
      cap = any(r_ is not None and norm(l) == 'len(table)' and o == '<' and norm(r_) == 'self.max_entries' for l, o, r_, b in facts)
      ctx.ob('R-DOM', add, "insert only below table capacity", cap, "add_entry dominated by len(table) < self.max_entries" if cap else "facts: %s" % q.fact_strs(g, a), (swmod, a.ast), 'D2')
    switchq.capacity_after_removal(ctx, repo, sw, 'D2')
    rme = ft.find_method('remove_matching_entries')
    TOK = {'flow_mod.match': '<match>', 'flow_mod.priority': '<priority>'}
    for rn in rems:
      c = [c for c in q.node_calls(rn) if call_name(c) == 'remove_matching_entries'][0]
      vals = {}
      for nm, pos in (('match', 0), ('priority', 1), ('strict', 2), ('reason', 4)):
        e_ = q.effective_arg(c, rme, nm, pos)
        vals[nm] = q.values_at(repo, swmod, g, q.Env(dict(TOK)), rn, e_, sw) if e_ is not None else {None}
      good = vals['strict'] == {True} and vals['priority'] == {'<priority>'} and vals['match'] == {'<match>'}
      ctx.ob('R-AGREE', add, "replacement removes exactly the identical entry (strict, same match and priority)", good,
             norm(c) if good else "replace-on-ADD calls %s (match=%s priority=%s strict=%s): not a strict removal of the new entry's own match and priority" % (
               norm(c), sorted(map(str, vals['match'])), sorted(map(str, vals['priority'])), sorted(map(str, vals['strict']))), (swmod, c), 'D2')
      good = vals['reason'] == {None}
      ctx.ob('R-AGREE', add, "replacement yields no flow-removed (no reason passed)", good, "effective reason None" if good else
             "replace-on-ADD removes the old entry with reason %s (explicitly or through remove_matching_entries' default): the replaced entry generates a spurious flow_removed" % sorted(map(str, vals['reason'])), (swmod, c), 'D2')

  # ---- D3 ------------------------------------------------------------------
  for strict_name, base_name in (('OFPFC_MODIFY_STRICT', 'OFPFC_MODIFY'), ('OFPFC_DELETE_STRICT', 'OFPFC_DELETE')):
    f = cmds.get(strict_name); b = cmds.get(base_name)
    if f is None or b is None: continue
    cs = [c for c in calls_in(f.node) if call_name(c) == b.name]
    good = len(cs) == 1 and norm(kwarg(cs[0], 'strict', 3)) == 'True' and q.cfg_of(f).interval(lambda n: any(call_name(c) == b.name for c in q.node_calls(n))) == (1, 1)
    ctx.ob('R-AGREE', f, "%s delegates with strict=True" % strict_name, good, norm(cs[0]) if cs else "no delegation", f, 'D3')
    dflt = [d for a, d in zip(reversed(b.node.args.args), reversed(b.node.args.defaults)) if a.arg == 'strict']
    good = bool(dflt) and norm(dflt[0]) == 'False'
    ctx.ob('R-AGREE', b, "%s is non-strict by default" % base_name, good, "strict=False default" if good else "default strict=%s" % (norm(dflt[0]) if dflt else None), b, 'D3')
  dl = cmds.get('OFPFC_DELETE')
  if dl is not None:
    cs = [c for c in calls_in(dl.node) if call_name(c) == 'remove_matching_entries']
    ctx.floor('delete removal call', len(cs), 1)
    g = q.cfg_of(dl)
    rme = ft.find_method('remove_matching_entries')
    rr_delete = repo.try_const(swmod, ast.Name(id='OFPRR_DELETE', ctx=ast.Load()), sw)
    none_port = repo.try_const(swmod, ast.Name(id='OFPP_NONE', ctx=ast.Load()), sw)
    for c in cs:
      cn = q.enclosing_stmt_node(g, c)
      def val (nm, pos, extra):
        e_ = q.effective_arg(c, rme, nm, pos)
        if e_ is None: return {None}
        env_ = {'flow_mod.match': '<match>', 'flow_mod.priority': '<priority>', 'strict': '<strict>'}; env_.update(extra)
        return q.values_at(repo, swmod, g, q.Env(env_), cn, e_, sw)
      some = {'flow_mod.out_port': 7}; none = {'flow_mod.out_port': none_port}
      good = val('match', 0, some) == {'<match>'} and val('priority', 1, some) == {'<priority>'} and val('strict', 2, some) == {'<strict>'} and val('reason', 4, some) == {rr_delete}
      ctx.ob('R-AGREE', dl, "delete passes match, priority, strict, out_port and reason DELETE", good, norm(c) if good else
             "delete calls %s: effective match=%s priority=%s strict=%s reason=%s (DELETE is %s)" % (norm(c), *[sorted(map(str, val(n_, p_, some))) for n_, p_ in (('match', 0), ('priority', 1), ('strict', 2), ('reason', 4))], rr_delete), (swmod, c), 'D3')
      a_, b_ = val('out_port', 3, some), val('out_port', 3, none)
      good = a_ == {7} and b_ == {None}
      ctx.ob('R-AGREE', dl, "out_port filter taken from the message, OFPP_NONE meaning no filter", good,
             "out_port=7 -> filter 7; OFPP_NONE -> no filter" if good else
             "with flow_mod.out_port = 7 the removal filters on %s, with OFPP_NONE on %s (expected 7 and None)" % (sorted(map(str, a_)), sorted(map(str, b_))), (swmod, c), 'D3')
  md = cmds.get('OFPFC_MODIFY')
  if md is not None:
    g = q.cfg_of(md)
    def selects (test):
      """is `test` the call X.is_matched_by(match, priority, strict) with the message's values?"""
      if not (isinstance(test, ast.Call) and call_name(test) == 'is_matched_by'): return False
      m_ = kwarg(test, 'match', 0); p_ = kwarg(test, 'priority', 1); s_ = kwarg(test, 'strict', 2)
      return m_ is not None and norm(m_) in ('match', 'flow_mod.match') and p_ is not None and norm(p_) in ('priority', 'flow_mod.priority') and s_ is not None and norm(s_) == 'strict'
    coll = [L_ for L_ in q.collected_lists(md) if any(p and selects(t) for t, p in L_.conds) and norm(L_.elt) == norm(L_.var)]
    coll_names = dict((L_.name, L_) for L_ in coll)
    # the table's own selection API: X = table.matching_entries(<match>, priority=<priority>, strict=strict)
    for t, v, st, k in q.stores_in(md.node, nested=False):
      if isinstance(t, ast.Name) and isinstance(v, ast.Call) and call_name(v) == 'matching_entries' and norm(v.func.value) in ('table', 'self.table'):
        m_ = kwarg(v, 'match', 0); p_ = kwarg(v, 'priority', 1); s_ = kwarg(v, 'strict', 2); o_ = kwarg(v, 'out_port', 3)
        if m_ is not None and norm(m_) in ('match', 'flow_mod.match') and p_ is not None and norm(p_) in ('priority', 'flow_mod.priority') and s_ is not None and norm(s_) == 'strict' and (o_ is None or norm(o_) == 'None'):
          coll_names[t.id] = q.Collected(t.id, ast.Name(id='entry', ctx=ast.Load()), ast.parse('table.entries', mode='eval').body, ast.Name(id='entry', ctx=ast.Load()), [], st, 'api', q.enclosing_stmt_node(g, st))
    coll = list(coll_names.values())
    addc = g.nodes_with_call(lambda c: call_name(c) == '_flow_mod_add')
    acts = [st for t, v, st, k in q.stores_in(md.node) if isinstance(t, ast.Attribute) and t.attr == 'actions']
    flagnames = set()
    for a in acts:
      an = q.enclosing_stmt_node(g, a)
      for t, v, st, k in q.stores_in(md.node):
        # the record: a flag set to True, or a counter stepped by a positive constant
        if isinstance(t, ast.Name) and ((isinstance(v, ast.Constant) and v.value is True) or
                                        (k == 'augassign' and isinstance(getattr(st, 'op', None), ast.Add) and isinstance(v, ast.Constant) and isinstance(v.value, int) and v.value > 0)):
          fn_ = q.enclosing_stmt_node(g, st)
          if fn_ is not None and an is not None and (g.postdominates(fn_, an) or g.dominates(fn_, an)): flagnames.add(t.id)
    # the update loop may live in the table class: `n = table.<method>(match, actions, priority=.., strict=..)` where that method counts (or
    # flags) exactly the entries selected by is_matched_by(<its match>, <its priority>, <its strict>) and rewrites their actions
    summary_callee = []
    def counts_matches (callee):
      gc_ = q.cfg_of(callee); ps_ = callee.params
      rets_ = [r_ for r_ in q.returns_of(callee.node) if r_.value is not None]
      if len(rets_) != 1 or not isinstance(rets_[0].value, ast.Name): return False
      rn_ = rets_[0].value.id
      ds_ = q.reaching_assign(callee.node, rn_)
      init_ = [v_ for v_, st_, k_ in ds_ if k_ == 'assign']
      steps_ = [st_ for v_, st_, k_ in ds_ if k_ != 'assign'] + [st_ for v_, st_, k_ in ds_ if k_ == 'assign' and isinstance(v_, ast.Constant) and v_.value is True]
      if not init_ or not any(isinstance(v_, ast.Constant) and v_.value in (0, False) for v_ in init_) or not steps_: return False
      for st_ in steps_:
        n_ = q.enclosing_stmt_node(gc_, st_)
        if n_ is None or not any('is_matched_by(' in f_ and f_.endswith(':truthy') for f_ in q.fact_strs(gc_, n_)): return False
      acts_ = [st_ for t_, v_, st_, k_ in q.stores_in(callee.node) if isinstance(t_, ast.Attribute) and t_.attr == 'actions']
      return bool(acts_) and all(any('is_matched_by(' in f_ and f_.endswith(':truthy') for f_ in q.fact_strs(gc_, q.enclosing_stmt_node(gc_, st_))) for st_ in acts_ if q.enclosing_stmt_node(gc_, st_) is not None)
    for t, v, st, k in q.stores_in(md.node, nested=False):
      if isinstance(t, ast.Name) and isinstance(v, ast.Call) and isinstance(v.func, ast.Attribute) and norm(v.func.value) in ('table', 'self.table'):
        callee = ft.find_method(call_name(v))
        if callee is not None and call_name(v) not in ('matching_entries',) and counts_matches(callee):
          args_ = [norm(a_) for a_ in v.args] + [norm(k_.value) for k_ in v.keywords]
          if any(a_ in ('match', 'flow_mod.match') for a_ in args_) and any(a_ in ('priority', 'flow_mod.priority') for a_ in args_) and 'strict' in args_: flagnames.add(t.id); summary_callee.append(callee)
    for a in addc:
      fs = q.fact_strs(g, a)
      good = any(f == nm + ':falsy' for nm in flagnames | set(coll_names) for f in fs) or any(f in ('len(%s) == 0' % nm for nm in coll_names) for f in fs) or \
             any(f in ('%s == 0' % nm, '%s < 1' % nm, '%s <= 0' % nm) for nm in flagnames for f in fs)
      ctx.ob('R-DOM', md, "modify acts as add only when no entry matched", good, "dominated by `not <modified / selected entries>`" if good else "facts %s" % fs, (swmod, a.ast), 'D3')
    ctx.floor('modify: action replacement sites', len(acts) + len(summary_callee), 1)
    for a in acts:
      an = q.enclosing_stmt_node(g, a)
      guards = [(t, p) for t, p, b_ in g.guards(an) if not isinstance(t, (ast.For, ast.AsyncFor))]
      direct = any(p and selects(t) for t, p in guards)
      via = None
      for (st, h, af) in g.loop_nodes:
        if isinstance(st, ast.For) and an in g.loop_body_nodes(h) and isinstance(st.iter, ast.Name) and st.iter.id in coll_names and norm(st.target) == norm(a.targets[0].value): via = coll_names[st.iter.id]
      good = direct or via is not None
      ctx.ob('R-DOM', md, "actions replaced only on entries the match selects (with priority and strictness)", good,
             "guarded by is_matched_by(match, priority, strict)" if direct else ("applied to the entries collected under is_matched_by(...)" if via else "facts %s" % q.fact_strs(g, an)), (swmod, a), 'D3')
      good = norm(a.value) == 'flow_mod.actions'
      ctx.ob('R-AGREE', md, "modified entries get the message's actions", good, norm(a), (swmod, a), 'D3')
      good = via is not None or bool(flagnames)
      ctx.ob('R-ORDER', md, "a modification is recorded whenever an entry was modified", good, "recorded on the same path / by the collected list" if good else "entry.actions is replaced without recording it: the flow-mod would additionally be treated as an ADD", (swmod, a), 'D3')
    scans = 0
    for (st, h, af) in g.loop_nodes:
      if isinstance(st, ast.For) and isinstance(st.iter, ast.Name) and st.iter.id in coll_names:
        body = g.loop_body_nodes(h)
        early = [n for n in body if n.kind in ('break', 'return')]
        ctx.ob('R-ALL', md, "every selected entry is modified", not early, "no break/return" if not early else "the apply loop leaves early at line %s" % early[0].line, (swmod, st), 'D7')
        continue
      scans += 1
      body = g.loop_body_nodes(h)
      early = [n for n in body if n.kind in ('break', 'return')]
      ctx.ob('R-ALL', md, "modify visits every entry", not early, "no break/return in the scan" if not early else "scan leaves early at line %s: later matching entries keep their old actions" % early[0].line, (swmod, st), 'D7')
      good = norm(st.iter) in ('table.entries', 'table._table')
      ctx.ob('R-AGREE', md, "modify scans the whole table", good, norm(st.iter), (swmod, st), 'D7')
    for L_ in coll:
      scans += 1
      good = norm(L_.it) in ('table.entries', 'table._table')
      ctx.ob('R-AGREE', md, "modify scans the whole table", good, norm(L_.it), (swmod, L_.site), 'D7')
    for callee in summary_callee:
      # the loop lives in the table class: it walks the table's own list
      for st_ in [x_ for x_ in ast.walk(callee.node) if isinstance(x_, ast.For)]:
        scans += 1
        good = norm(st_.iter) in ('self._table', 'self.entries')
        ctx.ob('R-AGREE', callee, "modify scans the whole table", good, norm(st_.iter), (callee.module, st_), 'D7')
    ctx.floor('modify: table scans', scans, 1)

  # ---- overlap scan: an early exit from a scan of the sorted table may only be decided on the sort key ----------
  cfo = ft.find_method('check_for_overlapping_entry')
  if cfo is not None:
    ctx.analysed(cfo); g = q.cfg_of(cfo)
    for (st, h, af) in g.loop_nodes:
      if not (isinstance(st, ast.For) and norm(st.iter) == 'self._table'): continue
      lv = norm(st.target)
      for n in g.nodes:
        if n.kind != 'break' or not any(x is af for x, l_ in n.succ): continue
        for l, o, r, b_ in q.guard_facts(g, n):
          if r is None or not g.dominates(h, b_): continue
          sides = [x for x in (l, r) if isinstance(x, ast.Attribute) and norm(x.value) == lv]
          for x in sides:
            good = x.attr == 'effective_priority'
            ctx.ob('R-AGREE', cfo, "the overlap scan stops early only on the table's sort key", good, "break under %s %s %s" % (norm(l), o, norm(r)) if good else
                   "the scan of the table (sorted by descending effective_priority) is abandoned on `%s %s %s`: an exact-match entry sits at the head whatever its priority field, "
                   "so the scan can stop before reaching an overlapping wildcarded entry - CHECK_OVERLAP adds are installed instead of rejected" % (norm(l), o, norm(r)), (ftmod, n.ast), 'D2')
  # ---- is_matched_by -------------------------------------------------------
  imb = q.find_method(repo, te, 'is_matched_by', 'C04'); ctx.analysed(imb)
  g = q.cfg_of(imb)
  taint = switchq.tainted_locals(imb.node, ['out_port'])
  for t, v, st, k in q.stores_in(imb.node, nested=False):     # lambdas closing over out_port
    if isinstance(t, ast.Name) and isinstance(v, ast.Lambda) and (q.names_in(v.body) & taint): taint.add(t.id)
  taint = switchq.tainted_locals(imb.node, taint)
  pbranches = [b for b in g.nodes if b.kind == 'branch' and not isinstance(b.label[0], (ast.For, ast.AsyncFor)) and (q.names_in(b.label[0]) & taint)]
  rets = [r for r in q.returns_of(imb.node) if not (isinstance(r.value, ast.Constant) and r.value.value in (False, None))]
  ctx.floor('is_matched_by result sites', len(rets), 1)
  for r in rets:
    rn = q.enclosing_stmt_node(g, r)
    in_value = bool(q.names_in(r.value) & taint)
    by_path = rn not in g.reachable(g.entry, avoid=pbranches)
    good = in_value or by_path
    ctx.ob('R-ALL', imb, "out_port filter applies to result `%s`" % norm(r.value)[:60], good,
           "result depends on the out_port test (%s)" % ("in the value" if in_value else "every path to it branches on it") if good else
           "this result is reachable without any test of the out_port filter and does not mention it: a DELETE/stats request "
           "restricted to an output port also selects entries that do not output there", (ftmod, r), 'D7')
    strict_br = 'strict:truthy' in q.fact_strs(g, rn)
    txt = norm(r.value)
    if strict_br:
      good = 'self.match == match' in txt and 'self.priority == priority' in txt
      ctx.ob('R-AGREE', imb, "strict matching compares match and priority for equality", good, txt, (ftmod, r), 'D3')
    elif 'strict:falsy' in q.fact_strs(g, rn):
      good = 'match.matches_with_wildcards(self.match)' in txt
      ctx.ob('R-AGREE', imb, "non-strict matching: the given match subsumes the entry's", good, txt if good else "non-strict branch returns `%s` (direction or call changed)" % txt, (ftmod, r), 'D3')

  # subsumption is reflexive: a non-strict command carrying the very match an entry was installed with affects that entry.  The
  # field-wise comparison decides IP prefixes with IPAddr.inNetwork, which compares the masked candidate with the *unmasked*
  # network address - so a prefix written with host bits set (10.1.2.3/24) is not in "itself"; the equality shortcut at the top
  # of matches_with_wildcards is what makes identical matches subsume each other
  mww = repo.cls(LOFM, 'ofp_match').methods.get('matches_with_wildcards') if repo.has_func(LOFM + ':ofp_match.matches_with_wildcards') else None
  if mww is None: raise AnalysisError("ofp_match.matches_with_wildcards vanished")
  ctx.analysed(mww); gm_ = q.cfg_of(mww)
  netcalls = gm_.nodes_with_call(lambda c: call_name(c) in ('inNetwork', 'in_network'))
  other_ = mww.params[1] if len(mww.params) > 1 else 'other'
  short = [n_ for n_ in gm_.nodes if n_.kind == 'return' and isinstance(n_.ast.value, ast.Constant) and n_.ast.value.value is True
           and any(f_ in ('self == %s' % other_, '%s == self' % other_) for f_ in q.fact_strs(gm_, n_)) and n_ in gm_.reachable(gm_.entry, avoid=netcalls, exc=False)]
  masked = False
  try:
    inn = repo.cls('lib.addresses', 'IPAddr').methods.get('inNetwork')
    for r_ in q.returns_of(inn.node):
      if isinstance(r_.value, ast.Compare) and any(isinstance(x_, ast.BinOp) and isinstance(x_.op, ast.BitAnd) for x_ in ast.walk(r_.value.comparators[0])): masked = True
  except Exception: inn = None
  if netcalls:
    good = bool(short) or masked
    ctx.ob('R-AGREE', mww, "a match subsumes an identical match (also one whose prefix has host bits set)", good,
           "equality shortcut before the prefix comparison" if short else "inNetwork masks the network address" if masked else
           "matches_with_wildcards no longer returns True up front for `self == %s`, and the prefix test it falls back on (IPAddr.inNetwork) compares with the unmasked network address: an entry installed with nw_src 10.1.2.3/24 is not "
           "subsumed by the identical match - a non-strict DELETE / MODIFY / stats request / overlap check with that match misses it" % other_, mww, 'D3')
  # what is_matched_by / expiry consult must be the entry's current state, not a copy made at construction
  # the ordering every comparison of entries rests on (sorted insert, overlap check, lookup): shared with C03
  from . import c03
  c03.effective_priority_rule(ctx, repo, 'D2')
  stale = q.stale_derived_state(repo, te, [ftmod, swmod])
  for X, P, ist, (m_, f_, st_) in stale:
    ctx.bad('R-OWN', te, "state derived from `%s` at construction stays in step with it" % P,
            "TableEntry.__init__ keeps `%s`, computed from `%s`; %s replaces `.%s` (`%s`) without recomputing it: filters and reports that consult `%s` "
            "(out_port matching, statistics) keep answering for the entry's old %s after a MODIFY" % (X, P, f_.qual, P, norm(st_)[:60], X, P), (m_, st_), 'D7')
  if not stale:
    ctx.ob('R-OWN', te, "no attribute of an entry is a construction-time copy of a replaceable one", True, "none", te, 'D7')
  # the table's query helpers hand back containers: a caller that asks "did anything match?" (MODIFY acting as ADD, the
  # statistics handlers) gets a wrong answer from a one-shot iterator, which is always true and empty after one pass
  gm, nlazy = q.generator_misuse(repo, [ftmod, swmod])
  for callee_, caller_, m_, node_, how_ in gm:
    ctx.bad('R-BYTES', caller_, "the result of %s is used as a container (%s)" % (callee_.name, how_),
            "%s returns a generator expression, and %s applies %s to it: a generator object is true even when it yields nothing and is exhausted by its first loop - "
            "e.g. a MODIFY that matches no entry no longer acts as an ADD" % (callee_.qual, caller_.qual, how_), (m_, node_), 'D3')
  if not gm: ctx.ok('R-BYTES', ft, "query results tested for emptiness / measured / re-iterated are containers", "%d lazily returning helper(s), none misused" % nlazy, ft, 'D3')
  # the switch's handler for table modifications stays subscribed: revent unsubscribes a handler that returns False (or a tuple
  # asking for removal) - after that no removal ever yields a flow-removed message
  hft = repo.cls(SWM, 'SoftwareSwitchBase').methods.get('_handle_FlowTableModification') if repo.has_func(SWM + ':SoftwareSwitchBase._handle_FlowTableModification') else None
  if hft is not None:
    ctx.analysed(hft)
    badr = [r_ for r_ in q.returns_of(hft.node) if r_.value is not None and not (isinstance(r_.value, ast.Constant) and r_.value.value is None)]
    ctx.ob('R-EFFECT', hft, "the table-modification handler never asks revent to unsubscribe it", not badr, "returns nothing" if not badr else
           "`%s`: a handler that returns False (or an EventRemove-style value) is removed from the source's listener list by raiseEvent - from then on entries that requested notification are removed without any flow-removed message"
           % norm(badr[0])[:50], (hft.module, badr[0]) if badr else hft, 'D4')
  # ---- D4 notification -----------------------------------------------------
  removal_routines = []
  for name in ('remove_entry', '_remove_specific_entries'):
    f = q.find_method(repo, ft, name, 'C04'); ctx.analysed(f); removal_routines.append(f)
    g = q.cfg_of(f)
    raises = g.nodes_with_call(lambda c: call_name(c) == 'raiseEvent' and c.args and isinstance(c.args[0], ast.Call) and call_name(c.args[0]) == 'FlowTableModification')
    dels = [q.enclosing_stmt_node(g, s) for k, s in q.mutations_of_attr(f.node, '_table')]
    iv = g.interval(lambda n: n in raises)
    if name == 'remove_entry':
      good = iv == (1, 1)
    else:
      tb = [b for b in g.nodes if b.kind == 'branch' and norm(b.label[0]) == f.params[1] and b.label[1] is True]
      iv2 = g.interval(lambda n: n in raises, start=tb[0]) if tb else None
      good = iv is not None and iv[1] <= 1 and iv2 == (1, 1)
    ctx.ob('R-EFFECT', f, "removal announced exactly once", good, "FlowTableModification raised once per (non-empty) removal" if good else "raise count %s" % (iv,), f, 'D4')
    for rn in raises:
      c = [c for c in q.node_calls(rn) if call_name(c) == 'raiseEvent'][0].args[0]
      rem = kwarg(c, 'removed'); rs = kwarg(c, 'reason')
      p1 = f.params[1]
      good = rem is not None and norm(rem) in (p1, '[%s]' % p1) and rs is not None and norm(rs) == 'reason'
      ctx.ob('R-AGREE', f, "announcement carries the removed entries and the caller's reason", good, norm(c) if good else "announcement is %s" % norm(c), (ftmod, c), 'D4')
      good = all(d is not None and (g.dominates(d, rn) or d in g.reachable(g.entry)) for d in dels) and any(g.dominates(d, rn) or _in_loop_before(g, d, rn) for d in dels if d is not None)
      ctx.ob('R-ORDER', f, "entries are out of the table when the removal is announced", good, "deletion precedes the event" if good else "event raised before the table is updated", (ftmod, c), 'D4')
  # who creates flow_removed
  nh = q.find_method(repo, sw, '_handle_FlowTableModification', 'C04'); ctx.analysed(nh)
  creators = []
  for m in repo.modules.values():
    if 'ofp_flow_removed' not in m.src and 'to_flow_removed' not in m.src: continue
    for cls in m.classes.values():
      for f in cls.methods.values():
        for c in calls_in(f.node, nested=True):
          if call_name(c) == 'ofp_flow_removed': creators.append(('ctor', f, c))
          if call_name(c) == 'to_flow_removed': creators.append(('call', f, c))
    for f in m.funcs.values():
      for c in calls_in(f.node, nested=True):
        if call_name(c) == 'ofp_flow_removed': creators.append(('ctor', f, c))
        if call_name(c) == 'to_flow_removed': creators.append(('call', f, c))
  for kind, f, c in creators:
    if f.module.name.startswith('pox.openflow.libopenflow') or f.module.name.endswith('.nicira'): continue
    if kind == 'ctor':
      good = f.qual == te.qual.replace(':', ':') + '.to_flow_removed' or (f.cls is te and f.name == 'to_flow_removed')
      in_dp = f.module is ftmod or f.module is swmod or f.module.name.startswith('pox.datapaths')
      if not in_dp: continue      # controller-side code may build test messages; only the datapath sends them
      ctx.ob('R-OWN', f, "flow_removed objects are built only by TableEntry.to_flow_removed", good, "builder" if good else "%s builds an ofp_flow_removed: a second source of flow-removed messages" % f.qual, (f.module, c), 'D4')
    else:
      in_dp = f.module is ftmod or f.module is swmod or f.module.name.startswith('pox.datapaths')
      if not in_dp: continue
      good = f.cls is not None and f.name == '_handle_FlowTableModification'
      ctx.ob('R-OWN', f, "flow_removed is produced only by the table-modification handler", good, "notification handler" if good else "%s produces a flow_removed outside the notification handler: removals could be announced twice or without the flag checks" % f.qual, (f.module, c), 'D4')
  g = q.cfg_of(nh)
  sends = g.nodes_with_call(switchq.is_send)
  ctx.floor('flow_removed send site', len(sends), 1)
  ev = nh.params[1]
  for s in sends:
    # decided by evaluating the guards for every combination of the two entry flags (reason = DELETE)
    sfr = ofreg.const_value(repo, swmod, 'OFPFF_SEND_FLOW_REM'); emg = ofreg.const_value(repo, swmod, 'OFPFF_EMERG'); rdel = ofreg.const_value(repo, swmod, 'OFPRR_DELETE')
    res = {}
    for a_ in (0, 1):
      for b_ in (0, 1):
        fl = (sfr if a_ else 0) | (emg if b_ else 0) | 2     # some unrelated bit set as well
        ms = [((lambda e: isinstance(e, ast.Attribute) and e.attr == 'flags'), fl),
              ((lambda e: isinstance(e, ast.Attribute) and e.attr == 'reason'), rdel),
              ((lambda e: isinstance(e, ast.Attribute) and e.attr == 'removed'), ['<entry>'])]
        res[(a_, b_)] = s in q.reach_under(repo, swmod, g, q.Env({}, ms), sw)
    good = not res[(0, 0)] and not res[(0, 1)]
    ctx.ob('R-DOM', nh, "flow_removed only for entries that requested notification", good, "send unreachable without OFPFF_SEND_FLOW_REM" if good else
           "the send is reachable for an entry whose flags lack OFPFF_SEND_FLOW_REM (flags evaluated: %s)" % res, (swmod, s.ast), 'D4')
    good = not res[(1, 1)]
    ctx.ob('R-DOM', nh, "no flow_removed for emergency entries", good, "send unreachable with OFPFF_EMERG" if good else "an emergency entry with SEND_FLOW_REM produces a flow_removed", (swmod, s.ast), 'D4')
    ctx.ob('R-DOM', nh, "an entry that requested notification gets it", res[(1, 0)], "send reachable with SEND_FLOW_REM and not EMERG" if res[(1, 0)] else
           "with OFPFF_SEND_FLOW_REM set (and not EMERG) the send is unreachable: the controller is never told", (swmod, s.ast), 'D4')
    for rname in ('OFPRR_IDLE_TIMEOUT', 'OFPRR_HARD_TIMEOUT', 'OFPRR_DELETE'):
      rv = ofreg.const_value(repo, swmod, rname)
      env = {ev + '.reason': rv, ev + '.removed': ['<entry>']}
      good = q.reachable_under(repo, swmod, g, s, env, sw)
      ctx.ob('R-DOM', nh, "flow_removed is sent for removals with reason %s" % rname, good,
             "send reachable with reason=%s (%s)" % (rname, rv) if good else
             "with event.reason = %s (= %s) a dominating guard of the send evaluates the wrong way: entries removed for this reason never produce their flow-removed message" % (rname, rv), (swmod, s.ast), 'D4')
    good = not q.reachable_under(repo, swmod, g, s, {ev + '.reason': None, ev + '.removed': ['<entry>']}, sw)
    ctx.ob('R-DOM', nh, "no flow_removed for removals without a reason (replacement on ADD)", good, "send unreachable with reason=None" if good else "a removal with reason None (replace-on-ADD) would also send flow_removed", (swmod, s.ast), 'D4')
  for c in calls_in(nh.node):
    if call_name(c) == 'to_flow_removed':
      good = norm(kwarg(c, 'reason', 1)) == ev + '.reason'
      ctx.ob('R-AGREE', nh, "flow_removed carries the removal's reason", good, norm(c), (swmod, c), 'D4')
  for (st, h, af) in g.loop_nodes:
    body = g.loop_body_nodes(h)
    early = [n for n in body if n.kind in ('break', 'return')]
    ctx.ob('R-ALL', nh, "every removed entry is considered for notification", not early and norm(st.iter) == ev + '.removed', "loop over %s without early exit" % norm(st.iter), (swmod, st), 'D7')
    per = g.interval(lambda n: n in sends, start=[b for b in g.nodes if b.kind == 'branch' and b.label[0] is st and b.label[1] is True][0], stop=h)
    ctx.ob('R-EFFECT', nh, "at most one flow_removed per removed entry", per is not None and per[1] <= 1, "per-iteration send count %s" % (per,), (swmod, st), 'D4')
  tfr = q.find_method(repo, te, 'to_flow_removed', 'C04'); ctx.analysed(tfr)
  want = {'match': 'self.match', 'cookie': 'self.cookie', 'priority': 'self.priority', 'reason': 'reason', 'idle_timeout': 'self.idle_timeout',
          'packet_count': 'self.packet_count', 'byte_count': 'self.byte_count'}
  got = {}
  for t, v, st, k in q.stores_in(tfr.node):
    if isinstance(t, ast.Attribute) and v is not None: got[t.attr] = norm(v)
  for c in calls_in(tfr.node):
    if call_name(c) == 'ofp_flow_removed':
      for kw_ in c.keywords: got[kw_.arg] = norm(kw_.value)
  for k_, v_ in want.items():
    ctx.ob('R-AGREE', tfr, "flow_removed.%s comes from the entry" % k_, got.get(k_) == v_, "%s = %s" % (k_, got.get(k_)), tfr, 'D4')

  # ---- D5 clocks -------------------------------------------------------------
  for fld in ('created',):
    for m in (ftmod, swmod):
      for cls in m.classes.values():
        for f in cls.methods.values():
          for t, v, st, k in q.stores_in(f.node):
            if isinstance(t, ast.Attribute) and t.attr == fld:
              good = f.cls is te and f.name == '__init__'
              ctx.ob('R-OWN', f, "hard-timeout clock `%s` is set only at creation" % fld, good, "constructor" if good else "%s rewrites the creation time: traffic or other events would postpone the hard timeout" % f.qual, (m, st), 'D5')
  tp = q.find_method(repo, te, 'touch_packet', 'C04'); ctx.analysed(tp)
  written = set(t.attr for t, v, st, k in q.stores_in(tp.node) if isinstance(t, ast.Attribute))
  ctx.ob('R-OWN', tp, "traffic refreshes only the idle clock and counters", written == {'last_touched', 'packet_count', 'byte_count'}, "writes %s" % sorted(written), tp, 'D5')
  for t, v, st, k in q.stores_in(tp.node):
    if isinstance(t, ast.Attribute) and t.attr == 'last_touched':
      ctx.ob('R-AGREE', tp, "idle clock set to the current time", norm(v) == 'now', norm(st), (ftmod, st), 'D5')
    if isinstance(t, ast.Attribute) and t.attr == 'byte_count':
      ctx.ob('R-AGREE', tp, "byte counter grows by the frame length", k == 'augassign' and isinstance(st.op, ast.Add) and norm(v) == tp.params[1], norm(st), (ftmod, st), 'D5')
    if isinstance(t, ast.Attribute) and t.attr == 'packet_count':
      ctx.ob('R-AGREE', tp, "packet counter grows by one", k == 'augassign' and isinstance(st.op, ast.Add) and norm(v) == '1', norm(st), (ftmod, st), 'D5')
  for mname, clock, tmo in (('is_idle_timed_out', 'last_touched', 'idle_timeout'), ('is_hard_timed_out', 'created', 'hard_timeout')):
    f = q.find_method(repo, te, mname, 'C04'); ctx.analysed(f)
    g = q.cfg_of(f)
    trues = [r for r in q.returns_of(f.node) if isinstance(r.value, ast.Constant) and r.value.value is True]
    others = [r for r in q.returns_of(f.node) if not isinstance(r.value, ast.Constant)]
    if others or not trues:
      # single-expression form: return tmo > 0 and now - clock > tmo
      exprs = [r.value for r in others]
      ok_ = any(_timeout_expr_ok(e, clock, tmo) for e in exprs)
      ctx.ob('R-AGREE', f, "timeout test pairs %s with %s and cannot succeed early" % (clock, tmo), ok_ if ok_ else None,
             "expression form recognised" if ok_ else "timeout test has an unrecognised shape", f, 'D5')
      continue
    for r in trues:
      rn = q.enclosing_stmt_node(g, r)
      facts = q.guard_facts(g, rn)
      enabled = any(r_ is not None and norm(l) == 'self.' + tmo and o in ('>', '!=') and norm(r_) == '0' for l, o, r_, b in facts) or \
                any(r_ is None and norm(l) == 'self.' + tmo and o == 'truthy' for l, o, r_, b in facts)
      elapsed = False; why = ''
      for l, o, r_, b in facts:
        if r_ is None: continue
        if _elapsed_cmp(l, o, r_, clock, tmo): elapsed = True
        elif (q.mentions_attr(l, clock) or q.mentions_attr(r_, clock) or q.mentions_attr(l, tmo) and q.mentions_name(l, 'now')):
          why = "%s %s %s" % (norm(l), o, norm(r_))
      ctx.ob('R-DOM', f, "a zero %s never expires the entry" % tmo, enabled, "True only under %s > 0" % tmo if enabled else "facts %s" % q.fact_strs(g, rn), (ftmod, r), 'D5')
      ctx.ob('R-AGREE', f, "expiry only once now - %s exceeds %s" % (clock, tmo), elapsed,
             "True only under (now - self.%s) > self.%s (or >=)" % (clock, tmo) if elapsed else
             "the dominating comparison is `%s`: it does not say that the time since `%s` reached `%s` - the entry can expire early or on the wrong clock" % (why or q.fact_strs(g, rn), clock, tmo), (ftmod, r), 'D5')
  ree = q.find_method(repo, ft, 'remove_expired_entries', 'C04'); ctx.analysed(ree)
  g = q.cfg_of(ree)
  pairs = {}
  for c in calls_in(ree.node):
    if call_name(c) == '_remove_specific_entries' and c.args:
      pairs[norm(c.args[0])] = norm(kwarg(c, 'reason', 1))
  lists = [L_ for L_ in q.collected_lists(ree) if L_.name in pairs or any('timed_out' in x for x in L_.cond_strs())]
  # by evaluation on a sample table (A idle-expired, B hard-expired, C both, D alive): which entries are removed with which reason
  IDLE_ = ofreg.const_value(repo, ftmod, 'OFPRR_IDLE_TIMEOUT'); HARD_ = ofreg.const_value(repo, ftmod, 'OFPRR_HARD_TIMEOUT')
  tbl_ = [q.Rec(name='A', idle=True, hard=False), q.Rec(name='B', idle=False, hard=True), q.Rec(name='C', idle=True, hard=True), q.Rec(name='D', idle=False, hard=False)]
  events_ = []
  def hook_ (call, env=None):
    nm_ = call_name(call)
    if nm_ in ('is_idle_timed_out', 'is_hard_timed_out') and isinstance(call.func, ast.Attribute):
      try: rc = q.eval_env2(repo, ftmod, call.func.value, env, ft)
      except Exception: return (False, None)
      if isinstance(rc, q.Rec): return (True, rc['idle' if 'idle' in nm_ else 'hard'])
    if nm_ == 'time' or nm_ == '_remove_specific_entries': return (True, None)
    return (False, None)
  hook_.wants_env = True
  def on_node_ (n, e):
    for c in q.node_calls(n):
      if call_name(c) == '_remove_specific_entries' and c.args:
        try:
          lst = q.eval_env2(repo, ftmod, c.args[0], e, ft); rs = q.eval_env2(repo, ftmod, kwarg(c, 'reason', 1), e, ft)
          events_.append((tuple(x['name'] for x in lst), rs))
        except Exception: events_.append('?')
  done_ = q.paths_under(repo, ftmod, g, q.Env({'self._table': tbl_, ree.params[1] if len(ree.params) > 1 else 'now': 1000.0}, [], hook_), g.entry, [g.exit], ft, limit=40, on_node=on_node_)
  evaluated = len(done_) == 1 and '?' not in events_ and bool(events_)
  if evaluated:
    want_ = [(('A', 'C'), IDLE_), (('B',), HARD_)]
    ctx.ob('R-AGREE', ree, "each expired entry is removed once, idle expiry taking precedence, with the matching reason", events_ == want_,
           "A idle, B hard, C both, D alive -> ([A, C], IDLE_TIMEOUT) then ([B], HARD_TIMEOUT)" if events_ == want_ else
           "for a table with A idle-expired, B hard-expired, C past both timeouts and D alive the sweep removes %s; expected [(A, C) with IDLE_TIMEOUT, (B) with HARD_TIMEOUT]" % (events_,), ree, 'D5')
  if not evaluated: ctx.floor('expiry lists', len(lists), 2)
  for L_ in lists:
    fs = L_.cond_strs(); lname = L_.name; c = L_.site
    idle = any('is_idle_timed_out' in f and f.endswith(':truthy') for f in fs)
    hard = any('is_hard_timed_out' in f and f.endswith(':truthy') for f in fs)
    want = 'OFPRR_IDLE_TIMEOUT' if idle else ('OFPRR_HARD_TIMEOUT' if hard else None)
    good = want is not None and pairs.get(lname) == want
    if not good and evaluated and events_ == want_:
      # the classification is not written as a guard on the append (a helper returns the reason, the sweep dispatches on it): the
      # evaluation above has walked the sweep on the four-entry sample table and seen each entry go out with its reason
      good = True; want = want or pairs.get(lname)
    ctx.ob('R-AGREE', ree, "entries expired by the %s timeout are removed with reason %s" % ('idle' if idle else 'hard', want), good,
           "list `%s` -> %s" % (lname, pairs.get(lname)) if good else "list `%s` (filled under %s) is removed with reason %s" % (lname, [f for f in fs if 'timed_out' in f], pairs.get(lname)), (ftmod, c), 'D5')
    if hard and not idle:
      good = any('is_idle_timed_out' in f and f.endswith(':falsy') for f in fs)
      ctx.ob('R-DOM', ree, "an entry lands in at most one expiry list", good, "hard list only when not idle-expired" if good else "an entry past both timeouts is put in both lists: two removals / two flow_removed messages", (ftmod, c), 'D5')
    good = norm(L_.elt) == norm(L_.var) and norm(L_.it) == 'self._table'
    if not good and evaluated and events_ == want_: good = True        # another representation (e.g. (reason, entry) pairs): the evaluation saw exactly A, C and B leave
    ctx.ob('R-AGREE', ree, "expiry list `%s` collects the scanned entry" % lname, good, "%s for %s in %s" % (norm(L_.elt), norm(L_.var), norm(L_.it)), (ftmod, c), 'D5')
    if L_.form == 'comprehension':
      # a comprehension scans completely and cannot modify the table while scanning
      ctx.ok('R-ALL', ree, "expiry sweep visits every entry", "comprehension over %s" % norm(L_.it), (ftmod, c), 'D7')
      ctx.ok('R-ITERMUT', ree, "expiry collects first and removes after the scan", "comprehension completes before any removal", (ftmod, c), 'D6')
  # both lists are computed before either removal (an entry's idle test must not see the table half-swept)
  rm = g.nodes_with_call(lambda c: call_name(c) == '_remove_specific_entries')
  for L_ in lists:
    if L_.form == 'comprehension' and L_.node is not None:
      good = not any(L_.node in g.reachable(r_) for r_ in rm)
      ctx.ob('R-ORDER', ree, "list `%s` is collected before any removal" % L_.name, good, "collected first" if good else "collected after a removal already changed the table", (ftmod, L_.site), 'D6')
  for (st, h, af) in g.loop_nodes:
    body = g.loop_body_nodes(h)
    early = [n for n in body if n.kind in ('break', 'return')]
    if isinstance(st, ast.For) and '_table' not in norm(st.iter) and evaluated and events_ == want_: continue      # not a scan of the table (a loop over the collected batches); the evaluation saw the sweep's result
    ctx.ob('R-ALL', ree, "expiry sweep visits every entry", not early and norm(st.iter) == 'self._table', "scan of %s, early exits: %d" % (norm(st.iter), len(early)), (ftmod, st), 'D7')
    muts = [n for n in body if any(call_name(c) in ('_remove_specific_entries', 'remove_entry', 'remove') for c in q.node_calls(n))]
    muts += [q.enclosing_stmt_node(g, s) for k, s in q.mutations_of_attr(ree.node, '_table') if q.enclosing_stmt_node(g, s) in body]
    ctx.ob('R-ITERMUT', ree, "expiry collects first and removes after the scan", not muts, "no removal inside the scan" if not muts else "the table is modified while it is being iterated (line %s): entries are skipped" % muts[0].line, (ftmod, st), 'D6')
  rxp = q.find_method(repo, sw, 'rx_packet', 'C04'); ctx.analysed(rxp)
  g = q.cfg_of(rxp)
  touch = g.nodes_with_call(lambda c: call_name(c) == 'touch_packet')
  acts = g.nodes_with_call(lambda c: call_name(c) == '_process_actions_for_packet')
  good = bool(touch) and bool(acts) and all(any(g.dominates(t, a) for t in touch) for a in acts)
  ctx.ob('R-ORDER', rxp, "a matched frame refreshes the entry before its actions run", good, "touch_packet dominates action processing" if good else "actions can run without the entry's counters/idle clock being updated", rxp, 'D5')
  for t in touch:
    c = [c for c in q.node_calls(t) if call_name(c) == 'touch_packet'][0]
    good = norm(c.func.value) == 'entry' and c.args and norm(c.args[0]) == 'len(packet)'
    ctx.ob('R-AGREE', rxp, "the matched entry is touched with the frame length", good, norm(c), (swmod, c), 'D5')
  em = repo.cls(switchq.SW, 'ExpireMixin')
  ei = em.methods.get('__init__')
  timers = [c for c in calls_in(ei.node) if call_name(c) == 'Timer'] if ei else []
  good = bool(timers) and any('remove_expired_entries' in norm(c) and norm(kwarg(c, 'recurring', 2)) == 'True' for c in timers)
  ctx.ob('R-AGREE', em.qual, "expiry sweep runs on a recurring timer", good, norm(timers[0]) if timers else "no Timer", em, 'D5')
  # sibling scans
  for fname in ('matching_entries', 'aggregate_stats', 'flow_stats'):
    f = q.find_method(repo, ft, fname, 'C04'); ctx.analysed(f)
    g = q.cfg_of(f)
    early = []
    for (st, h, af) in g.loop_nodes:
      early += [n for n in g.loop_body_nodes(h) if n.kind in ('break', 'return')]
    ctx.ob('R-ALL', f, "%s covers every matching entry" % fname, not early, "no early exit", f, 'D7')
  rse = removal_routines[1]
  g = q.cfg_of(rse)
  for (st, h, af) in g.loop_nodes:
    for n in g.loop_body_nodes(h):
      if n.kind == 'break':
        fs = q.fact_strs(g, n)
        good = any(f.endswith(':falsy') for f in fs if 'remove_flows' in f or 'remaining' in f)
        ctx.ob('R-ALL', rse, "removal scan stops only when nothing is left to remove", good, "break under empty removal set" if good else "facts %s" % fs, (ftmod, n.ast), 'D7')
  # the switch hears of each removal once: it subscribes to its table's events where the table is created - a subscription made in a
  # method that runs again (a controller connection being attached) adds a second listener, and every expiry / delete is announced twice
  subs = []
  for c_ in sw.mro():
    for f_ in c_.methods.values():
      for cl_ in calls_in(f_.node):
        if call_name(cl_) in ('addListeners', 'addListener', 'addListenerByName', 'listenTo') and isinstance(cl_.func, ast.Attribute) and norm(cl_.func.value) == 'self.table': subs.append((f_, cl_))
  ctx.floor('subscription of the switch to its table', len(subs), 1)
  for f_, cl_ in subs:
    creates = [st_ for t_, v_, st_, k_ in q.stores_in(f_.node) if norm(t_) == 'self.table' and isinstance(v_, ast.Call)]
    gs_ = q.cfg_of(f_)
    good = bool(creates) and gs_.dominates(q.enclosing_stmt_node(gs_, creates[0]), q.enclosing_stmt_node(gs_, cl_))
    ctx.ob('R-ONCE', f_, "the switch subscribes to its table once, where the table is created (`%s`)" % norm(cl_), good, "after `%s`" % norm(creates[0]) if good else
           "%s subscribes to the table it did not just create: each time it runs (a controller connection is attached again) another listener is added - every flow that expires or is deleted with the send-flow-removed flag is announced "
           "once per attachment (and not at all before the first one)" % f_.qual, (swmod, cl_), 'D5')
  # ---- mechanisms this property shares with others: their checks' rules about these functions are obligations here too
  _full_scan(ctx, repo, ft, ftmod)
  ctx.include('C03', ['matches_with_wildcards', 'is_exact', 'effective_priority'], 'non-strict commands select entries by match subsumption')

def _full_scan (ctx, repo, ft, ftmod):
  """selection by predicate examines every entry: the table is ordered by *effective* priority (exact-match entries first, whatever
  their priority field says), so a scan that stops on the entries' priority field skips entries it should have examined"""
  TBL = '_table'
  n = 0
  for f in ft.methods.values():
    aliases = set(['self.' + TBL])
    for t, v, s_, k in q.stores_in(f.node):
      if isinstance(t, ast.Name) and v is not None and norm(v) in aliases: aliases.add(t.id)
    scans = []
    for x in ast.walk(f.node):
      if isinstance(x, (ast.ListComp, ast.GeneratorExp, ast.SetComp)):
        for gen in x.generators: scans.append((gen.iter, x, gen.ifs))
      elif isinstance(x, ast.For): scans.append((x.iter, x, None))
    # names bound to a cut of the table
    cuts = {}
    for t, v, s_, k in q.stores_in(f.node):
      if isinstance(t, ast.Name) and isinstance(v, ast.Call) and call_name(v) in ('takewhile', 'islice', 'dropwhile') and any(norm(a) in aliases for a in v.args): cuts[t.id] = v
    for it, node, ifs in scans:
      src = it
      if isinstance(src, ast.Name) and src.id in cuts: src = cuts[src.id]
      whole = norm(src) in aliases or (isinstance(src, ast.Call) and call_name(src) in ('list', 'tuple', 'reversed', 'iter', 'enumerate') and src.args and norm(src.args[0]) in aliases)
      cut = isinstance(src, ast.Call) and call_name(src) in ('takewhile', 'islice', 'dropwhile') and any(norm(a) in aliases for a in src.args)
      sl = isinstance(src, ast.Subscript) and norm(src.value) in aliases and isinstance(src.slice, ast.Slice)
      selects = any(isinstance(c, ast.Call) and call_name(c) in ('is_matched_by', 'entry_match') for c in ast.walk(node)) or \
                (ifs is not None and any(isinstance(c, ast.Call) for i_ in ifs for c in ast.walk(i_)))
      if not (whole or cut or sl) or not selects: continue
      n += 1
      if whole:
        brk = isinstance(node, ast.For) and any(isinstance(b, ast.Break) for b in ast.walk(node))
        if not brk: ctx.ok('R-EFFECT', f, "selection by predicate examines every entry of the table", "iterates `%s`" % norm(it), (ftmod, node), 'D3')
        else: ctx.undecided('R-EFFECT', f, "selection by predicate examines every entry of the table", "the loop can end early (break)", (ftmod, node), 'D3')
        continue
      pred = src.args[0] if cut and src.args else None
      by_eff = pred is not None and any(isinstance(a, ast.Attribute) and a.attr == 'effective_priority' for a in ast.walk(pred))
      by_prio = pred is not None and any(isinstance(a, ast.Attribute) and a.attr == 'priority' for a in ast.walk(pred))
      if cut and by_prio and not by_eff:
        ctx.bad('R-EFFECT', f, "selection by predicate examines every entry of the table",
                "the scan is cut short by `%s` on the entries' priority field, but the table is ordered by effective priority: an exact-match entry with a low priority field sits "
                "first and hides every entry behind it - a strict DELETE / replace-on-ADD then misses its target (duplicate entries, no flow-removed)" % norm(src)[:90], (ftmod, node), 'D3')
      else:
        ctx.undecided('R-EFFECT', f, "selection by predicate examines every entry of the table", "scans `%s`, not the whole table" % norm(src)[:60], (ftmod, node), 'D3')
  ctx.floor('table scans that select by predicate', n, 1)

def _in_loop_before (g, d, rn):
  return rn in g.reachable(d)

def _elapsed_cmp (l, o, r, clock, tmo):
  """(now - self.clock) > self.tmo, >=, or mirrored; now > self.clock + self.tmo"""
  def is_diff (e):
    return isinstance(e, ast.BinOp) and isinstance(e.op, ast.Sub) and norm(e.left) == 'now' and norm(e.right) == 'self.' + clock
  def is_tmo (e): return norm(e) == 'self.' + tmo
  def is_sum (e):
    return isinstance(e, ast.BinOp) and isinstance(e.op, ast.Add) and {norm(e.left), norm(e.right)} == {'self.' + clock, 'self.' + tmo}
  if is_diff(l) and is_tmo(r) and o in ('>', '>='): return True
  if is_tmo(l) and is_diff(r) and o in ('<', '<='): return True
  if norm(l) == 'now' and is_sum(r) and o in ('>', '>='): return True
  if is_sum(l) and norm(r) == 'now' and o in ('<', '<='): return True
  return False

def _timeout_expr_ok (e, clock, tmo):
  if isinstance(e, ast.BoolOp) and isinstance(e.op, ast.And):
    en = any(isinstance(v, ast.Compare) and norm(v.left) == 'self.' + tmo and isinstance(v.ops[0], ast.Gt) and norm(v.comparators[0]) == '0' for v in e.values)
    el = False
    for v in e.values:
      if isinstance(v, ast.Compare) and len(v.ops) == 1:
        for (l, o, r) in q.facts_of(v, True):
          if r is not None and _elapsed_cmp(l, o, r, clock, tmo): el = True
    return en and el
  return False
