"""C05 - event delivery order, halting and unsubscription (structural part).

 D1 R-ITERMUT the dispatch loop iterates a snapshot, or no EventMixin method mutates the list in place
 D2 R-AGREE   addListener appends; sorts are reverse=True with a key that projects the priority only;
              a list that ever held a non-default priority is re-sorted on every later addition
 D3 R-EFFECT  return-value protocol decided by constant propagation through the loop body for every
              (return value, once) combination: handler invoked once; removed iff once / False /
              (_, True); halts iff True / (True, ..) / ()
 D4 R-DEF     removeListener: every identifier form is definitely assigned
 D5 R-DOM     undeclared event types are rejected before the handler table is touched (subscribe)
              and before dispatch (raise of an instance)
 D6 R-CONTAIN raiseEventNoErrors catches everything except ReventError; hook call arity
 D7 R-AGREE   weak handlers: only weak references, both with the forget callback, which removes the
              listener with the (type, eid) pair addListener passed
 D8 R-AGREE   autoBindEvents slice offset equals the prefix length
"""
import ast
from .. import q, defs
from ..model import AnalysisError, calls_in, call_name, norm, kwarg, walk_no_nested

EXPLAIN = ("R-ITERMUT snapshot iteration vs in-place mutators; R-AGREE append + stable descending priority sort and sticky "
           "re-sort; R-EFFECT return-value protocol decided by constant propagation over every (return value, once) pair; "
           "R-DEF definite assignment in removeListener; R-DOM declared-event test dominates table mutation and dispatch; "
           "R-CONTAIN error-suppressing raise; R-AGREE weak proxy and by-name wiring constants. Decides these necessary "
           "conditions on all paths, not delivery semantics over arbitrary handler histories.")
RV = 'lib.revent.revent'

def run (ctx):
  ctx.explanation = EXPLAIN
  ctx.assumptions = ["handlers may call any EventMixin method re-entrantly (unknown code)", "list.sort is stable (CPython)"]
  repo = ctx.repo
  em = repo.cls(RV, 'EventMixin'); mod = em.module
  raise_ = q.find_method(repo, em, 'raiseEvent', 'C05'); add = q.find_method(repo, em, 'addListener', 'C05')
  rem = q.find_method(repo, em, 'removeListener', 'C05'); rne = q.find_method(repo, em, 'raiseEventNoErrors', 'C05')
  for f in (raise_, add, rem, rne): ctx.analysed(f)
  TABLE = '_eventMixin_handlers'

  # ---- locate the dispatch loop -------------------------------------------------
  g = q.cfg_of(raise_)
  loops = []
  entry_v = None
  for (st, h, af) in g.loop_nodes:
    if isinstance(st, ast.For) and isinstance(st.target, ast.Tuple) and len(st.target.elts) == 4: loops.append((st, h, af, st.target))
    elif isinstance(st, ast.For) and isinstance(st.target, ast.Name):
      # `for entry in handlers: (priority, handler, once, eid) = entry`
      for b_ in st.body[:2]:
        if isinstance(b_, ast.Assign) and len(b_.targets) == 1 and isinstance(b_.targets[0], ast.Tuple) and len(b_.targets[0].elts) == 4 and isinstance(b_.value, ast.Name) and b_.value.id == st.target.id \
           and all(isinstance(e_, ast.Name) for e_ in b_.targets[0].elts):
          loops.append((st, h, af, b_.targets[0])); entry_v = st.target.id; break
  ctx.floor('dispatch loop', len(loops), 1)
  if not loops: return
  st, head, after, tgt_ = loops[0]
  names = [e.id for e in tgt_.elts]          # (priority, handler, once, eid)
  pr_v, h_v, once_v, eid_v = names
  # ---- D1 -----------------------------------------------------------------------
  it = st.iter
  snap = _is_snapshot(it)
  src_def = None
  if not snap and isinstance(it, ast.Name):
    src_def = q.single_def(raise_.node, it.id)
    snap = src_def is not None and _is_snapshot(src_def)
  inplace = []
  for f in em.methods.values():
    aliases = set()
    for t, v, s_, k in q.stores_in(f.node):
      if isinstance(t, ast.Name) and v is not None and q.mentions_attr(v, TABLE): aliases.add(t.id)
    for c in calls_in(f.node, nested=True):
      if isinstance(c.func, ast.Attribute) and c.func.attr in ('append', 'insert', 'sort', 'remove', 'pop', 'extend', 'reverse', 'clear') and \
         ((isinstance(c.func.value, ast.Name) and c.func.value.id in aliases) or (isinstance(c.func.value, ast.Subscript) and q.mentions_attr(c.func.value, TABLE))):
        inplace.append((f, c))
    for t, v, s_, k in q.stores_in(f.node):
      if k == 'augassign' and (q.mentions_attr(t, TABLE) and isinstance(t, ast.Subscript) or (isinstance(t, ast.Name) and t.id in aliases)):
        inplace.append((f, s_))
  ctx.stat('in_place_mutators', len(inplace))
  good = snap or not inplace
  ctx.ob('R-ITERMUT', raise_, "delivery iterates a list that re-entrant (un)subscription cannot change", good,
         "loop iterates a snapshot (`%s`)" % norm(src_def or it) if snap else ("no method mutates the handler list in place" if good else ""),
         (mod, st), 'D1') if good else \
  ctx.bad('R-ITERMUT', raise_, "delivery iterates a list that re-entrant (un)subscription cannot change",
          "the loop iterates the live list `%s` while %s mutates that list in place (`%s`): a handler that (un)subscribes during delivery "
          "makes another handler run twice or be skipped" % (norm(it), inplace[0][0].qual, norm(inplace[0][1])[:60]), (mod, st), 'D1')

  # ---- D2 order -------------------------------------------------------------------
  ag = q.cfg_of(add)
  hvar = None
  for t, v, s_, k in q.stores_in(add.node):
    if isinstance(t, ast.Name) and v is not None and q.mentions_attr(v, TABLE): hvar = t.id
  adds = [c for c in calls_in(add.node) if isinstance(c.func, ast.Attribute) and isinstance(c.func.value, ast.Name) and c.func.value.id == hvar and c.func.attr in ('append', 'insert', 'extend')]
  ctx.floor('subscription insert site', len(adds), 1)
  for c in adds:
    ctx.ob('R-AGREE', add, "new subscriptions go to the end of the list", c.func.attr == 'append', "append" if c.func.attr == 'append' else
           "`%s` does not append: equal-priority handlers are no longer delivered in subscription order" % norm(c), (mod, c), 'D2')
  sorts = [c for c in calls_in(add.node) if isinstance(c.func, ast.Attribute) and c.func.attr == 'sort']
  for c in sorts:
    rv = kwarg(c, 'reverse'); key = kwarg(c, 'key')
    if isinstance(key, ast.Name) and mod.assigns.get(key.id) is not None: key = mod.assigns[key.id]       # a key function kept in a module constant
    good = rv is not None and norm(rv) == 'True'
    ctx.ob('R-AGREE', add, "handlers sorted by descending priority", good, "reverse=True" if good else "`%s` sorts ascending: lower priorities are delivered first" % norm(c), (mod, c), 'D2')
    kgood = key is not None and (norm(key) in ('operator.itemgetter(0)', 'itemgetter(0)') or
                                 (isinstance(key, ast.Lambda) and isinstance(key.body, ast.Subscript) and norm(key.body.slice) == '0'))
    ctx.ob('R-AGREE', add, "sort key is the priority alone (stable among equals)", kgood, norm(key) if kgood else
           "sort key is %s: handlers with equal priority are reordered (or compared) instead of keeping subscription order" % norm(key), (mod, c), 'D2')
  if sorts:
    sn = [q.enclosing_stmt_node(ag, c) for c in sorts]
    appn = [q.enclosing_stmt_node(ag, c) for c in adds]
    sticky = lambda e: isinstance(e, ast.Compare) and len(e.ops) == 1 and isinstance(e.ops[0], ast.In) and 'prioritized' in norm(e.comparators[0])
    newprio = lambda e: isinstance(e, ast.Compare) and norm(e.left) == 'priority' and 'DEFAULT_PRIORITY' in norm(e.comparators[0])
    base = {'self._eventMixin_events is not True': False, 'self._eventMixin_events is True': True, 'weak': False, 'byName': False, add.params[1] if len(add.params) > 1 else 'eventType': 'T'}
    PR = 'self._eventMixin_prioritized'
    has_sticky = any(sticky(x) for x in ast.walk(add.node))
    def run_sc (new_prio, already):
      ex = dict(base)
      if has_sticky: ex[PR] = set(['T']) if already else set()
      res = []
      for p_, e_ in q.paths_under(repo, mod, ag, q.Env(ex, [(newprio, new_prio)]), ag.entry, [ag.exit], em, limit=80):
        if not any(x in p_ for x in appn if x is not None): continue          # rejected subscription
        res.append((any(x in p_ for x in sn), e_.exact.get(PR)))
      return res
    ra = run_sc(True, False)
    ga = bool(ra) and all(srt for srt, pr_ in ra)
    ctx.ob('R-DOM', add, "a handler added with a non-default priority triggers the sort", ga, "sorted on every path" if ga else "a prioritised subscription can be stored without the list being sorted (%d of %d paths)" % (sum(1 for srt, pr_ in ra if not srt), len(ra)), add, 'D2')
    # (b) default priority added to a list that already holds prioritised handlers -> sort
    uncond = all(ag.postdominates(sn, a) for a in appn if a is not None)
    if uncond:
      ctx.ok('R-DOM', add, "a default-priority handler added after prioritised ones is sorted into place", "the list is sorted after every addition", add, 'D2')
    elif has_sticky:
      rb = run_sc(False, True)
      gb = bool(rb) and all(srt for srt, pr_ in rb)
      # the flag is set whenever a prioritised handler was stored (scenario a leaves 'T' in the set)
      gm = bool(ra) and all(isinstance(pr_, set) and 'T' in pr_ for srt, pr_ in ra)
      ctx.ob('R-DOM', add, "a default-priority handler added after prioritised ones is sorted into place", gb and gm,
             "sticky per-event flag: set whenever a prioritised handler is stored, and consulted on later additions" if gb and gm else
             "sticky flag present but %s" % ("not set when a prioritised handler is stored" if not gm else "not consulted"), add, 'D2')
    else:
      ctx.bad('R-DOM', add, "a default-priority handler added after prioritised ones is sorted into place",
              "the sort runs only when the *new* handler has a non-default priority and nothing remembers that the list already holds "
              "prioritised handlers: a default-priority handler appended after a lower-priority one is delivered after it", add, 'D2')
  else:
    ctx.undecided('R-AGREE', add, "priority ordering idiom", "no sort in addListener (ordered-insert idiom not recognised)", add, 'D2')

  # the memory "this event type has prioritised handlers" must not be lost: when some method takes an event type out of the set
  # (a lazy "needs sorting" flag cleared after a sort), every later subscription has to put it back - otherwise a default-priority
  # handler subscribed after a delivery is appended behind a lower-priority one and nothing sorts the list again
  PRA = '_eventMixin_prioritized'
  forget = []
  for f in em.methods.values():
    if f.name in ('_eventMixin_init', '__init__'): continue
    for c in calls_in(f.node, nested=True):
      if isinstance(c.func, ast.Attribute) and c.func.attr in ('discard', 'remove', 'pop', 'difference_update') and q.mentions_attr(c.func.value, PRA): forget.append((f, c))
    for t, v, s_, k in q.stores_in(f.node):
      if k == 'augassign' and q.mentions_attr(t, PRA) and isinstance(getattr(s_, 'op', None), (ast.Sub, ast.BitAnd)): forget.append((f, s_))
  cond_sorts = [x for x in ast.walk(em.node) if isinstance(x, ast.Compare) and len(x.ops) == 1 and isinstance(x.ops[0], (ast.In, ast.NotIn)) and PRA in norm(x.comparators[0])]
  for f, c in forget:
    if f.name == 'clearHandlers': continue          # forgets together with the handlers themselves
    # does a default-priority subscription re-establish the memory?
    newprio_ = lambda e: isinstance(e, ast.Compare) and norm(e.left) == 'priority' and 'DEFAULT_PRIORITY' in norm(e.comparators[0])
    ex = {'self._eventMixin_events is not True': False, 'self._eventMixin_events is True': True, 'weak': False, 'byName': False,
          (add.params[1] if len(add.params) > 1 else 'eventType'): 'T', 'self.' + PRA: set()}
    outs = []
    try:
      for p_, e_ in q.paths_under(repo, mod, ag, q.Env(ex, [(newprio_, False)]), ag.entry, [ag.exit], em, limit=80):
        if not any(x in p_ for x in [q.enclosing_stmt_node(ag, a_) for a_ in adds] if x is not None): continue
        v_ = e_.exact.get('self.' + PRA)
        outs.append(isinstance(v_, set) and 'T' in v_)
    except Exception: outs = None
    if not cond_sorts: continue
    good = None if not outs else all(outs)
    ctx.ob('R-AGREE', f, "once an event type has prioritised handlers that is not forgotten", good,
           "every subscription marks the event type again" if good else
           ("`%s` takes the event type out of the set that later subscriptions consult, and a default-priority subscription does not put it back: a handler "
            "subscribed after that point is appended behind lower-priority ones and delivered after them" % norm(c)[:70]) if good is False else "subscription paths could not be evaluated", (mod, c), 'D2')

  # ---- D3 return-value protocol -----------------------------------------------------
  body = g.loop_body_nodes(head)
  calls_h = [n for n in body if n.ast is not None and any(_is_handler_call(c, h_v) for c in q.node_calls(n))]
  ctx.floor('handler invocation sites', len(calls_h), 2)
  # the variable receiving the handler's return value
  rvs = set()
  for n in calls_h:
    if isinstance(n.ast, ast.Assign) and isinstance(n.ast.targets[0], ast.Name): rvs.add(n.ast.targets[0].id)
  if len(rvs) != 1:
    ctx.undecided('R-EFFECT', raise_, "return-value protocol", "handler result is not stored in one variable (%s)" % sorted(rvs), raise_, 'D3')
  else:
    rv_v = list(rvs)[0]
    iv = g.interval(lambda n: n in calls_h, start=[b for b in g.nodes if b.kind == 'branch' and b.label[0] is st and b.label[1] is True][0], stop=head)
    ctx.ob('R-EFFECT', raise_, "each listed handler is invoked exactly once per delivery", iv == (1, 1) or iv == (1, 1), "per-iteration invocation count %s" % (iv,), (mod, st), 'D3')
    CASES = [None, False, True, (), (True,), (False,), (False, True), (True, True), (False, False), (True, False)]
    n_cases = 0
    for cc in (True, False):
      for once in (False, True):
        for val in CASES:
          want_remove = once or val is False or (isinstance(val, tuple) and len(val) >= 2 and val[1] == True)
          want_halt = val is True or (isinstance(val, tuple) and (len(val) == 0 or bool(val[0])))
          for cn in calls_h:
            # only the invocation form matching classCall
            fs = q.fact_strs(g, cn)
            if ('classCall:truthy' in fs) != cc and any(f.startswith('classCall:') for f in fs): continue
            env = q.Env({rv_v: val, once_v: once, 'classCall': cc, 'event.halt': False, 'classCall and event.halt': False})
            ps = q.paths_under(repo, mod, g, env, cn, [head, after], em)
            if not ps:
              ctx.undecided('R-EFFECT', raise_, "protocol case rv=%r once=%s" % (val, once), "no path found", raise_, 'D3'); continue
            n_cases += 1
            for path, fe in ps:
              removed = sum(1 for n in path for c in q.node_calls(n) if call_name(c) == 'removeListener' and c.args and norm(c.args[0]) == eid_v)
              halted = path[-1] is after
              good = (removed >= 1) == want_remove and halted == want_halt
              detail = "return value %r, once=%s (%s form)" % (val, once, 'class' if cc else 'plain')
              if good:
                ctx.ok('R-EFFECT', raise_, detail, "removed=%s halted=%s as the protocol prescribes" % (removed >= 1, halted), raise_, 'D3')
              else:
                why = []
                if (removed >= 1) != want_remove:
                  why.append("the handler is %s" % ("removed although it must stay subscribed" if removed else "NOT removed - it will be invoked again on the next raise"))
                if halted != want_halt:
                  why.append("delivery %s" % ("halts although later handlers must still run" if halted else "continues although the handler halted the event"))
                ctx.bad('R-EFFECT', raise_, detail, "; ".join(why) + " (path lines %s)" % _lines(path), raise_, 'D3', path=_lines(path))
    ctx.floor('protocol cases decided', n_cases, 30)
    # halting through event.halt
    hb = [n for n in g.nodes if n.kind == 'break' and any(m is after for m, l in n.succ) and any('event.halt' in f and f.endswith(':truthy') for f in q.fact_strs(g, n))]
    if not hb:
      # by evaluation (the verdict on a handler's result may come out of a helper as a flag): a handler that returns an ordinary
      # value and has set event.halt ends the delivery; with event.halt clear the next handler runs
      res_ = {}
      for hv_ in (True, False):
        ends_ = set()
        for cn in calls_h:
          fs = q.fact_strs(g, cn)
          if 'classCall:falsy' in fs: continue
          env = q.Env({rv_v: 7, once_v: False, 'classCall': True, 'event.halt': hv_, 'classCall and event.halt': hv_})
          for path, fe in q.paths_under(repo, mod, g, env, cn, [head, after], em): ends_.add(path[-1] is after)
        res_[hv_] = ends_
      if res_[True] == {True} and res_[False] == {False}: hb = [after]
    ctx.ob('R-DOM', raise_, "setting event.halt stops delivery", bool(hb), "break under event.halt" if hb else "no break guarded by event.halt", raise_, 'D3')

  # the documented shortcut values handlers return (EventContinue, EventHalt, EventRemove, EventHaltAndRemove) and EventReturn(halt,
  # remove): evaluated, and read by the protocol above, each means what its name says - a bare False, for one, means "remove me"
  er = mod.funcs.get('EventReturn')
  if er is not None:
    ctx.analysed(er); ge_ = q.cfg_of(er)
    def er_value (halt, remove):
      vals = set()
      for p_, e_ in q.paths_under(repo, mod, ge_, q.Env({er.params[0]: halt, er.params[1]: remove}), ge_.entry, [n_ for n_ in ge_.nodes if n_.kind == 'return'], None, limit=20):
        try: vals.add(q.eval_env2(repo, mod, p_[-1].ast.value, e_, None))
        except Exception: vals.add('?')
      return list(vals)[0] if len(vals) == 1 else '?'
    def meaning (v):
      # what raiseEvent's protocol (decided case by case above) does with this value: (halt, remove)
      if v is None: return (False, False)
      if v is True: return (True, False)
      if v is False: return (False, True)
      if isinstance(v, tuple): return ((len(v) == 0) or bool(v[0]), len(v) >= 2 and v[1] == True)
      return '?'
    NAMES = {'EventContinue': (False, False), 'EventHalt': (True, False), 'EventRemove': (False, True), 'EventHaltAndRemove': (True, True)}
    n_sh = 0
    for nm_, want_ in NAMES.items():
      a_ = mod.assigns.get(nm_)
      if not (isinstance(a_, ast.Call) and call_name(a_) == 'EventReturn'): continue
      kw_ = dict((k_.arg, k_.value) for k_ in a_.keywords)
      try:
        h_ = bool(q.eval_env2(repo, mod, kw_['halt'], q.Env(), None)) if 'halt' in kw_ else (bool(q.eval_env2(repo, mod, a_.args[0], q.Env(), None)) if a_.args else False)
        r_ = bool(q.eval_env2(repo, mod, kw_['remove'], q.Env(), None)) if 'remove' in kw_ else (bool(q.eval_env2(repo, mod, a_.args[1], q.Env(), None)) if len(a_.args) > 1 else False)
      except Exception: continue
      v_ = er_value(h_, r_); n_sh += 1
      if v_ == '?' or meaning(v_) == '?':
        ctx.undecided('R-AGREE', mod.short + ':' + nm_, "the shortcut value means what its name says", "EventReturn(%s, %s) not evaluable" % (h_, r_), (mod, a_), 'D3'); continue
      ctx.ob('R-AGREE', mod.short + ':' + nm_, "the shortcut value means what its name says", meaning(v_) == want_, "%r -> halt=%s remove=%s" % ((v_,) + want_) if meaning(v_) == want_ else
             "%s evaluates to %r, which the dispatch loop reads as halt=%s, remove=%s (its name says halt=%s, remove=%s): a handler returning it is %s"
             % ((nm_, v_) + meaning(v_) + want_ + ("unsubscribed although it never asked to be - it is not invoked on later raises" if meaning(v_)[1] and not want_[1] else "treated differently from what it asked for",)), (mod, a_), 'D3')
    ctx.floor('handler return shortcuts evaluated', n_sh, 4)
  # ---- D4 removeListener ---------------------------------------------------------------
  ub = defs.use_before_def(rem); un = defs.undefined_names(repo, rem)
  for nm, node, path in ub:
    ctx.bad('R-DEF', rem, "local `%s` used before assignment" % nm, "a feasible path (lines %s) reads `%s` before any assignment: UnboundLocalError for that identifier form" % (path, nm), (mod, node), 'D4', path=path)
  for nm, node in un:
    ctx.bad('R-DEF', rem, "undefined name `%s`" % nm, "NameError on this branch", (mod, node), 'D4')
  rg = q.cfg_of(rem)
  branches = len([n for n in rg.nodes if n.kind == 'cond'])
  n_forms_ = [0]
  if not ub and not un: ctx.ok('R-DEF', rem, "all identifier forms definitely assigned", "no use-before-assignment on any feasible path", rem, 'D4')
  # index/field agreement: entries are (priority, handler, once, eid): eid filters use x[3], handler filters x[1]
  for n in ast.walk(rem.node):
    if isinstance(n, ast.ListComp) and n.generators and n.generators[0].ifs:
      cond = n.generators[0].ifs[0]
      if isinstance(cond, ast.Compare) and isinstance(cond.left, ast.Subscript):
        idx = norm(cond.left.slice); rhs = norm(cond.comparators[0])
        cnode = q.enclosing_stmt_node(rg, n)
        fs = q.fact_strs(rg, cnode) if cnode else []
        is_eid = any('int' in f and f.endswith('truthy') or '== int' in f for f in fs) or 'handler[1]' in rhs
        want = '3' if is_eid else '1'
        if not idx.isdigit():
          ctx.undecided('R-AGREE', rem, "filter `%s` compares the right tuple slot" % norm(cond), "slot index `%s` is not a literal" % idx, (mod, n), 'D4')
          continue
        ctx.ob('R-AGREE', rem, "filter `%s` compares the right tuple slot" % norm(cond), idx == want and isinstance(cond.ops[0], ast.NotEq),
               "slot %s, != " % idx if idx == want else "filter uses slot %s where entries are (priority, handler, once, eid)" % idx, (mod, n), 'D4')
  # by evaluation on a sample table: removing by bare id removes exactly that entry - for the ids the generator really hands out
  # (its first one in particular: an id that is falsy must not be mistaken for "nothing to remove")
  gen = mod.funcs.get('_generateEventID')
  first = None
  if gen is not None:
    ctx.analysed(gen); gg_ = q.cfg_of(gen)
    init_ = {}
    for nm_, v_ in mod.assigns.items():
      k_ = q.try_int(v_) if v_ is not None else None
      if k_ is not None: init_[nm_] = k_
      if isinstance(v_, ast.Call) and norm(v_.func) in ('itertools.count', 'count'):
        a0_ = q.try_int(v_.args[0]) if v_.args else (q.try_int(kwarg(v_, 'start')) if kwarg(v_, 'start') is not None else 0)
        if a0_ is not None: init_['next(%s)' % nm_] = a0_
    vals_ = set()
    for p_, e_ in q.paths_under(repo, mod, gg_, q.Env(dict(init_)), gg_.entry, [n_ for n_ in gg_.nodes if n_.kind == 'return'], None, limit=10):
      try: vals_.add(q.eval_env2(repo, mod, p_[-1].ast.value, e_, None))
      except Exception: vals_.add('?')
    if len(vals_) == 1 and isinstance(list(vals_)[0], int): first = list(vals_)[0]
  if first is None:
    ctx.undecided('R-AGREE', rem, "removing by bare id removes exactly that entry (first generated id)", "the first event id could not be evaluated", gen or rem, 'D4')
  else:
    tbl = {'T': [(0, 'h1', False, first), (0, 'h2', False, first + 1)], 'U': [(0, 'h3', False, first + 2)]}
    env = q.Env({rem.params[1]: first, (rem.params[2] if len(rem.params) > 2 else 'eventType'): None, 'self._eventMixin_handlers': tbl}, [((lambda e: isinstance(e, ast.Call) and call_name(e) == '_eventMixin_init'), None)])
    outs = []
    for p_, e_ in q.paths_under(repo, mod, rg, env, rg.entry, [rg.exit], em, limit=60): outs.append(e_.exact.get('self._eventMixin_handlers'))
    want = {'T': [(0, 'h2', False, first + 1)], 'U': [(0, 'h3', False, first + 2)]}
    if not outs or any(not isinstance(o_, dict) for o_ in outs):
      ctx.undecided('R-AGREE', rem, "removing by bare id removes exactly that entry (first generated id)", "removeListener not evaluable on the sample table", rem, 'D4')
    else:
      good = all(o_ == want for o_ in outs)
      ctx.ob('R-AGREE', rem, "removing by bare id removes exactly that entry (first generated id)", good, "removeListener(%d) on a sample table" % first if good else
             "the id generator's first id is %d; removeListener(%d) on a table holding ids %d..%d leaves %s (expected the entry with id %d gone and nothing else): the first listener created in the process can never be "
             "removed by id - a one-shot handler or one that returns EventRemove / False is invoked on every later raise" % (first, first, first, first + 2, outs[0], first), rem, 'D4')
  # ... and every identifier form, by evaluation on the same kind of table: (type, id) pair, bare id with and without an event type,
  # handler object with and without an event type - each removes exactly the entries it names
  if first is not None:
    f0 = first
    def T0 (): return {'T': [(0, 'h1', False, f0), (0, 'h2', False, f0 + 1)], 'U': [(0, 'h1', False, f0 + 2)]}
    FORMS = [("bare id, all event types", f0, None, {'T': [(0, 'h2', False, f0 + 1)], 'U': [(0, 'h1', False, f0 + 2)]}),
             ("bare id with its event type", f0 + 2, 'U', {'T': T0()['T'], 'U': []}),
             ("(type, id) pair", ('T', f0 + 1), None, {'T': [(0, 'h1', False, f0)], 'U': T0()['U']}),
             ("handler, all event types", 'h1', None, {'T': [(0, 'h2', False, f0 + 1)], 'U': []}),
             ("handler with an event type", 'h1', 'T', {'T': [(0, 'h2', False, f0 + 1)], 'U': T0()['U']})]
    for nm_, hv_, et_, want_ in FORMS:
      env = q.Env({rem.params[1]: hv_, (rem.params[2] if len(rem.params) > 2 else 'eventType'): et_, 'self._eventMixin_handlers': T0()}, [((lambda e: isinstance(e, ast.Call) and call_name(e) == '_eventMixin_init'), None)])
      outs = [e_.exact.get('self._eventMixin_handlers') for p_, e_ in q.paths_under(repo, mod, rg, env, rg.entry, [rg.exit], em, limit=60)]
      if not outs or any(not isinstance(o_, dict) for o_ in outs):
        ctx.undecided('R-AGREE', rem, "removeListener, %s" % nm_, "not evaluable on the sample table", rem, 'D4'); continue
      n_forms_[0] += 1
      good = all(o_ == want_ for o_ in outs)
      ctx.ob('R-AGREE', rem, "removeListener, %s: exactly the named entries go" % nm_, good, "on a sample table" if good else
             "removeListener(%r, %r) on the table %s leaves %s (expected %s): a listener that was to be removed keeps being invoked, or another one is lost" % (hv_, et_, T0(), outs[0], want_), rem, 'D4')
  ctx.floor('removeListener identifier forms evaluated', n_forms_[0], 5)
  # a removal must not hide behind a short-circuit: `altered = altered or self._remove(...)` stops removing after the first hit
  def changes_table (fn, depth=0):
    if list(q.mutations_of_attr(fn.node, TABLE)) or [1 for t, v_, s_, k in q.stores_in(fn.node) if isinstance(t, ast.Subscript) and q.mentions_attr(t, TABLE)]: return True
    if depth >= 2: return False
    for c in calls_in(fn.node):
      if isinstance(c.func, ast.Attribute) and norm(c.func.value) == 'self':
        cal = em.find_method(call_name(c))
        if cal is not None and cal is not fn and changes_table(cal, depth + 1): return True
    return False
  n_bool = 0
  for meth in em.methods.values():
    for n in ast.walk(meth.node):
      conditional = []
      # the accumulator form `flag = flag or <removal>`: the left operand is the running result itself
      if isinstance(n, ast.Assign) and len(n.targets) == 1 and isinstance(n.targets[0], ast.Name) and isinstance(n.value, ast.BoolOp):
        b = n.value
        for i, v in enumerate(b.values[1:], 1):
          if any(isinstance(x, ast.Name) and x.id == n.targets[0].id for lv in b.values[:i] for x in ast.walk(lv)):
            conditional.append((v, 'or' if isinstance(b.op, ast.Or) else 'and'))
      for v, opn in conditional:
        for c in calls_in(v):
          callee = em.find_method(call_name(c)) if isinstance(c.func, ast.Attribute) and norm(c.func.value) == 'self' else None
          if callee is not None and changes_table(callee):
            n_bool += 1
            # harmless when the left operands cannot be true/false across iterations, i.e. outside any loop and not loop-carried: still a skipped removal
            ctx.bad('R-EFFECT', meth, "every removal is executed (`%s`)" % norm(n)[:60],
                    "`%s` changes the handler table but is the right operand of `%s`: once the left operand decides the result it is not evaluated - the remaining "
                    "removals (other event types of the same handler, the other listeners of the list) are silently skipped and those handlers keep being invoked" % (norm(c)[:60], opn), (mod, n), 'D4')
  # the same short-circuit through any()/all() over a *generator*: evaluation stops at the first decisive element
  for meth in em.methods.values():
    for n in ast.walk(meth.node):
      if isinstance(n, ast.Call) and isinstance(n.func, ast.Name) and n.func.id in ('any', 'all') and len(n.args) == 1 and isinstance(n.args[0], ast.GeneratorExp):
        for c in calls_in(n.args[0].elt):
          callee = em.find_method(call_name(c)) if isinstance(c.func, ast.Attribute) and norm(c.func.value) == 'self' else None
          if callee is not None and changes_table(callee):
            n_bool += 1
            ctx.bad('R-EFFECT', meth, "every removal is executed (`%s`)" % norm(n)[:60],
                    "`%s` changes the handler table but is evaluated lazily inside %s(<generator>), which stops at the first %s result: the remaining listeners of the list are never removed and keep being invoked"
                    % (norm(c)[:50], n.func.id, 'true' if n.func.id == 'any' else 'false'), (mod, n), 'D4')
  ctx.stat('table-changing calls in short-circuit position', n_bool)
  # event-type keys: if any code deletes a key of the handler table, every place that indexes the table by type must expect
  # the key to be missing (the dispatcher removes one-shot handlers by type after the handler may have emptied the list)
  key_dels = []; bare_loads = []
  for meth in em.methods.values():
    gm = q.cfg_of(meth)
    for n in gm.nodes:
      if n.ast is None: continue
      for c in q.node_calls(n):
        if call_name(c) in ('pop', 'popitem', 'clear') and isinstance(c.func, ast.Attribute) and norm(c.func.value) == 'self.' + TABLE: key_dels.append((meth, c))
      if isinstance(n.ast, ast.Delete):
        for t in n.ast.targets:
          if isinstance(t, ast.Subscript) and norm(t.value) == 'self.' + TABLE: key_dels.append((meth, n.ast))
      if n.kind in ('def', 'branch', 'handler', 'join', 'for'): continue
      srcs = [n.ast] if not isinstance(n.ast, (ast.For, ast.While, ast.If, ast.With, ast.Try)) else []
      for src in srcs:
        for x in ast.walk(src):
          if isinstance(x, ast.Subscript) and isinstance(x.ctx, ast.Load) and norm(x.value) == 'self.' + TABLE and not isinstance(x.slice, ast.Slice):
            key = norm(x.slice)
            fs = q.fact_strs(gm, n)
            guarded = any(f_ == '%s in self.%s' % (key, TABLE) for f_ in fs) or any(h.ast.type is None or 'KeyError' in norm(h.ast.type) or 'Exception' in norm(h.ast.type) for h in gm.handlers_for(n)) \
                      or any(isinstance(lp, ast.For) and norm(lp.iter) in ('self.' + TABLE, 'self.%s.keys()' % TABLE, 'list(self.%s)' % TABLE) and norm(lp.target) == key for lp, h_, a_ in gm.loop_nodes)
            if not guarded: bare_loads.append((meth, x))
  if key_dels:
    f_, c_ = key_dels[0]
    for meth, x in bare_loads:
      ctx.bad('R-DOM', meth, "`%s` expects the event type to have a table entry" % norm(x)[:50],
              "%s deletes keys of the handler table (`%s`), yet %s indexes the table by type without a membership test: removing a handler of a type whose last listener has just gone (e.g. a one-shot handler that unsubscribed itself during delivery) raises KeyError to the raiser"
              % (f_.name, norm(c_)[:40], meth.name), (mod, x), 'D4')
    if not bare_loads: ctx.ob('R-DOM', em, "type keys may disappear and every lookup by type expects that", True, "all lookups guarded", em, 'D4')
  else:
    ctx.ob('R-OWN', em, "event-type keys are never deleted from the handler table", True, "%d unguarded lookups by type rely on it" % len(bare_loads), em, 'D4')

  # ---- D5 declared events ----------------------------------------------------------------
  undeclared = [('self._eventMixin_events is not True', True), ('eventType not in self._eventMixin_events', True), ('byName', False)]
  r = q.reach_under_cp(repo, mod, ag, q.Env(dict(undeclared)), em)
  muts = [q.enclosing_stmt_node(ag, c) for c in adds] + [q.enclosing_stmt_node(ag, s_) for t, v, s_, k in q.stores_in(add.node) if isinstance(t, ast.Subscript) and q.mentions_attr(t, TABLE)]
  leaked = [m for m in muts if m is not None and m in r]
  raises = [n for n in r if n.kind == 'raise_stmt' and 'ReventError' in n.text(200)]
  ctx.ob('R-DOM', add, "subscribing to an undeclared event type is rejected before the handler table changes", not leaked and bool(raises),
         "ReventError raised, table untouched" if (not leaked and raises) else "with the event type not declared, `%s` is still reachable" % (leaked[0].text(50) if leaked else 'no raise'), add, 'D5')
  r = q.reach_under(repo, mod, g, q.Env({'self._eventMixin_events is not True': True, 'eventType not in self._eventMixin_events': True,
                                           'isinstance(event, Event)': True, 'self._eventMixin_initialized is False': False}), em)
  leaked = [n for n in calls_h if n in r] + ([head] if head in r else [])
  rets = [n for n in r if n.kind == 'return']
  ctx.ob('R-DOM', raise_, "raising an instance of an undeclared event type is rejected before any delivery", not leaked and not rets,
         "ReventError before the dispatch loop, no early return" if not leaked and not rets else "dispatch/return reachable for an undeclared event instance", raise_, 'D5')

  # ---- D6 containment ----------------------------------------------------------------------
  ng = q.cfg_of(rne)
  rc = ng.nodes_with_call(lambda c: call_name(c) == 'raiseEvent')
  ctx.floor('suppressed raise site', len(rc), 1)
  for n in rc:
    hs = ng.handlers_for(n)
    catch_all = [h for h in hs if h.ast.type is None or norm(h.ast.type) in ('BaseException', 'Exception')]
    good = bool(catch_all) and not ng.raises_out(n)
    if good:
      # ... whatever it is: a handler may fail with something that is not an Exception (sys.exit() in a handler, KeyboardInterrupt while it
      # runs, GeneratorExit); `except Exception:` lets those through to the raiser
      total = [h for h in hs if h.ast.type is None or norm(h.ast.type) == 'BaseException']
      ctx.ob('R-CONTAIN', rne, "no failure of a handler reaches the raiser - not only Exception subclasses", bool(total), "bare except / BaseException" if total else
             "the widest handler around the suppressed raise is `except %s`: a handler that fails with SystemExit, KeyboardInterrupt or another BaseException propagates to the code that raised the event with error suppression (the hook is not called, None is not returned)"
             % norm(catch_all[0].ast.type), (mod, catch_all[0].ast), 'D6')
    ctx.ob('R-CONTAIN', rne, "handler exceptions never reach the raiser", good, "raiseEvent inside try with a catch-all handler" if good else
           "raiseEvent is not enclosed by a catch-all handler (%s): a handler's exception propagates to the code that raised the event" % [norm(h.ast.type) for h in hs if h.ast.type is not None], (mod, n.ast), 'D6')
    rer = [h for h in hs if h.ast.type is not None and norm(h.ast.type) == 'ReventError']
    okr = bool(rer) and any(isinstance(s_, ast.Raise) and s_.exc is None for s_ in rer[0].ast.body) and hs.index(rer[0]) < (hs.index(catch_all[0]) if catch_all else 99)
    # or: the catch-all itself sorts ReventError out and re-raises it
    guarded_reraise = []; other_reraise = []
    for h in catch_all:
      ids_ = set(id(x) for b_ in h.ast.body for x in ast.walk(b_))
      for rn_ in [x for x in ng.nodes if x.kind == 'raise_stmt' and id(x.ast) in ids_]:
        if any((f_.startswith('isinstance(') or f_.startswith('issubclass(')) and 'ReventError' in f_ and f_.endswith(':truthy') for f_ in q.fact_strs(ng, rn_)) and (rn_.ast.exc is None or (h.ast.name and norm(rn_.ast.exc) == h.ast.name)):
          guarded_reraise.append(rn_)
        elif rn_.ast.exc is None:
          other_reraise.append(rn_)
    okr = okr or bool(guarded_reraise)
    # a bare re-raise under some other condition may sort the error out in a way not modelled: undecided, not violated
    if not okr and other_reraise: okr = None
    ctx.ob('R-CONTAIN', rne, "undeclared-event errors still surface", okr, "except ReventError: raise precedes the catch-all" if okr else ("ReventError is swallowed" if okr is False else "the catch-all re-raises under a condition that is not recognised as selecting ReventError"), (mod, n.ast), 'D6')
    for h in catch_all:
      reraise = [s_ for s_ in ast.walk(h.ast) if isinstance(s_, ast.Raise) and not any(s_ is g_.ast for g_ in guarded_reraise)]
      ctx.ob('R-CONTAIN', rne, "the catch-all does not re-raise", not reraise, "no raise in the handler" if not reraise else "catch-all handler re-raises", (mod, h.ast), 'D6')
  hk = [c for c in calls_in(rne.node) if call_name(c) == 'handleEventException']
  core = repo.mod('core')
  hook = core.funcs.get('_revent_exception_hook')
  dflt = mod.funcs.get('handleEventException')
  for c in hk:
    for f in (hook, dflt):
      if f is None: continue
      ctx.ob('R-DEF', rne, "exception hook %s accepts the call" % f.qual, defs.arity_ok(f, c, bound=False), norm(c)[:70], (mod, c), 'D6')
  inst = [s_ for s_ in core.tree.body if isinstance(s_, ast.Assign) and norm(s_.targets[0]).endswith('handleEventException')]
  ctx.ob('R-AGREE', core.short + ':_revent_exception_hook', "core installs its logging hook", bool(inst) and norm(inst[0].value) == '_revent_exception_hook', norm(inst[0]) if inst else "hook not installed", (core, inst[0]) if inst else None, 'D6')
  for f in (hook,):
    if f is None: continue
    for nm, node in defs.undefined_names(repo, f):
      ctx.bad('R-DEF', f, "undefined name `%s`" % nm, "the exception hook itself raises", (f.module, node), 'D6')

  # the hook runs inside the catch-all of raiseEventNoErrors: what it raises replaces the handler's exception and is swallowed there,
  # but the log record is lost.  Decidable part: `fmt % x` with x the raiser's *args tuple / **kw dict formats only for one shape.
  for c in hk:
    va = rne.node.args.vararg.arg if rne.node.args.vararg else None
    ka = rne.node.args.kwarg.arg if rne.node.args.kwarg else None
    for f in (hook, dflt):
      if f is None: continue
      shapes = {}
      for i, a in enumerate(c.args):
        if i < len(f.params) and isinstance(a, ast.Name) and a.id in (va, ka): shapes[f.params[i]] = 'tuple' if a.id == va else 'dict'
      fg = q.cfg_of(f)
      stored = set(t.id for t, v_, s_, k in q.stores_in(f.node) if isinstance(t, ast.Name))
      for n in ast.walk(f.node):
        if isinstance(n, ast.BinOp) and isinstance(n.op, ast.Mod) and isinstance(n.left, ast.Constant) and isinstance(n.left.value, str) \
           and isinstance(n.right, ast.Name) and shapes.get(n.right.id) == 'tuple' and n.right.id not in stored:
          sn = q.enclosing_stmt_node(fg, n)
          if sn is None: continue
          hs_ = fg.handlers_for(sn)
          contained = any(h.ast.type is None or norm(h.ast.type) in ('BaseException', 'Exception', 'TypeError') for h in hs_)
          one = any(f_ in ('len(%s) == 1' % n.right.id,) for f_ in q.fact_strs(fg, sn))
          nspec = len([x for x in n.left.value.replace('%%', '').split('%')[1:]])
          if not contained and not one:
            ctx.bad('R-CONTAIN', f, "the exception hook itself cannot raise (`%s`)" % norm(n)[:50],
                    "`%s` is the tuple of extra arguments the event was raised with: formatting it with %d conversion(s) raises TypeError unless it has exactly %d element(s) - "
                    "the hook fails instead of logging the handler's exception" % (n.right.id, nspec, nspec), (f.module, n), 'D6')
  # what the hooks are handed as "exception info" and what they do with it agree: sys.exc_info() is a (type, value, traceback) triple
  # that may be indexed and star-unpacked; sys.exc_info()[1] is the exception object, which may not.  The hook runs inside the raiser's
  # except clause: what it raises escapes raiseEventNoErrors
  for c in hk:
    if len(c.args) < 5: continue
    a5 = c.args[4]
    kind = 'triple' if (isinstance(a5, ast.Call) and norm(a5.func) == 'sys.exc_info') else ('element' if isinstance(a5, ast.Subscript) and isinstance(a5.value, ast.Call) and norm(a5.value.func) == 'sys.exc_info' else None)
    if kind is None: continue
    for f in (hook, dflt):
      if f is None or len(f.params) < 5: continue
      pn = f.params[4]
      uses = []
      for x in ast.walk(f.node):
        if isinstance(x, ast.Subscript) and isinstance(x.value, ast.Name) and x.value.id == pn and isinstance(x.ctx, ast.Load): uses.append(('triple', x))
        if isinstance(x, ast.Starred) and isinstance(x.value, ast.Name) and x.value.id == pn: uses.append(('triple', x))
        if isinstance(x, ast.keyword) and x.arg == 'exc_info' and isinstance(x.value, ast.Name) and x.value.id == pn: uses.append(('either', x.value))
        if isinstance(x, ast.Attribute) and isinstance(x.value, ast.Name) and x.value.id == pn and isinstance(x.ctx, ast.Load): uses.append(('element', x))
      wrong = [(k_, x) for k_, x in uses if k_ not in ('either', kind)]
      fgk = q.cfg_of(f)
      wrong = [(k_, x) for k_, x in wrong if not (lambda sn_: sn_ is not None and any(h_.ast.type is None or norm(h_.ast.type) in ('Exception', 'BaseException') for h_ in fgk.handlers_for(sn_)))(q.enclosing_stmt_node(fgk, x))]
      ctx.ob('R-AGREE', f, "the hook uses its exception argument the way raiseEventNoErrors passes it (%s)" % ('sys.exc_info() triple' if kind == 'triple' else 'the exception object'), not wrong,
             "%d use(s) agree" % len(uses) if not wrong else
             "raiseEventNoErrors passes `%s` (%s) but %s does `%s`, which needs %s: the hook raises TypeError / AttributeError inside the except clause and the exception escapes raiseEventNoErrors - "
             "error suppression propagates a handler's failure to the raiser after all" % (norm(a5), 'a triple' if kind == 'triple' else 'one exception object', f.qual, norm(wrong[0][1])[:40], 'a triple' if wrong[0][0] == 'triple' else 'an exception object'),
             (f.module, wrong[0][1]) if wrong else f, 'D6')
  # ---- D7 weak handlers ------------------------------------------------------------------------
  cp = repo.cls(RV, 'CallProxy'); ci = cp.methods.get('__init__'); fm = cp.methods.get('_forgetMe')
  if ci is None or fm is None: raise AnalysisError("CallProxy.__init__/_forgetMe vanished")
  ctx.analysed(ci); ctx.analysed(fm)
  ps = ci.params
  for t, v, s_, k in q.stores_in(ci.node):
    if not (isinstance(t, ast.Attribute) and norm(t.value) == 'self') or v is None: continue
    holds_src = q.mentions_name(v, ps[1]); holds_h = q.mentions_name(v, ps[2])
    if not (holds_src or holds_h): continue
    weak = isinstance(v, ast.Call) and norm(v.func) in ('weakref.ref', 'ref', 'weakref.WeakMethod')
    harmless = isinstance(v, ast.Call) and call_name(v) == 'str' or (isinstance(v, ast.Attribute) and v.attr == '__func__')
    if weak:
      cb = v.args[1] if len(v.args) > 1 else None
      ctx.ob('R-AGREE', ci, "weak reference `%s` notifies the proxy when its referent dies" % norm(t), cb is not None and norm(cb) == 'self._forgetMe', norm(v), (mod, s_), 'D7')
    else:
      ctx.ob('R-AGREE', ci, "proxy holds no strong reference through `%s`" % norm(t), harmless, norm(s_) if harmless else
             "`%s` keeps a strong reference to the %s: a weakly subscribed handler no longer disappears with its owner" % (norm(s_), 'source' if holds_src else "handler's owner"), (mod, s_), 'D7')
  rmc = [c for c in calls_in(fm.node) if call_name(c) == 'removeListener']
  good = len(rmc) == 1 and norm(rmc[0].args[0]) == 'self.removeData'
  ctx.ob('R-AGREE', fm, "forgetting removes the listener by its stored id", good, norm(rmc[0]) if rmc else "no removeListener call", fm, 'D7')
  mk = [c for c in calls_in(add.node) if call_name(c) == 'CallProxy']
  good = len(mk) == 1 and len(mk[0].args) == 3 and norm(mk[0].args[2]) == '(eventType, eid)' and norm(mk[0].args[0]) == 'self'
  ctx.ob('R-AGREE', add, "weak subscription hands the proxy its own (type, eid)", good, norm(mk[0]) if mk else "no CallProxy", add, 'D7')
  if mk:
    n = q.enclosing_stmt_node(ag, mk[0])
    ctx.ob('R-DOM', add, "proxy only for weak subscriptions", 'weak:truthy' in q.fact_strs(ag, n), "under `if weak`", add, 'D7')
    en = [q.enclosing_stmt_node(ag, s_) for t, v, s_, k in q.stores_in(add.node) if isinstance(t, ast.Name) and t.id == 'eid']
    ctx.ob('R-ORDER', add, "the id given to the proxy is the id stored in the entry", bool(en) and ag.dominates(en[0], n), "eid generated before the proxy is built", add, 'D7')
  # returned id and stored entry
  ent = [v for t, v, s_, k in q.stores_in(add.node) if isinstance(t, ast.Name) and t.id == 'entry' and isinstance(v, ast.Tuple)]
  if not ent:
    # the tuple may be appended without a temporary
    ent = [c.args[0] for c in calls_in(add.node) if call_name(c) == 'append' and c.args and isinstance(c.args[0], ast.Tuple) and len(c.args[0].elts) == 4]
  good = bool(ent) and [norm(e) for e in ent[0].elts] == ['priority', 'handler', 'once', 'eid']
  ctx.ob('R-AGREE', add, "stored entry is (priority, handler, once, eid)", good, norm(ent[0]) if ent else "entry not found", add, 'D2')
  rt = [r for r in q.returns_of(add.node)]
  good = bool(rt) and all(norm(r.value) in ('(eventType, eid)',) for r in rt)
  ctx.ob('R-AGREE', add, "addListener returns the (type, eid) pair removeListener accepts", good, norm(rt[0].value) if rt else "", add, 'D7')

  # a weak subscription's handler is called through the proxy: what the handler returns (halt / unsubscribe requests) must come
  # back out of the proxy
  pc = cp.methods.get('__call__')
  if pc is not None:
    ctx.analysed(pc); gpc = q.cfg_of(pc)
    fw = [n_ for n_ in gpc.nodes if any(isinstance(c_.func, ast.Attribute) and c_.func.attr == 'method' and norm(c_.func.value) == 'self' for c_ in q.node_calls(n_))]
    ctx.floor('proxy forwarding call', len(fw), 1)
    for n_ in fw:
      c_ = [c_ for c_ in q.node_calls(n_) if isinstance(c_.func, ast.Attribute) and c_.func.attr == 'method'][0]
      if isinstance(n_.ast, ast.Return) or n_.kind == 'return': good = True
      elif isinstance(n_.ast, ast.Assign) and len(n_.ast.targets) == 1 and isinstance(n_.ast.targets[0], ast.Name):
        nm_ = n_.ast.targets[0].id
        rets_ = [r_ for r_ in gpc.nodes if r_.kind == 'return' and r_ in gpc.reachable(n_, exc=False)]
        good = bool(rets_) and all(r_.ast.value is not None and norm(r_.ast.value) == nm_ for r_ in rets_)
        if good and not q.must_pass_under(repo, mod, gpc, q.Env(), rets_, cp, start=n_)[0]: good = False
      elif isinstance(n_.ast, ast.Expr): good = False
      else: good = None
      ctx.ob('R-AGREE', pc, "the proxy hands back what the handler returned", good, "return self.method(...)" if good else
             "CallProxy.__call__ calls the handler and drops its result: a weakly subscribed handler that returns EventHalt / False / EventRemove no longer halts delivery or unsubscribes itself", (mod, c_), 'D7')
  # argument names bound crosswise to a callee's parameters of those very names (f(weak, priority) into def f(priority, weak))
  for f_, c_, callee_, pairs_ in q.crossed_arguments(repo, mod):
    ctx.bad('R-AGREE', f_, "`%s` passes each value to the parameter of its name" % norm(c_)[:60],
            "%s: the call binds %s - e.g. a requested priority arrives as the `weak` flag (any non-zero priority makes the subscription weak and unordered) and weak=True becomes priority 1"
            % (callee_.qual, ", ".join("argument `%s` to parameter `%s`" % (a_, p_) for a_, p_ in pairs_[:2])), (mod, c_), 'D8')
  ctx.stat('crossed-argument scan', 1)
  # ---- D8 by-name wiring ---------------------------------------------------------------------------
  ab = mod.funcs.get('autoBindEvents')
  if ab is None: raise AnalysisError("autoBindEvents vanished")
  ctx.analysed(ab)
  def slen (e):
    """length of a string expression as (constant, {variable: multiplicity}) or None"""
    if isinstance(e, ast.Constant) and isinstance(e.value, str): return (len(e.value), {})
    if isinstance(e, ast.BinOp) and isinstance(e.op, ast.Add):
      a_, b_ = slen(e.left), slen(e.right)
      if a_ is None or b_ is None: return None
      d = dict(a_[1])
      for k_, v_ in b_[1].items(): d[k_] = d.get(k_, 0) + v_
      return (a_[0] + b_[0], d)
    if isinstance(e, ast.Name):
      v = repo.try_const(mod, e, None)
      if isinstance(v, str): return (len(v), {})
      return (0, {e.id: 1})
    return None
  def ilen (e):
    if isinstance(e, ast.Constant) and isinstance(e.value, int): return (e.value, {})
    if isinstance(e, ast.Call) and call_name(e) == 'len' and len(e.args) == 1: return slen(e.args[0])
    if isinstance(e, ast.BinOp) and isinstance(e.op, ast.Add):
      a_, b_ = ilen(e.left), ilen(e.right)
      if a_ is None or b_ is None: return None
      d = dict(a_[1])
      for k_, v_ in b_[1].items(): d[k_] = d.get(k_, 0) + v_
      return (a_[0] + b_[0], d)
    if isinstance(e, ast.Name):
      d_ = q.single_def(ab.node, e.id)
      if d_ is not None: return ilen(d_)
    return None
  def sresolve (e):
    if isinstance(e, ast.Name):
      d_ = q.single_def(ab.node, e.id)
      if d_ is not None and repo.try_const(mod, e, None) is None: return d_
    return e
  lit = None; off = None
  tests = {}
  for c in calls_in(ab.node):
    if call_name(c) == 'startswith' and c.args and isinstance(c.func.value, ast.Name): tests.setdefault(c.func.value.id, []).append(slen(sresolve(c.args[0])))
  for n in ast.walk(ab.node):
    if isinstance(n, ast.Subscript) and isinstance(n.slice, ast.Slice) and n.slice.lower is not None and n.slice.upper is None and isinstance(n.value, ast.Name) and n.value.id in tests:
      off = ilen(n.slice.lower); subj = n.value.id
      lit = tests[subj][-1]
      if off in tests[subj]: lit = off
  ctx.ob('R-AGREE', ab, "event name is what follows '_handle' + prefix + '_'", lit is not None and off == lit, "slice offset %s, tested prefix length %s (constant, {variable: count})" % (off, lit), ab, 'D8')
  byname = [n for n in ast.walk(add.node) if isinstance(n, ast.Compare) and '__name__' in norm(n.left) and norm(n.comparators[0]) == 'eventType']
  ctx.ob('R-AGREE', add, "by-name subscription compares the event class's __name__", bool(byname), norm(byname[0]) if byname else "no __name__ comparison", add, 'D8')

def _is_snapshot (e):
  if isinstance(e, ast.Call) and call_name(e) in ('list', 'tuple', 'sorted', 'copy') and not isinstance(e.func, ast.Attribute): return True
  if isinstance(e, ast.Call) and isinstance(e.func, ast.Attribute) and e.func.attr == 'copy': return True
  if isinstance(e, ast.Subscript) and isinstance(e.slice, ast.Slice) and e.slice.lower is None and e.slice.upper is None: return True
  if isinstance(e, (ast.ListComp, ast.List, ast.Tuple)): return True
  return False

def _is_handler_call (c, h_v):
  if isinstance(c.func, ast.Name) and c.func.id == h_v: return True
  if call_name(c) == '_invoke' and c.args and norm(c.args[0]) == h_v: return True
  return False

def _lines (path):
  out = []
  for n in path:
    if n.line and (not out or out[-1] != n.line): out.append(n.line)
  return out
