"""C06 - cooperative scheduler runs each step once, in isolation (structural part).

 D1 cycle(): interpretation of the yielded value - each arm re-queues / registers / drops the task at most
    once and in the right way (decided by path-sensitive reachability for each kind of yielded value)
 D2 R-CONTAIN: t.execute() and rv.execute() are each enclosed by a catch-all that returns without re-queueing
 D3 per-operation resume table: number of scheduling effects on every path of each BlockingOperation.execute
 D4 select hub: every _return(t, ..) is preceded by `del tasks[t]`; expiry test is `tto <= now`; the timeout
    task is resumed only when the *raw* select result is empty (a ping alone never resumes a timed waiter);
    new registrations are taken from the incoming queue only in the pinger branch
 D5 Timer.run: one callback per wake, cancel tested after the wake, non-recurring / self-stopping leave the loop
 D6 sub-task return: run_again reschedules the parent exactly once on every normal exit; results / exceptions
    reach parent.task.rv / .re; BaseTask.execute delivers rf / re / rv on disjoint branches and clears them;
    no closure reads an except-clause name after the handler has ended
 D7 R-DEF over the blocking operations
"""
import ast
from .. import q, defs
from ..model import AnalysisError, calls_in, call_name, norm, kwarg, walk_no_nested

EXPLAIN = ("R-EFFECT scheduling effects per arm of Scheduler.cycle (path-sensitive reachability per yielded-value kind) and per "
           "BlockingOperation.execute (resume table confirmed by reading); R-CONTAIN around task and operation execution; R-ORDER/R-DOM "
           "select-hub pairing (del before _return), expiry orientation, timeout dispatch only on an unmodified empty select result; "
           "Timer.run shape; sub-task return exactly-once rescheduling; R-DEF incl. except-clause names escaping through closures. "
           "Decides these necessary conditions, not fairness, wall-clock accuracy or program order inside user generators.")
RC = 'lib.recoco.recoco'
SCHED = ('fast_schedule', 'schedule', 'registerSelect', 'registerTimer')

RESUME = {   # class -> (lo, hi) scheduling effects of execute() on any path; confirmed by reading the code
  'DummyOp': (1, 1), 'Sleep': (0, 1), 'Select': (1, 1), 'Recv': (1, 1), 'RecvFrom': (1, 1), 'Send': (1, 1), 'Exit': (0, 0),
  'CallBlocking': (0, 0), 'Again': (1, 1), '_LockAcquire': (0, 0), '_LockRelease': (0, 1), 'BlockingOperation': (0, 0),
}

def _sched_weight (cls, depth=2):
  def w (n, d=depth):
    lo = hi = 0
    for c in q.node_calls(n):
      if call_name(c) in SCHED: lo += 1; hi += 1
      elif call_name(c) in ('append', 'appendleft') and '_ready' in norm(c.func.value): lo += 1; hi += 1
      elif d > 0 and isinstance(c.func, ast.Attribute) and norm(c.func.value) in ('self', 'self._parent') and cls is not None:
        owner = cls if norm(c.func.value) == 'self' else None
        f = owner.find_method(c.func.attr) if owner else None
        if f is None and norm(c.func.value) == 'self._parent':
          f = cls.module.classes['Lock'].find_method(c.func.attr) if 'Lock' in cls.module.classes else None
        if f is not None and f.name != 'execute':
          g = q.cfg_of(f); iv = g.interval(lambda x: w(x, d - 1))
          if iv: lo += iv[0]; hi += iv[1]
    return (lo, min(hi, 2))
  return w

def run (ctx):
  ctx.explanation = EXPLAIN
  ctx.assumptions = ["tasks are generators driven only through BaseTask.execute", "the resume table in this check was confirmed by reading each operation"]
  repo = ctx.repo
  mod = repo.mod(RC)
  sch = repo.cls(RC, 'Scheduler'); hub = repo.cls(RC, 'SelectHub'); bt = repo.cls(RC, 'BaseTask'); bo = repo.cls(RC, 'BlockingOperation')
  cyc = q.find_method(repo, sch, 'cycle', 'C06'); ctx.analysed(cyc)
  # the rules below speak of the task `t` and of what it yielded, `rv`: whatever the two locals are called in the tree under analysis,
  # they are the receiver and the target of the one `<yielded> = <task>.execute()` statement
  for st_ in ast.walk(cyc.node):
    if isinstance(st_, ast.Assign) and len(st_.targets) == 1 and isinstance(st_.targets[0], ast.Name) and isinstance(st_.value, ast.Call) and call_name(st_.value) == 'execute' \
       and not st_.value.args and isinstance(st_.value.func, ast.Attribute) and isinstance(st_.value.func.value, ast.Name):
      ren_ = {st_.targets[0].id: 'rv', st_.value.func.value.id: 't'}
      used_ = set(n_.id for n_ in ast.walk(cyc.node) if isinstance(n_, ast.Name))
      for old_, new_ in ren_.items():
        if old_ != new_ and new_ not in used_:
          for n_ in ast.walk(cyc.node):
            if isinstance(n_, ast.Name) and n_.id == old_: n_.id = new_
      break
  g = q.cfg_of(cyc)
  # ---- D2 containment -----------------------------------------------------------------------
  tex = g.nodes_with_call(lambda c: call_name(c) == 'execute' and norm(c.func.value) == 't')
  rex = g.nodes_with_call(lambda c: call_name(c) == 'execute' and norm(c.func.value) == 'rv')
  ctx.floor('task execution site', len(tex), 1); ctx.floor('operation execution site', len(rex), 1)
  requeue = [n for n in g.nodes if any((call_name(c) in ('append', 'appendleft') and '_ready' in norm(c.func.value)) or call_name(c) in ('registerTimer', 'registerSelect', 'fast_schedule') for c in q.node_calls(n))]
  # the append inside the priority-selection loop (before execution) is not a re-queue after a step
  requeue = [n for n in requeue if any(n in g.reachable(x) for x in tex)]
  for n in tex:
    hs = g.handlers_for(n)
    si = [h for h in hs if h.ast.type is not None and norm(h.ast.type) == 'StopIteration']
    ca = [h for h in hs if h.ast.type is None or norm(h.ast.type) in ('Exception', 'BaseException')]
    ctx.ob('R-CONTAIN', cyc, "a task that raises is caught by the scheduler", bool(ca) and not g.raises_out(n), "catch-all around t.execute()" if ca else
           "t.execute() is not enclosed by a catch-all: one task's exception ends Scheduler.run for all tasks", (mod, n.ast), 'D2')
    if ca and not g.raises_out(n):
      # ... whatever it raises: a task step is arbitrary code (sys.exit() in a component's task, GeneratorExit); `except Exception:` lets
      # those end cycle() - and with it Scheduler.run for every task
      total = [h for h in ca if h.ast.type is None or norm(h.ast.type) == 'BaseException']
      ctx.ob('R-CONTAIN', cyc, "no failure of a task step ends the scheduler - not only Exception subclasses", bool(total), "bare except / BaseException" if total else
             "the widest handler around t.execute() is `except %s`: a task that raises SystemExit, KeyboardInterrupt or another BaseException escapes cycle() and ends Scheduler.run - every other task, sleeper and timer stops"
             % norm(ca[0].ast.type), (mod, ca[0].ast), 'D2')
    for h in si + ca:
      r = g.reachable(h, exc=False)
      rq = [x for x in requeue if x in r]; again = [x for x in tex if x in r]
      ctx.ob('R-EFFECT', cyc, "after `%s` the task is neither re-queued nor re-run" % h.text(30), not rq and not again,
             "handler returns without touching the ready queue" if not rq and not again else
             "the handler continues to `%s`: a finished / failed task is %s" % ((rq + again)[0].text(40), "run again" if again else "re-queued"), (mod, h.ast), 'D2')
  # what the scheduler does *inside* that handler must not fail either: formatting the failed task (print / log with the task as an
  # argument calls its __str__) is wrapped in a try of its own, or every task class's __str__ is total (conversions and getattr with a
  # default only - `self.gen.gi_frame.f_lineno` is not: a generator that has finished has no frame)
  def total_str (f_):
    for x_ in ast.walk(f_.node):
      if isinstance(x_, ast.Attribute) and isinstance(x_.value, ast.Attribute) and isinstance(x_.ctx, ast.Load) and norm(x_.value.value).startswith('self'): return False, norm(x_)
      if isinstance(x_, ast.Subscript) and isinstance(x_.ctx, ast.Load): return False, norm(x_)
    return True, ''
  strs_ = [(k_, k_.methods['__str__']) for k_ in mod.classes.values() if '__str__' in k_.methods and any(b_.name == 'BaseTask' for b_ in k_.mro())]
  partial_ = [(k_, f_, total_str(f_)[1]) for k_, f_ in strs_ if not total_str(f_)[0]]
  for n in tex:
    for h in [h for h in g.handlers_for(n) if h.ast.type is None or norm(h.ast.type) in ('Exception', 'BaseException')]:
      tv_ = None
      for c_ in q.node_calls(n):
        if call_name(c_) == 'execute' and isinstance(c_.func, ast.Attribute) and isinstance(c_.func.value, ast.Name): tv_ = c_.func.value.id
      if tv_ is None: continue
      for x in g.reachable(h, exc=False):
        if x.kind in ('handler',) or x.ast is None: continue
        fm = [c_ for c_ in q.node_calls(x) if call_name(c_) in ('print', 'str', 'repr', 'debug', 'info', 'warning', 'error', 'exception', 'format') and any(isinstance(a_, ast.Name) and a_.id == tv_ for a_ in c_.args)]
        if not fm: continue
        inner = [t_ for t_ in g.try_of.get(x, ()) if any(y_ is x.ast or any(z_ is x.ast for z_ in ast.walk(y_)) for y_ in t_.body) and t_ is not g.try_of.get(n, [None])[-1]]
        protected = any(any(hh_.type is None or norm(hh_.type) in ('Exception', 'BaseException') for hh_ in t_.handlers) for t_ in inner)
        good = protected or not partial_
        ctx.ob('R-CONTAIN', cyc, "reporting a failed task cannot itself fail (`%s`)" % norm(fm[0])[:40], good,
               "inside its own try" if protected else "every task __str__ is total" if good else
               "`%s` formats the failed task outside any try, and %s.__str__ evaluates `%s`, which raises for a task whose generator has finished: the exception leaves cycle() and ends Scheduler.run - "
               "one failing task stops every task, sleeper and timer" % (norm(fm[0])[:50], partial_[0][0].name, partial_[0][2]), (mod, x.ast), 'D2')
  for n in rex:
    ca = [h for h in g.handlers_for(n) if h.ast.type is None or norm(h.ast.type) in ('Exception', 'BaseException')]
    ctx.ob('R-CONTAIN', cyc, "a failing blocking operation is caught by the scheduler", bool(ca) and not g.raises_out(n), "catch-all around rv.execute()", (mod, n.ast), 'D2')
    for h in ca:
      r = g.reachable(h, exc=False)
      if [x for x in requeue + tex if x in r]:
        # plain reachability says the task may run again: decide with constant propagation (flags such as
        # `keep_running = False` end the loop although the syntax allows another iteration)
        r = set()
        for t0 in tex:
          for path, fe in q.paths_under(repo, mod, g, q.Env({}), t0, [g.exit, g.raise_exit, t0], sch, limit=400):
            if h in path: r.update(path[path.index(h) + 1:])
      bad_ = [x for x in requeue + tex if x in r]
      ctx.ob('R-EFFECT', cyc, "after a failing blocking operation the task is dropped", not bad_, "no re-queue / re-run" if not bad_ else
             "after the handler, `%s` is reachable: a task whose blocking operation failed is scheduled again" % bad_[0].text(40), (mod, h.ast), 'D2')
  # ---- D1 arms ----------------------------------------------------------------------------------
  is_bo = lambda e: isinstance(e, ast.Call) and call_name(e) == 'isinstance' and 'BlockingOperation' in norm(e)
  ARMS = [("a blocking operation", {'rv': '<op>'}, [(is_bo, True)], 'op'), ("False (unschedule)", {'rv': False}, [(is_bo, False)], 'none'),
          ("0 (yield the slice)", {'rv': 0}, [(is_bo, False)], 'append'), ("a positive number (sleep)", {'rv': 2.5}, [(is_bo, False)], 'timer'),
          ("a positive int (sleep)", {'rv': 3}, [(is_bo, False)], 'timer'), ("None", {'rv': None}, [(is_bo, False)], 'raise')]
  start = tex[0] if tex else g.entry
  n_arm = 0
  for what, ex, ms, want in ARMS:
    env = q.Env(dict(ex), ms)
    r = q.reach_under(repo, mod, g, env, sch, start=start)
    app = [n for n in r if any(call_name(c) in ('append', 'appendleft') and '_ready' in norm(c.func.value) for c in q.node_calls(n))]
    tim = [n for n in r if any(call_name(c) == 'registerTimer' for c in q.node_calls(n))]
    ope = [n for n in r if n in rex]
    rai = [n for n in r if n.kind == 'raise_stmt']
    got = {'op': bool(ope) and not app and not tim, 'none': not app and not tim and not ope, 'append': bool(app) and not tim and not ope,
           'timer': bool(tim) and not app and not ope, 'raise': bool(rai) and not app and not tim and not ope}[want]
    n_arm += 1
    ctx.ob('R-EFFECT', cyc, "task yields %s" % what, got, {'op': "the operation is executed, nothing else", 'none': "task left unscheduled", 'append': "re-queued at the tail", 'timer': "timer registered", 'raise': "rejected"}[want] if got else
           "for this yielded value the scheduler reaches append=%s timer=%s op=%s raise=%s (expected: %s)" % (bool(app), bool(tim), bool(ope), bool(rai), want), cyc, 'D1')
    if want == 'append':
      iv = g.interval(lambda n: n in app, start=start)
      ctx.ob('R-EFFECT', cyc, "a task yielding 0 is queued exactly once", iv is not None and iv[1] <= 1, "append count %s" % (iv,), cyc, 'D1')
  ctx.floor('cycle arms decided', n_arm, 5)
  # the same task is run again at once only when the operation returned True: decided by propagating each possible
  # result of rv.execute() through the paths that lead back to t.execute()
  if tex and rex:
    again = {}
    for val in (True, False, None, 2):
      def hook (call, env=None, val=val):
        return (True, val) if (call_name(call) == 'execute' and norm(call.func.value) == 'rv') else (False, None)
      ps = q.paths_under(repo, mod, g, q.Env({'rv': '<op>'}, [(is_bo, True)], hook), tex[0], [g.exit, g.raise_exit, tex[0]], sch, limit=400)
      again[val] = any(p_[-1] is tex[0] and any(x in rex for x in p_) for p_, e_ in ps)
    good = again[True] and not again[False] and not again[None] and not again[2]
    ctx.ob('R-DOM', cyc, "the task keeps running only when the operation reclaimed the running state (returned True)", good,
           "t.execute() is reached again iff rv.execute() returned True" if good else "re-run of the task by operation result: %s (expected only for True)" % again, cyc, 'D1')
  # ---- D3 resume table -------------------------------------------------------------------------
  subs = [bo] + repo.subclasses(bo)
  n_ops = 0
  for c in subs:
    if c.module is not mod: continue
    ex = c.methods.get('execute')
    if ex is None: continue
    ctx.analysed(ex); n_ops += 1
    want = RESUME.get(c.name)
    gg = q.cfg_of(ex); iv = gg.interval(_sched_weight(c))
    if want is None:
      ctx.undecided('R-EFFECT', ex, "scheduling effects of %s.execute" % c.name, "operation not in the confirmed resume table (effects %s)" % (iv,), ex, 'D3'); continue
    good = iv is not None and iv[0] >= want[0] and iv[1] <= want[1]
    ctx.ob('R-EFFECT', ex, "%s.execute schedules / registers the task %s time(s)" % (c.name, "%d..%d" % want if want[0] != want[1] else want[0]), good,
           "effects on all paths: %s" % (iv,) if good else "effects on the paths of execute() are %s, the operation's contract is %s: the task is %s" % (iv, want, "resumed more than once" if iv and iv[1] > want[1] else "never resumed on some path"), ex, 'D3')
    if c.name == 'DummyOp':
      ctx.ob('R-AGREE', ex, "DummyOp hands its value to the task", any(norm(t) == 'task.rv' and norm(v) == 'self.rv' for t, v, st, k in q.stores_in(ex.node) if v is not None), "task.rv = self.rv", ex, 'D3')
    for nm, node in defs.undefined_names(repo, ex):
      ctx.bad('R-DEF', ex, "undefined name `%s`" % nm, "NameError inside the operation: the task is de-scheduled", (mod, node), 'D7')
    for name, f in c.methods.items():
      if name in ('execute', '__init__'): continue
      for nm, node in defs.undefined_names(repo, f):
        ctx.bad('R-DEF', f, "undefined name `%s`" % nm, "NameError on this path of the operation: the waiting task is never resumed", (mod, node), 'D7')
  ctx.floor('blocking operations analysed', n_ops, 11)
  cb = repo.cls(RC, 'CallBlocking').methods.get('_proc')
  if cb is not None:
    gg = q.cfg_of(cb); iv = gg.interval(_sched_weight(None))
    ctx.ob('R-EFFECT', cb, "the worker thread of CallBlocking reschedules the task exactly once", iv == (1, 1), "effects %s" % (iv,), cb, 'D3')
  # Sleep never resumes before its time: immediate reschedule only when t == 0 or t < now
  sl = repo.cls(RC, 'Sleep').methods.get('execute')
  if sl is not None:
    gg = q.cfg_of(sl)
    imm = gg.nodes_with_call(lambda c: call_name(c) == 'fast_schedule')
    r = q.reach_under(repo, mod, gg, q.Env({'self._t is None': False, 'self._t == 0': False, 'self._t < time.time()': False, 'self._t <= time.time()': False}), None)
    leak = [n for n in imm if n in r]
    ctx.ob('R-DOM', sl, "Sleep resumes at once only when the wake time has passed", bool(imm) and not leak, "immediate reschedule unreachable for a future wake time" if not leak else
           "a task sleeping until a future time is rescheduled immediately", sl, 'D3')
    reg = [c for c in calls_in(sl.node) if call_name(c) == 'registerTimer']
    ctx.ob('R-AGREE', sl, "Sleep registers its absolute wake time", bool(reg) and norm(reg[0].args[1]) == 'self._t' and norm(reg[0].args[2]) == 'True', norm(reg[0]) if reg else "?", sl, 'D3')
  # ---- D4 select hub ---------------------------------------------------------------------------------
  sel = q.find_method(repo, hub, '_select', 'C06'); ctx.analysed(sel)
  g2 = q.cfg_of(sel)
  rets = g2.nodes_with_call(lambda c: call_name(c) == '_return')
  ctx.floor('hub resume sites', len(rets), 3)
  dels = [n for n in g2.nodes if n.ast is not None and isinstance(n.ast, ast.Delete) and norm(n.ast.targets[0].value) == 'tasks']
  for n in rets:
    c = [c for c in q.node_calls(n) if call_name(c) == '_return'][0]
    tv = norm(c.args[0])
    prior = [d for d in dels if norm(d.ast.targets[0].slice) == tv and g2.dominates(d, n)]
    ctx.ob('R-ORDER', sel, "`%s` is preceded by forgetting the task's registration" % norm(c)[:40], bool(prior), "del tasks[%s] dominates the resume" % tv if prior else
           "the task is resumed while still registered in `tasks`: the next cycle resumes it a second time", (mod, c), 'D4')
  exp = [n for n in g2.nodes if n.kind == 'cond' and 'tto' in norm(n.ast) and 'now' in norm(n.ast) and 'tto - now' not in norm(n.ast)]
  good = bool(exp) and all(norm(n.ast) in ('tto <= now', 'now >= tto') for n in exp)
  ctx.ob('R-AGREE', sel, "a timed wait counts as expired only when its deadline is not in the future", good, norm(exp[0].ast) if exp else "no expiry test", sel, 'D4')
  # a waiter found expired is resumed as expired and nothing else: its descriptors must not reach select() in the same pass
  # (otherwise it is returned twice and the second `del tasks[t]` raises)
  expn = [n for n in g2.nodes if any(call_name(c) == 'append' and 'expired' in norm(c.func.value) for c in q.node_calls(n))]
  regs = [n for n in g2.nodes if n.kind == 'stmt' and isinstance(n.ast, ast.Assign) and isinstance(n.ast.targets[0], ast.Subscript) and isinstance(n.ast.targets[0].value, ast.Name)
          and n.ast.targets[0].value.id in ('rl', 'wl', 'xl')]
  # ... or entered several at a time: rl.update((i, t) for i in trl)
  regs += [n for n in g2.nodes if n.ast is not None and n.kind == 'stmt' and any(call_name(c_) in ('update', 'setdefault') and isinstance(c_.func, ast.Attribute) and isinstance(c_.func.value, ast.Name)
           and c_.func.value.id in ('rl', 'wl', 'xl') for c_ in q.node_calls(n)) and n not in regs]
  ctx.floor('hub: expiry collection site', len(expn), 1); ctx.floor('hub: descriptor registration sites', len(regs), 3)
  for (st_, h_, af_) in g2.loop_nodes:
    body = g2.loop_body_nodes(h_)
    for e_ in expn:
      if e_ not in body or not (isinstance(st_, ast.For) and 'tasks' in norm(st_.iter)): continue
      after = g2.reachable(e_, avoid=[h_], exc=False)
      both = [r_ for r_ in regs if r_ in body and (r_ in after or e_ in g2.reachable(r_, avoid=[h_], exc=False))]
      ctx.ob('R-EFFECT', sel, "an expired waiter's descriptors are not also handed to select()", not both,
             "expiry and descriptor registration exclude each other within one scan step" if not both else
             "within one step of the scan both `%s` and `%s` can run for the same task: it is resumed as expired and, if a descriptor is ready, returned a second time (del tasks[t] then raises KeyError and the hub dies)" % (e_.text(30), both[0].text(30)),
             (mod, e_.ast), 'D4')
  # the waiter with the nearest deadline is resumed when select comes back empty - so select must have been given that deadline, not
  # something shorter: the default wait replaces the timeout only when no waiter has a deadline at all
  tstores = [n for n in g2.nodes if n.kind == 'stmt' and isinstance(n.ast, ast.Assign) and len(n.ast.targets) == 1 and norm(n.ast.targets[0]) == 'timeout'
             and isinstance(n.ast.value, (ast.Name, ast.Attribute, ast.Constant)) and norm(n.ast.value) not in ('None', 'tt')]
  none_false = [((lambda e: isinstance(e, ast.Compare) and norm(e.left) == 'timeout' and isinstance(e.ops[0], ast.Is) and norm(e.comparators[0]) == 'None'), False),
                ((lambda e: isinstance(e, ast.Compare) and norm(e.left) == 'timeout' and isinstance(e.ops[0], ast.IsNot) and norm(e.comparators[0]) == 'None'), True)]
  if tstores:
    r_nf = q.reach_under(repo, mod, g2, q.Env({}, none_false), hub)
    for n in tstores:
      if not any('CYCLE' in norm(x) or isinstance(x, ast.Constant) for x in ast.walk(n.ast.value)): continue
      if not any(isinstance(e_, ast.Compare) and (none_false[0][0](e_) or none_false[1][0](e_)) for e_ in ast.walk(sel.node)):
        # "no waiter has a deadline" is not represented by `timeout is None` in this tree (e.g. one Optional (deadline, task) pair)
        ctx.undecided('R-DOM', sel, "the default wait replaces the select timeout only when no waiter has a deadline (`%s`)" % n.text(40), "no `timeout is None` test: the representation of 'no deadline' is not recognised", (mod, n.ast), 'D4'); continue
      ctx.ob('R-DOM', sel, "the default wait replaces the select timeout only when no waiter has a deadline (`%s`)" % n.text(40), n not in r_nf, "only under `timeout is None`" if n not in r_nf else
             "`%s` is reachable although a waiter's deadline was chosen as the timeout: select() comes back empty after the shorter default wait and the nearest-deadline waiter is resumed as if its time had come - "
             "a task that asked to sleep longer than the default wait is resumed early whenever the hub is otherwise idle" % n.text(40), (mod, n.ast), 'D4')
  # timeout dispatch only for an unmodified empty select result
  selcall = [n for n in g2.nodes if isinstance(n.ast, ast.Assign) and isinstance(n.ast.value, ast.Call) and '_select_func' in norm(n.ast.value.func)]
  if selcall:
    res_names = [norm(e) for e in selcall[0].ast.targets[0].elts] if isinstance(selcall[0].ast.targets[0], ast.Tuple) else []
    tdis = [n for n in rets if 'timeoutTask' in norm(n.ast)]
    for n in tdis:
      fs = q.fact_strs(g2, n)
      empty = all(('len(%s) == 0' % r_) in fs or ('%s:falsy' % r_) in fs or ('not %s:truthy' % r_) in fs for r_ in res_names)
      ctx.ob('R-DOM', sel, "the nearest-deadline waiter is resumed only when select returned nothing", empty, "under len(ro)==len(wo)==len(xo)==0" if empty else "facts %s" % fs, (mod, n.ast), 'D4')
      muts = [m for m in g2.nodes if any(call_name(c) in ('remove', 'pop', 'clear') and norm(c.func.value) in res_names for c in q.node_calls(m))] + \
             [m for m in g2.nodes if isinstance(m.ast, ast.Assign) and m is not selcall[0] and any(norm(t) in res_names for t in m.ast.targets)]
      tainted = [m for m in muts if n in g2.reachable(m, avoid=[selcall[0]])]
      ctx.ob('R-ORDER', sel, "that emptiness test looks at the raw select result (the wake-up pipe counts as activity)", not tainted,
             "no removal from the result lists precedes the timeout dispatch" if not tainted else
             "`%s` edits the select result before the 'nothing happened' test: a wake-up ping alone (no I/O, no deadline reached) resumes the nearest-deadline task early" % tainted[0].text(40), (mod, n.ast), 'D4')
  # (the hand-over buffer is a Queue drained with get() or a deque drained with popleft(); its emptiness test is .empty() or its truth value)
  inc = g2.nodes_with_call(lambda c: call_name(c) in ('get', 'get_nowait', 'popleft', 'pop') and isinstance(c.func, ast.Attribute) and '_incoming' in norm(c.func.value))
  for n in inc:
    fs = q.fact_strs(g2, n)
    ctx.ob('R-DOM', sel, "new registrations are picked up in the pinger branch", any('self._pinger in' in f for f in fs), "under pinger in ro", (mod, n.ast), 'D4')
  # the wake-up pipe is cleared *before* the incoming queue is drained: a registration that arrives after the last get() but before a
  # later pong has its ping swallowed and sits in the queue until some unrelated wake-up (shared with C07)
  hub_pong_order(ctx, repo, sel, g2, mod, 'D4')
  from . import c07 as c07_
  c07_.pinger_rules(ctx, repo, 'D4')
  hr = q.find_method(repo, hub, '_return', 'C06'); ctx.analysed(hr)
  iv = q.cfg_of(hr).interval(_sched_weight(hub))
  ctx.ob('R-EFFECT', hr, "the hub resumes a task by scheduling it exactly once with its result", iv == (1, 1) and any(norm(t) == hr.params[1] + '.rv' for t, v, st, k in q.stores_in(hr.node)), "effects %s" % (iv,), hr, 'D4')
  rsel = q.find_method(repo, hub, 'registerSelect', 'C06'); ctx.analysed(rsel)
  put = [c for c in calls_in(rsel.node) if call_name(c) in ('put', 'put_nowait', 'append') and isinstance(c.func, ast.Attribute) and '_incoming' in norm(c.func.value)]
  cyc_ = [c for c in calls_in(rsel.node) if call_name(c) == '_cycle']
  ctx.ob('R-ORDER', rsel, "a registration is published, then the hub is woken", bool(put) and bool(cyc_) and put[0].lineno < cyc_[0].lineno, "put then _cycle", rsel, 'D4')
  if put:
    # what is published is what the select loop unpacks: the task first (it is the key of the hub's table)
    a0_ = put[0].args[0] if put[0].args else None
    ctx.ob('R-AGREE', rsel, "the published registration names the task first", isinstance(a0_, ast.Tuple) and bool(a0_.elts) and norm(a0_.elts[0]) == rsel.params[1], norm(a0_) if a0_ is not None else "?", (mod, put[0]), 'D4')
  rel = [st for t, v, st, k in q.stores_in(rsel.node) if isinstance(t, ast.Name) and t.id == 'timeout' and k == 'augassign']
  if rel:
    gg = q.cfg_of(rsel); n = q.enclosing_stmt_node(gg, rel[0]); fs = q.fact_strs(gg, n)
    ctx.ob('R-DOM', rsel, "relative timeouts are converted to absolute deadlines exactly when they are relative", 'timeIsAbsolute:falsy' in fs and any(f.startswith('timeout !=') or f.startswith('timeout is not') for f in fs) and 'time.time()' in norm(rel[0].value), norm(rel[0]), rsel, 'D4')
  # Select(rlist, wlist, xlist, timeout): whatever normalisation the constructor applies to the three lists, the fourth positional
  # argument (the timeout) reaches registerSelect - evaluated on Select('r', None, 'x', 5)
  selc = repo.cls(RC, 'Select'); si = selc.methods.get('__init__') if selc is not None else None
  if si is not None and si.node.args.vararg is not None:
    ctx.analysed(si); sg = q.cfg_of(si); va = si.node.args.vararg.arg
    def hook_ (call, env=None):
      if isinstance(call.func, ast.Name) and call.func.id == 'aslist' and len(call.args) == 1: return (True, 'L')
      return (False, None)
    tg = [n for n in sg.nodes if n.kind == 'stmt' and isinstance(n.ast, ast.Assign) and norm(n.ast.targets[0]) == 'self._args']
    outs = set()
    for smp in (('r', None, 'x', 5), (['r'], None, None, 5)):
      for p_, e_ in q.paths_under(repo, mod, sg, q.Env({va: smp}, [], hook_), sg.entry, tg, selc, limit=60):
        try: v_ = q.eval_env2(repo, mod, p_[-1].ast.value, e_, selc); outs.add((len(v_), v_[3] if len(v_) > 3 else None))
        except Exception: outs.add('?')
    if not tg or not outs or '?' in outs:
      ctx.undecided('R-AGREE', si, "Select keeps its timeout argument", "constructor not evaluable on the sample call", si, 'D4')
    else:
      ctx.ob('R-AGREE', si, "Select keeps its timeout argument", outs == {(4, 5)}, "Select(r, w, x, 5) -> 4 arguments, timeout 5" if outs == {(4, 5)} else
             "for Select(rlist, wlist, xlist, 5) the stored argument list is (length, timeout) = %s: the timeout is dropped, so a task waiting with a timeout on an idle socket is never resumed" % sorted(outs, key=str), si, 'D4')
  # the epoll variant of the hub's select: the mask registered for a descriptor is what the three lists of *this* call ask for.
  # Evaluated on the helper that merges one list into the pending changes: descriptor 5 is registered for reading, has just left
  # the read list (pending mask 0) and now enters the write list -> pending mask must be EPOLLOUT alone
  try: em_ = repo.mod('lib.epoll_select')
  except Exception: em_ = None
  ec_ = em_.classes.get('EpollSelect') if em_ is not None else None
  es_ = ec_.methods.get('select') if ec_ is not None else None
  if es_ is not None:
    ctx.analysed(es_)
    # what a ready descriptor is translated back to is the object listed in *this* call: the map from descriptor to object is
    # written for every listed object, not only for descriptors that were not watched before (two handles of one descriptor -
    # a socket and its fileno() - are different objects, and select() hands the ready one back by identity)
    n_map = 0
    for fn_ in [es_] + [x_ for x_ in q.all_nested_defs(es_.node).values()]:
      fnode_ = fn_.node if hasattr(fn_, 'node') else fn_
      gm_ = q.cfg_of(fnode_)
      for t_, v_, st_, k_ in q.stores_in(fnode_, nested=False):
        if not (isinstance(t_, ast.Subscript) and norm(t_.value) == 'self.fd_to_obj' and k_ == 'assign'): continue
        n_map += 1
        an_ = q.enclosing_stmt_node(gm_, st_)
        tests_ = [t2_ for t2_, p2_, b2_ in gm_.guards(an_) if not isinstance(t2_, (ast.For, ast.AsyncFor, ast.While))] if an_ is not None else []
        stale_ = [t2_ for t2_ in tests_ if 'fd_to_obj' not in norm(t2_)]
        ctx.ob('R-EFFECT', es_, "the descriptor -> object map is written for every listed object", not stale_, "unconditional within the scan" if not tests_ else ("guarded by the map's own entry" if not stale_ else
               "`%s` runs only under `%s`: a descriptor that was already watched keeps the object of an earlier call - when another task lists the same descriptor through another handle, the ready descriptor is handed back as the "
               "old object, which is in nobody's list now (KeyError in the hub; the scheduler's select loop dies)" % (norm(st_)[:50], norm(stale_[0])[:50])), (em_, st_), 'D4')
    ctx.stat('epoll descriptor-map writes examined', n_map)
    # the second stage, by evaluation: applying the pending changes {5: 3, 6: 1, 7: 0} to the registered masks {5: 1, 7: 4} leaves
    # {5: 3, 6: 1} - what the object remembers as registered is what epoll was last told
    ge_ = q.cfg_of(es_)
    loops_ = [(s_, h_, a_) for (s_, h_, a_) in ge_.loop_nodes if isinstance(s_, ast.For) and 'modify' in norm(s_.iter)]
    if loops_:
      s_, h_, a_ = loops_[0]
      def hook_e (call, env=None): return (True, None) if isinstance(call.func, ast.Attribute) and 'epoll' in norm(call.func.value) else (False, None)
      res_ = set()
      for p_, e_ in q.paths_under(repo, em_, ge_, q.Env({'modify': {5: 3, 6: 1, 7: 0}, 'self.registered': {5: 1, 7: 4}}, [], hook_e), h_, [a_, ge_.exit, ge_.raise_exit], ec_, limit=60, track_start=True):
        r_ = e_.exact.get('self.registered')
        res_.add(tuple(sorted(r_.items())) if isinstance(r_, dict) and p_[-1] is a_ else '?')
      if not res_ or '?' in res_:
        ctx.undecided('R-AGREE', es_, "after the pending changes were applied the remembered masks are the ones epoll was given", "apply loop not evaluable on the sample", (em_, s_), 'D4')
      else:
        good = res_ == {((5, 3), (6, 1))}
        ctx.ob('R-AGREE', es_, "after the pending changes were applied the remembered masks are the ones epoll was given", good, "{5: 1, 7: 4} + {5: 3, 6: 1, 7: 0} -> {5: 3, 6: 1}" if good else
               "applying the changes {5: 3, 6: 1, 7: 0} to the registered masks {5: 1, 7: 4} leaves %s, expected {5: 3, 6: 1}: the next call computes its changes from a stale mask - a descriptor a task still waits on is unregistered "
               "(the task is never resumed), or epoll reports it for a list it has left" % [dict(x_) for x_ in sorted(res_)], (em_, s_), 'D4')
    mt_ = q.nested_defs(es_.node).get('modify_table')
    if mt_ is not None:
      mtn = getattr(mt_, 'node', mt_)
      ps_ = [a.arg for a in mtn.args.args]
      gm_ = q.cfg_of(mt_)
      outs = set()
      for pend, reg, lst, old, op, want in (({5: 0}, {5: 1}, [5], set(), 4, {5: 4}), ({}, {5: 1}, [5], set(), 4, {5: 5}), ({5: 5}, {5: 1}, [], {5}, 4, {5: 1}), ({}, {}, [7], set(), 1, {7: 1}),
                                               ({5: 5}, {5: 4}, [], {5}, 4, {5: 1}), ({5: 1}, {}, [5], set(), 4, {5: 5})):
        if len(ps_) != 3: outs.add('?'); break
        env_ = q.Env({'modify': dict(pend), 'self.registered': dict(reg), ps_[0]: list(lst), ps_[1]: set(old), ps_[2]: op}, [((lambda e: isinstance(e, ast.Call) and call_name(e) == 'hasattr'), False)])
        got = set()
        for p_, e_ in q.paths_under(repo, em_, gm_, env_, gm_.entry, [n for n in gm_.nodes if n.kind == 'return'], ec_, limit=40):
          m_ = e_.exact.get('modify')
          got.add(tuple(sorted(m_.items())) if isinstance(m_, dict) else '?')
        if len(got) != 1 or '?' in got: outs.add('?')
        elif dict(list(got)[0]) != want: outs.add((tuple(sorted(pend.items())), tuple(sorted(reg.items())), tuple(lst), op, tuple(sorted(dict(list(got)[0]).items())), tuple(sorted(want.items()))))
      if '?' in outs:
        ctx.undecided('R-AGREE', es_, "epoll masks follow the lists of the current call", "modify_table not evaluable on the samples", es_, 'D4')
      else:
        ctx.ob('R-AGREE', es_, "epoll masks follow the lists of the current call", not outs, "6 scenarios" if not outs else
               "with pending changes %s, registered %s, list %s and op %s the helper leaves %s, expected %s: the mask epoll is given for the descriptor is not what the three lists of this call ask for - "
               "a task waiting on it is never resumed, or epoll reports it for a list it has left and _select indexes a waiter that is not there (KeyError ends the hub)" % sorted(outs, key=str)[0], es_, 'D4')
  # a variable that an except-handler inside a loop sets, and that the rest of the iteration tests, starts every iteration fresh
  for fn_ in [f_ for c_ in mod.classes.values() for f_ in c_.methods.values()]:
    gf_ = q.cfg_of(fn_)
    for st_, h_, a_ in gf_.loop_nodes:
      if isinstance(st_, ast.For) and isinstance(st_.iter, (ast.Tuple, ast.List)) and len(st_.iter.elts) == 1: continue       # runs once (the normaliser's return-elimination wrapper)
      body_ids = set(id(x) for b in st_.body for x in ast.walk(b))
      for hd in [x for b in st_.body for x in ast.walk(b) if isinstance(x, ast.ExceptHandler)]:
        set_in_handler = set(t.id for b in hd.body for x in ast.walk(b) if isinstance(x, ast.Assign) for t in x.targets if isinstance(t, ast.Name))
        for v_ in sorted(set_in_handler):
          tests = [n for n in gf_.nodes if n.kind == 'cond' and id(n.ast) in body_ids and not any(n.ast is y for b in hd.body for y in ast.walk(b))
                   and any(isinstance(x, ast.Name) and x.id == v_ for x in ast.walk(n.ast))
                   and (isinstance(n.ast, ast.Name) or (isinstance(n.ast, ast.Compare) and isinstance(n.ast.ops[0], (ast.Is, ast.IsNot)) and isinstance(n.ast.comparators[0], ast.Constant) and n.ast.comparators[0].value is None))]
          if not tests: continue
          fresh = [q.enclosing_stmt_node(gf_, x) for b in st_.body for x in ast.walk(b) if isinstance(x, ast.Assign) and any(isinstance(t, ast.Name) and t.id == v_ for t in x.targets)
                   and not any(x is y for b2 in hd.body for y in ast.walk(b2))]
          fresh = [n for n in fresh if n is not None]
          for tn in tests:
            ok_ = any(gf_.dominates(d, tn) and gf_.dominates(h_, d) for d in fresh)
            ctx.ob('R-DEF', fn_, "`%s`, set by an except clause in the loop and tested as `%s`, is reset in every iteration" % (v_, norm(tn.ast)[:30]), ok_, "assigned afresh inside the loop before the test" if ok_ else
                   "`%s` is only initialised before the loop: once an iteration's handler has set it, every later iteration still sees it - an exception that was already delivered is thrown into the sub-task again on its next blocking operation"
                   % v_, (mod, tn.ast), 'D6')
  # ---- D5 Timer ------------------------------------------------------------------------------------------
  tm = repo.cls(RC, 'Timer'); tr = q.find_method(repo, tm, 'run', 'C06'); ctx.analysed(tr)
  # a relative timer is anchored to the moment it is started, not constructed
  ti = tm.methods.get('__init__'); ts = tm.methods.get('start')
  if ti is not None and ts is not None:
    ctx.analysed(ts)
    for t, v, st, k in q.stores_in(ti.node):
      if isinstance(t, ast.Attribute) and t.attr == '_next' and v is not None:
        good = 'time.time()' not in norm(v)
        ctx.ob('R-AGREE', ti, "the wake-up time of a relative timer is not fixed at construction", good, norm(st) if good else
               "`%s` reads the clock in the constructor: a timer created with started=False and started later fires early by the time that passed in between" % norm(st), (mod, st), 'D5')
    gs = q.cfg_of(ts)
    anch = [st for t, v, st, k in q.stores_in(ts.node) if isinstance(t, ast.Attribute) and t.attr == '_next' and v is not None and 'time.time()' in norm(st)]
    good = bool(anch) and any('self._absolute_time:falsy' in q.fact_strs(gs, q.enclosing_stmt_node(gs, a_)) for a_ in anch)
    ctx.ob('R-AGREE', ts, "start() turns a relative delay into a deadline (now + delay) unless the time is absolute", good,
           norm(anch[0]) if good else "start() no longer adds the current time to a relative delay", ts, 'D5')
  g3 = q.cfg_of(tr)
  cbn = g3.nodes_with_call(lambda c: norm(c.func) == 'self._callback')
  ylds = [n for n in g3.nodes if n.ast is not None and any(isinstance(x, ast.Yield) and isinstance(x.value, ast.Call) and call_name(x.value) == 'Sleep' for x in ast.walk(n.ast))]
  ctx.floor('timer callback site', len(cbn), 1)
  loops = [(s_, h, a) for (s_, h, a) in g3.loop_nodes if isinstance(s_, ast.While)]
  if cbn and ylds and loops:
    h = loops[0][1]
    iv = g3.interval(lambda n: n in cbn, start=ylds[0], stop=h)
    ctx.ob('R-EFFECT', tr, "one callback per wake", iv is not None and iv[1] <= 1 and g3.dominates(ylds[0], cbn[0]), "callback count per iteration %s, after the sleep" % (iv,), tr, 'D5')
    env = q.Env({'self._cancelled': True})
    r = q.reach_under_cp(repo, mod, g3, env, tm, start=ylds[0])
    ctx.ob('R-DOM', tr, "a timer cancelled while sleeping does not fire", not any(c in r for c in cbn), "callback unreachable once cancelled" if not any(c in r for c in cbn) else "cancel is not re-checked after the wake", tr, 'D5')
    # how "recurring" is represented is the constructor's business: its state for recurring=False / True, by evaluation
    def ctor_state (recurring):
      if ti is None: return None
      gi_ = q.cfg_of(ti)
      ex_ = {'timeToWake': 5, 'callback': 'cb', 'absoluteTime': False, 'recurring': recurring, 'args': (), 'kw': {}, 'scheduler': None, 'started': False, 'selfStoppable': True}
      try: ps_ = q.paths_under(repo, mod, gi_, q.Env(ex_), gi_.entry, [gi_.exit], tm, limit=40)
      except Exception: return None
      if len(ps_) != 1: return None
      return dict((k_, v_) for k_, v_ in ps_[0][1].exact.items() if isinstance(k_, str) and k_.startswith('self.'))
    st_f, st_t = ctor_state(False), ctor_state(True)
    if st_f is None or st_t is None or '_recurring' in norm(tr.node):
      st_f = {'self._recurring': False}; st_t = {'self._recurring': True, 'self._self_stoppable': True}
    for what, ex in (("non-recurring timer fires once", dict(st_f, **{'self._cancelled': False, 'rv is False': False})),
                     ("a callback returning False stops a self-stoppable timer", dict(st_t, **{'self._cancelled': False, 'self._self_stoppable': True, 'rv is False': True}))):
      again = any(p_[-1] is ylds[0] for p_, e_ in q.paths_under(repo, mod, g3, q.Env(ex), cbn[0], [ylds[0], g3.exit, g3.raise_exit], tm, limit=200))
      ctx.ob('R-DOM', tr, what, not again, "loop head unreachable after the callback" if not again else "the timer loops again", tr, 'D5')
    rearm_ = any(p_[-1] is ylds[0] for p_, e_ in q.paths_under(repo, mod, g3, q.Env(dict(st_t, **{'self._cancelled': False, 'rv is False': False})), cbn[0], [ylds[0], g3.exit, g3.raise_exit], tm, limit=200))
    ctx.ob('R-DOM', tr, "a recurring timer re-arms", rearm_, "the sleep is reached again" if rearm_ else "a recurring timer whose callback did not ask to stop never sleeps again", tr, 'D5')
    nx = [st for t, v, st, k in q.stores_in(tr.node) if norm(t) == 'self._next']
    good_nx = bool(nx) and norm(nx[0].value) == 'time.time() + self._interval'
    if nx and not good_nx:
      # another spelling: evaluate it for a recurring timer of interval 5 at time 100
      def clk_ (call, env=None): return (True, 100) if norm(call.func) == 'time.time' else (False, None)
      try:
        v_ = q.eval_env2(repo, mod, nx[0].value, q.Env(dict(st_t), [], clk_), tm)
        good_nx = (v_ == 105) if isinstance(v_, (int, float)) else None
      except Exception: good_nx = None
    ctx.ob('R-AGREE', tr, "the next deadline is now + interval", good_nx, norm(nx[0]) if nx else "?", tr, 'D5')
    sy = [x for n in ylds for x in ast.walk(n.ast) if isinstance(x, ast.Call) and call_name(x) == 'Sleep']
    ctx.ob('R-AGREE', tr, "the timer sleeps until its absolute deadline", bool(sy) and norm(kwarg(sy[0], 'timeToWake', 0)) == 'self._next' and norm(kwarg(sy[0], 'absoluteTime', 1)) == 'True', norm(sy[0]) if sy else "?", tr, 'D5')
  # ---- D6 sub-task return ----------------------------------------------------------------------------------
  at = repo.cls(RC, 'AgainTask'); ra = q.find_method(repo, at, 'run_again', 'C06'); ctx.analysed(ra)
  g4 = q.cfg_of(ra)
  rs = g4.nodes_with_call(lambda c: call_name(c) == 'fast_schedule')
  iv = g4.interval(lambda n: n in rs)
  ctx.ob('R-EFFECT', ra, "the caller is rescheduled exactly once when the sub-task ends", iv == (1, 1), "count on normal exits %s" % (iv,), ra, 'D6')
  for n in rs:
    c = [c for c in q.node_calls(n) if call_name(c) == 'fast_schedule'][0]
    ctx.ob('R-AGREE', ra, "it is the caller that is rescheduled, to run next", norm(c.args[0]) == 'parent.task' and norm(kwarg(c, 'first', 1)) == 'True', norm(c), (mod, c), 'D6')
  st_rv = [(q.enclosing_stmt_node(g4, st), v) for t, v, st, k in q.stores_in(ra.node) if norm(t) == 'parent.task.rv' and v is not None and norm(v) != 'None']
  st_re = [(q.enclosing_stmt_node(g4, st), v) for t, v, st, k in q.stores_in(ra.node) if norm(t) == 'parent.task.re' and v is not None]
  ctx.ob('R-AGREE', ra, "a yielded plain value becomes the caller's result", bool(st_rv) and all(norm(v) == 'nxt' for n, v in st_rv), "parent.task.rv = nxt", ra, 'D6')
  ctx.ob('R-AGREE', ra, "an exception in the sub-task becomes the caller's exception", len(st_re) >= 2 and all(norm(v) == 'sys.exc_info()' for n, v in st_re), "parent.task.re = sys.exc_info() (%d sites)" % len(st_re), ra, 'D6')
  for n, v in st_rv + st_re:
    ctx.ob('R-ORDER', ra, "result is stored before the caller is rescheduled (`%s`)" % n.text(40), all(r_ in g4.reachable(n) and n not in g4.reachable(r_) for r_ in rs), "store precedes fast_schedule", (mod, n.ast), 'D6')
  # whatever runs the sub-generator's code (send / throw / close / next) can raise anything: outside a handler the exception
  # leaves run_again and the waiting caller is never rescheduled
  gp = ra.params[1] if len(ra.params) > 1 else 'g'
  drv = [n_ for n_ in g4.nodes if any((isinstance(c_.func, ast.Attribute) and c_.func.attr in ('send', 'throw', 'close', '__next__') and norm(c_.func.value) == gp) or
                                      (call_name(c_) == 'next' and c_.args and norm(c_.args[0]) == gp) for c_ in q.node_calls(n_))]
  ctx.floor('sub-generator driving calls', len(drv), 1)
  for n_ in drv:
    esc = g4.raises_out(n_)
    ctx.ob('R-CONTAIN', ra, "an exception out of the sub-generator's code cannot skip rescheduling the caller (`%s`)" % n_.text(40), not esc, "inside a handler" if not esc else
           "`%s` runs code of the sub-task (a `finally:` that yields or raises makes close() raise) outside any handler: the exception ends run_again before the caller is rescheduled - the task that called the sub-task waits forever" % n_.text(40), (mod, n_.ast), 'D6')
  thr = [c for c in calls_in(ra.node, nested=True) if call_name(c) == 'throw']
  ctx.ob('R-AGREE', ra, "an exception thrown into the sub-task's wait is forwarded into the sub-generator", bool(thr), norm(thr[0]) if thr else "no g.throw", ra, 'D6')
  # sys.exc_info() describes the exception being handled only while the handler runs: inside a lambda / nested def it is
  # evaluated when that closure is called
  for fn_ in [f_ for c_ in mod.classes.values() for f_ in c_.methods.values()] + list(mod.funcs.values()):
    for h_ in [x for x in ast.walk(fn_.node) if isinstance(x, ast.ExceptHandler)]:
      for clo in [x for b_ in h_.body for x in ast.walk(b_) if isinstance(x, (ast.Lambda, ast.FunctionDef))]:
        lazy = [c for c in ast.walk(clo) if isinstance(c, ast.Call) and norm(c.func) == 'sys.exc_info']
        if not lazy: continue
        # called again inside the same handler only?  (then the exception is still being handled)
        holder = [norm(t) for t, v, st, k in q.stores_in(fn_.node) if v is clo]
        later = [c for c in calls_in(fn_.node) if holder and norm(c.func) in holder and not any(c is y for b_ in h_.body for y in ast.walk(b_))]
        if later or not holder:
          ctx.bad('R-AGREE', fn_, "the exception forwarded is the one that was caught (`%s`)" % norm(clo)[:50],
                  "`sys.exc_info()` sits inside a closure created in the except block but called after it (line %s): by then no exception is being handled, it yields (None, None, None) and "
                  "the forwarding call raises TypeError - the sub-task never sees the exception thrown into its wait" % (later[0].lineno if later else '?'), (mod, clo), 'D6')
  for nm, clo, use in defs.except_name_escapes(ra.node):
    ctx.bad('R-DEF', ra, "closure reads except-clause name `%s` after the handler ended" % nm,
            "`%s` captures `%s`, which Python deletes when the except block ends; calling it later (line %s) raises NameError instead of forwarding the exception: "
            "a nested sub-task never sees its callee's exception and the caller gets a NameError" % (norm(clo)[:50], nm, use.lineno), (mod, clo), 'D6')
  if not defs.except_name_escapes(ra.node):
    ctx.ok('R-DEF', ra, "no closure reads an except-clause name after its handler", "checked", ra, 'D6')
  ex = q.find_method(repo, bt, 'execute', 'C06'); ctx.analysed(ex)
  g5 = q.cfg_of(ex)
  sends = g5.nodes_with_call(lambda c: call_name(c) in ('send', 'throw') and norm(c.func.value) == 'self.gen')
  iv = g5.interval(lambda n: n in sends)
  ctx.ob('R-EFFECT', ex, "one resumption of the generator per execute()", iv is not None and iv[1] <= 1, "send/throw count %s" % (iv,), ex, 'D6')
  for fld in ('rf', 're', 'rv'):
    clr = [q.enclosing_stmt_node(g5, st) for t, v, st, k in q.stores_in(ex.node) if norm(t) == 'self.' + fld and isinstance(v, ast.Constant) and v.value is None]
    ctx.ob('R-EFFECT', ex, "pending %s is cleared when it is delivered" % fld, bool(clr), "self.%s = None" % fld if clr else "self.%s is never cleared: it is delivered again on the next step" % fld, ex, 'D6')
  ab = [n for n in g5.nodes if n.kind == 'return' and isinstance(n.ast.value, ast.Constant) and n.ast.value.value is False and any('ABORT' in f for f in q.fact_strs(g5, n))]
  ctx.ob('R-DOM', ex, "a return-function that re-registered the task (ABORT) does not resume the generator", bool(ab), "return False under v is ABORT", ex, 'D6')
  for f in (cyc, sel, hr, rsel, tr, ra, ex):
    for nm, node in defs.undefined_names(repo, f):
      ctx.bad('R-DEF', f, "undefined name `%s`" % nm, "NameError on this path", (mod, node), 'D7')
    for nm, node, path in defs.use_before_def(f):
      if nm in ('t',): continue
      ctx.bad('R-DEF', f, "local `%s` used before assignment" % nm, "feasible path %s" % path, (mod, node), 'D7')
  # ---- mechanisms this property shares with others: their checks' rules about these functions are obligations here too
  ctx.include('C07', ['ScheduleTask.run', 'Scheduler.schedule', 'Scheduler.fast_schedule'], "waking a task from another thread goes through the scheduler's ready queue")

def hub_pong_order (ctx, repo, sel, g2, mod, clause):
  inc = g2.nodes_with_call(lambda c: call_name(c) in ('get', 'get_nowait', 'popleft', 'pop') and isinstance(c.func, ast.Attribute) and '_incoming' in norm(c.func.value))
  pong = g2.nodes_with_call(lambda c: call_name(c) in ('pongAll', 'pong_all', 'pong') and isinstance(c.func, ast.Attribute))
  ctx.floor('select hub: wake-up clear and registration pick-up sites', len(inc) + len(pong), 2)
  if not inc or not pong: return
  before = all(any(g2.dominates(p, d, exc=False) for p in pong) for d in inc)
  empt = g2.nodes_with_call(lambda c: call_name(c) in ('empty', 'qsize') and '_incoming' in norm(c.func.value))
  empt += [n_ for n_ in g2.nodes if n_.kind == 'cond' and n_.ast is not None and norm(n_.ast) in ('self._incoming', 'not self._incoming', 'len(self._incoming)', 'len(self._incoming) > 0') and n_ not in empt]
  after = [p for p in pong if any(p in g2.reachable(d, avoid=[g2.exit], exc=False) and not g2.dominates(p, d, exc=False) for d in inc + empt)]
  good = before and not after
  ctx.ob('R-ORDER', sel, "the wake-up pipe is cleared before new registrations are picked up, never after", good,
         "pong dominates the drain of the incoming queue" if good else
         "`%s` runs after the incoming queue was drained: a task registered between the last get() and this read has its wake-up byte swallowed - it is not in the hub's select set and nothing wakes the hub for it "
         "(its I/O wait or sleep is noticed only at some unrelated later wake-up or the polling timeout)" % (after or pong)[0].text(40), (mod, (after or pong)[0].ast), clause)
