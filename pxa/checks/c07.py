"""C07 - thread hand-off and cooperative locks: the protocol SHAPE each clause relies on.

 D1 R-LOCK   the test-and-create of the call-later task is inside `with self._lock`
 D2 R-ORDER  publish-then-signal: callLater appends before it pings; the consumer clears the wake-up pipe
             (pongAll) BEFORE draining and never after; FIFO (append / popleft); each callback in its own try;
             fast_schedule queues before break_idle; Scheduler.run re-examines the ready queue between idles;
             idle waits then clears
 D3 R-DOM    a scheduling decision based on membership of the ready queue happens only on the scheduler
             thread (thread-affinity guard) or inside a task; the off-thread branch only starts a new task;
             core.call_later / raiseLater go through scheduler.callLater
 D4 R-ORDER  synchroniser handshake: both locks taken at construction; run yields once, releases `inlock`
             before acquiring `outlock`; __enter__ starts the task then waits for inlock; __exit__ releases outlock
             when the nesting count returns to 0
 D5 R-OWN/R-DOM cooperative lock: `_locked` written only by _do_acquire (when free) and _do_release; a task
             is parked only when the lock is held AND the acquire is blocking; release hands the lock to exactly
             one waiter, makes it the owner and schedules it once
"""
import ast
from .. import q, defs
from ..model import AnalysisError, calls_in, call_name, norm, kwarg, walk_no_nested
from .c20 import _in_with

EXPLAIN = ("R-LOCK region membership; R-ORDER publish-then-signal and pong-before-drain (must-precede, never-after); FIFO "
           "operations; R-CONTAIN per-callback try; R-DOM thread-affinity guard on ready-queue membership decisions; R-ORDER "
           "synchroniser lock handshake; R-OWN/R-DOM cooperative lock state decided by path-sensitive reachability for each "
           "(held, blocking) combination. Decides the protocol shape each clause relies on, not the absence of races over all "
           "interleavings (deque/Event atomicity is trusted).")
RC = 'lib.recoco.recoco'

def pinger_rules (ctx, repo, clause):
  """rules on the wake-up primitive (lib.util.make_pinger) shared by C06 (the select hub is woken through it) and C07"""
  # the wake-up primitive itself: every ping() puts a byte into the pipe/socket; the only thing it may consult first is whether
  # the module it writes with still exists (interpreter shutdown) - never state of the pinger, which the reader side changes concurrently
  um = repo.mod('lib.util'); mp = um.funcs.get('make_pinger')
  n_ping = 0
  if mp is not None:
    ctx.analysed(mp)
    for cd in [x for x in ast.walk(mp.node) if isinstance(x, ast.ClassDef)]:
      for pm in [x for x in cd.body if isinstance(x, ast.FunctionDef) and x.name == 'ping']:
        pg = q.cfg_of(pm)
        wr = pg.nodes_with_call(lambda c: (call_name(c) == 'write' and norm(c.func.value) == 'os') or (call_name(c) in ('send', 'sendall') and norm(c.func.value).startswith('self.')))
        n_ping += len(wr)
        if not wr:
          ctx.bad('R-EFFECT', um.short + ':make_pinger.' + cd.name + '.ping', "ping() writes a wake-up byte", "no write in ping()", (um, pm), clause); continue
        for w_ in wr:
          stateful = [f_ for f_ in q.fact_strs(pg, w_) if 'self.' in f_]
          ctx.ob('R-DOM', um.short + ':make_pinger.' + cd.name + '.ping', "ping() writes a wake-up byte on every call, whatever the pinger's state", not stateful,
                 "write guarded only by %s" % (q.fact_strs(pg, w_) or 'nothing') if not stateful else
                 "the write is skipped depending on `%s`, state that the reading side resets concurrently: a ping between the reader's reset and its read is swallowed while the flag says a byte is pending - "
                 "the scheduler is not woken and the hand-off waits for the polling timeout" % stateful[0], (um, w_.ast), clause)
  ctx.floor('pinger write sites', n_ping, 2)
  # clearing the wake-up channel: the read end is a blocking descriptor, and the task that clears it runs on the scheduler
  # thread - a second read in the same call blocks the whole scheduler whenever the first one happened to drain the pipe
  if mp is not None:
    for cd in [x for x in ast.walk(mp.node) if isinstance(x, ast.ClassDef)]:
      for pm in [x for x in cd.body if isinstance(x, ast.FunctionDef) and x.name in ('pong', 'pong_all', 'pongAll')]:
        pg = q.cfg_of(pm)
        rd = pg.nodes_with_call(lambda c: (call_name(c) == 'read' and norm(c.func.value) == 'os') or (call_name(c) in ('recv', 'recv_into') and norm(c.func.value).startswith('self.')))
        looped = [n for n in rd if any(n in pg.loop_body_nodes(h_) or n is h_ or any(n.ast is x_ or (n.ast is not None and any(y_ is x_ for y_ in ast.walk(n.ast))) for x_ in ast.walk(st_.test if isinstance(st_, ast.While) else st_.iter)) for st_, h_, a_ in pg.loop_nodes)]
        nb = any(call_name(c) in ('setblocking', 'set_blocking') for c in calls_in(mp.node) if isinstance(c.func, ast.Attribute) and ('_r' in norm(c) or 'pair[0]' in norm(c) or 'os' == norm(c.func.value)))
        for n in rd:
          bad_ = n in looped and not nb
          ctx.ob('R-EFFECT', um.short + ':make_pinger.' + cd.name + '.' + pm.name, "clearing the wake-up channel reads once (`%s`)" % n.text(40), not bad_, "single read" if not bad_ else
                 "the read sits in a loop on a blocking descriptor: when the pending pings are an exact multiple of the read size the extra read blocks - on the scheduler thread, before the queued functions are run; "
                 "nothing handed over runs until some later ping arrives", (um, n.ast), clause)
  return um, mp

def run (ctx):
  ctx.explanation = EXPLAIN
  ctx.assumptions = ["deque.append/popleft, Queue and threading.Event are atomic (CPython)", "lock regions are the lexical `with self._lock:` blocks"]
  repo = ctx.repo
  mod = repo.mod(RC); core = repo.cls('core', 'POXCore')
  sch = repo.cls(RC, 'Scheduler'); clt = repo.cls(RC, 'CallLaterTask'); hub = repo.cls(RC, 'SelectHub')
  # ---- D1 ----------------------------------------------------------------------------------------
  cl = q.find_method(repo, sch, 'callLater', 'C07'); ctx.analysed(cl)
  # creation of the task: the constructor call and the store to the attribute are inside the lock, and under a `is None` test of a
  # value that was read from the attribute *inside* the lock (a lock-free first look outside is harmless: seeing None only sends
  # the caller into the locked path, and the attribute is never reset)
  n_lock = 0
  gcl = q.cfg_of(cl)
  crit = []
  for n in ast.walk(cl.node):
    if isinstance(n, ast.Attribute) and n.attr == '_callLaterTask' and norm(n.value) == 'self' and isinstance(n.ctx, ast.Store): crit.append((n, 'store'))
    if isinstance(n, ast.Call) and call_name(n) == 'CallLaterTask': crit.append((n, 'creation'))
  for n, what in crit:
    n_lock += 1
    inside = _in_with(cl.node, n, 'self._lock')
    sn = q.enclosing_stmt_node(gcl, n)
    rechecked = False
    if inside and sn is not None:
      for t_, pol_, b_ in gcl.guards(sn):
        if not (isinstance(t_, ast.Compare) and len(t_.ops) == 1 and isinstance(t_.ops[0], (ast.Is, ast.IsNot)) and isinstance(t_.comparators[0], ast.Constant) and t_.comparators[0].value is None): continue
        if (isinstance(t_.ops[0], ast.Is)) != bool(pol_): continue
        if not _in_with(cl.node, t_, 'self._lock'): continue
        if norm(t_.left) == 'self._callLaterTask': rechecked = True
        elif isinstance(t_.left, ast.Name):
          cn_ = [x for x in gcl.nodes if x.kind == 'cond' and x.ast is t_]
          pv = q.provenance(gcl, cn_[0], t_.left.id) if cn_ else []
          if pv and all(kind == 'assign' and val is not None and norm(val) == 'self._callLaterTask' and _in_with(cl.node, val, 'self._lock') for d_, kind, val in pv): rechecked = True
    good = inside and rechecked
    ctx.ob('R-LOCK', cl, "%s of the call-later task (line %s) happens under the scheduler lock, after a None test made under the lock" % (what, n.lineno), good,
           "within `with self._lock`, re-checked there" if good else
           ("`%s` is outside `with self._lock`" % norm(n)[:40] if not inside else "inside the lock, but the `is None` test that leads here looked at a value read before the lock was taken") +
           ": two threads can each create a CallLaterTask and one thread's functions are handed to a task that was overwritten", (mod, n), 'D1')
  resets = [st_ for c_ in mod.classes.values() for f_ in c_.methods.values() if f_.name != '__init__' for t_, v_, st_, k_ in q.stores_in(f_.node)
            if isinstance(t_, ast.Attribute) and t_.attr == '_callLaterTask' and isinstance(v_, ast.Constant) and v_.value is None]
  ctx.ob('R-OWN', sch, "the call-later task, once created, is never reset", not resets, "no store of None outside __init__" if not resets else "`%s`" % norm(resets[0]), sch, 'D1')
  ctx.floor('call-later task accesses under lock', n_lock, 2)
  g = q.cfg_of(cl)
  mk = g.nodes_with_call(lambda c: call_name(c) == 'CallLaterTask'); st = g.nodes_with_call(lambda c: call_name(c) == 'start')
  ctx.ob('R-ORDER', cl, "a new call-later task is started before functions are handed to it", bool(mk) and bool(st) and g.dominates(mk[0], st[0]) and g.postdominates(st, mk[0]), "create, start, then callLater", cl, 'D1')
  def is_task_ref (e):
    if '_callLaterTask' in norm(e): return True
    if isinstance(e, ast.Name):
      ds = [v for v, st_, k in q.reaching_assign(cl.node, e.id)]
      return bool(ds) and all(v is not None and ('_callLaterTask' in norm(v) or (isinstance(v, ast.Call) and call_name(v) == 'CallLaterTask')) for v in ds)
    return False
  ho = g.nodes_with_call(lambda c: call_name(c) == 'callLater' and isinstance(c.func, ast.Attribute) and is_task_ref(c.func.value))
  iv = g.interval(lambda n: n in ho)
  ctx.ob('R-EFFECT', cl, "each submitted function is handed over exactly once", iv == (1, 1), "hand-off count %s" % (iv,), cl, 'D1')
  # ---- D2 ----------------------------------------------------------------------------------------
  tcl = q.find_method(repo, clt, 'callLater', 'C07'); trun = q.find_method(repo, clt, 'run', 'C07'); ctx.analysed(tcl); ctx.analysed(trun)
  # the queue attribute is whatever the task's constructor binds to a deque (a consistent rename of the private attribute is no change)
  QA = 'self._calls'
  ci_ = clt.methods.get('__init__')
  if ci_ is not None:
    dq_ = [norm(t_) for t_, v_, st_, k_ in q.stores_in(ci_.node) if isinstance(t_, ast.Attribute) and norm(t_.value) == 'self' and isinstance(v_, ast.Call) and call_name(v_) == 'deque']
    if len(dq_) == 1: QA = dq_[0]
  g = q.cfg_of(tcl)
  app = g.nodes_with_call(lambda c: call_name(c) in ('append', 'appendleft', 'insert', 'extend') and isinstance(c.func, ast.Attribute) and q.alias_of(tcl.node, c.func.value, QA))
  png = g.nodes_with_call(lambda c: call_name(c) == 'ping')
  ctx.floor('call-later publish/signal sites', len(app) + len(png), 2)
  if app and png:
    ctx.ob('R-ORDER', tcl, "the function is queued before the wake-up is sent", g.dominates(app[0], png[0]) and png[0] in g.reachable(app[0]) and app[0] not in g.reachable(png[0]),
           "append precedes ping" if g.dominates(app[0], png[0]) else "the wake-up is sent before the function is queued: the consumer can drain an empty queue, clear the wake-up and strand the function", tcl, 'D2')
    c = [c for c in q.node_calls(app[0])][0]
    ctx.ob('R-AGREE', tcl, "functions are queued at the tail (submission order)", call_name(c) == 'append', norm(c)[:50] if call_name(c) == 'append' else "`%s` does not append at the tail: functions of one thread run out of submission order" % norm(c)[:50], (mod, c), 'D2')
    ctx.ob('R-EFFECT', tcl, "every call-later wakes the task", g.postdominates(png, app[0]), "ping on every path after the append", tcl, 'D2')
  um, mp = pinger_rules(ctx, repo, 'D2')
  from . import c06 as c06_
  try:
    sel_ = q.find_method(repo, repo.cls('lib.recoco.recoco', 'SelectHub'), '_select', 'C07'); ctx.analysed(sel_)
    c06_.hub_pong_order(ctx, repo, sel_, q.cfg_of(sel_), sel_.module, 'D2')
  except AnalysisError: raise
  g = q.cfg_of(trun)
  pong = g.nodes_with_call(lambda c: call_name(c) in ('pongAll', 'pong_all', 'pong') and isinstance(c.func, ast.Attribute))
  pops = g.nodes_with_call(lambda c: call_name(c) in ('popleft', 'pop') and isinstance(c.func, ast.Attribute) and q.alias_of(trun.node, c.func.value, QA))
  ylds = [n for n in g.nodes if n.ast is not None and any(isinstance(x, ast.Yield) for x in walk_no_nested(n.ast) if True) and any(isinstance(x, ast.Call) and call_name(x) == 'Select' for x in ast.walk(n.ast))]
  ctx.floor('call-later consumer sites (wait, pong, pop)', len(pong) + len(pops) + len(ylds), 3)
  if pong and pops and ylds:
    before = all(g.dominates(p, d, exc=False) for p in pong for d in pops)
    # within one wake cycle: no pong reachable from the drain without passing the wait again
    after = [p for p in pong if any(p in g.reachable(d, avoid=ylds) for d in pops)]
    good = before and not after
    ctx.ob('R-ORDER', trun, "the wake-up pipe is cleared before the queue is drained, never after", good,
           "pongAll dominates the drain and is not reachable from it without waiting again" if good else
           "pongAll() runs after (part of) the drain: a function queued between the last popleft and pongAll has its wake-up swallowed and sits in the queue until some unrelated later call-later - it is lost as far as the polling timeout is concerned",
           (mod, (after or pong)[0].ast), 'D2')
    # how much is taken per wake-up: either the whole queue is drained (the pop sits in a loop that only an empty queue ends), or one
    # function per wake-up - which is only complete if every hand-off leaves exactly one byte in the pipe: one byte read per wake-up
    # and a ping() whose write can neither be skipped nor fail silently
    def drains_all (d_):
      for st_, h_, a_ in g.loop_nodes:
        if d_ in g.loop_body_nodes(h_) and not any(y_ in g.loop_body_nodes(h_) for y_ in ylds):
          return True
      return False
    all_ = all(drains_all(d_) for d_ in pops)
    one_byte = all(call_name(c_) == 'pong' for p_ in pong for c_ in q.node_calls(p_) if call_name(c_) in ('pongAll', 'pong_all', 'pong'))
    lossless = True; why_l = ''
    if mp is not None:
      for cd in [x for x in ast.walk(mp.node) if isinstance(x, ast.ClassDef)]:
        pm = next((x for x in cd.body if isinstance(x, ast.FunctionDef) and x.name == 'ping'), None)
        if pm is None: continue
        pg_ = q.cfg_of(pm)
        for w_ in pg_.nodes_with_call(lambda c: (call_name(c) == 'write' and norm(c.func.value) == 'os') or (call_name(c) in ('send', 'sendall') and norm(c.func.value).startswith('self.'))):
          if pg_.handlers_for(w_): lossless = False; why_l = "%s.ping() swallows a failing write (`%s`)" % (cd.name, [norm(h_.ast.type) if h_.ast.type is not None else 'bare except' for h_ in pg_.handlers_for(w_)][0])
        if any(call_name(c_) in ('set_blocking', 'setblocking') and any(isinstance(a_, ast.Constant) and a_.value in (False, 0) for a_ in c_.args) and ('_w' in norm(c_) or 'pair[1]' in norm(c_)) for c_ in ast.walk(cd) if isinstance(c_, ast.Call)):
          lossless = False; why_l = why_l or "%s makes the write end non-blocking" % cd.name
    good = all_ or (one_byte and lossless)
    ctx.ob('R-AGREE', trun, "every function handed over is run: each wake-up drains the queue, or hand-offs and wake-up bytes correspond one to one", good,
           "drain loop ends only on an empty queue" if all_ else "one byte read per function, ping() always writes" if good else
           "a wake-up runs %s, but %s: more functions can be queued than wake-ups are delivered, and the surplus stays in the queue - handed-over functions run late or never"
           % ("one queued function", why_l if one_byte else "the whole pipe is cleared (`%s`)" % pong[0].text(30)), (mod, pops[0].ast), 'D2')
    ctx.ob('R-ORDER', trun, "the task waits for a wake-up before each drain", all(g.dominates(y, d, exc=False) for y in ylds for d in pops), "Select on the pinger dominates the drain", trun, 'D2')
    for d in pops:
      c = [c for c in q.node_calls(d) if call_name(c) in ('popleft', 'pop')][0]
      head_ = call_name(c) == 'popleft' or (call_name(c) == 'pop' and len(c.args) == 1 and isinstance(c.args[0], ast.Constant) and c.args[0].value == 0)
      ctx.ob('R-AGREE', trun, "functions are taken from the head (FIFO)", head_, norm(c), (mod, c), 'D2')
  # the dequeued function: element 0 of the popped item, or the first name of a tuple-unpacking pop
  popped = set(); fnames = set()
  for d in pops:
    if isinstance(d.ast, ast.Assign) and len(d.ast.targets) == 1:
      tg = d.ast.targets[0]
      if isinstance(tg, ast.Name): popped.add(tg.id)
      elif isinstance(tg, ast.Tuple) and tg.elts and isinstance(tg.elts[0], ast.Name): fnames.add(tg.elts[0].id)
  calls = [n for n in g.nodes if n.ast is not None and n.kind != 'def' and any((isinstance(c.func, ast.Subscript) and norm(c.func.value) in popped and norm(c.func.slice) == '0') or (isinstance(c.func, ast.Name) and c.func.id in fnames) for c in q.node_calls(n))]
  ctx.floor('call-later invocation site', len(calls), 1)
  for n in calls:
    hs = g.handlers_for(n)
    inner = [h for h in hs if h.ast.type is None or norm(h.ast.type) in ('Exception', 'BaseException')]
    # the handler must belong to a try that does NOT also enclose the pop (own try per callback)
    own = False
    for t in g.try_of[n][::-1]:
      if not any(any(x is d.ast for x in ast.walk(t)) for d in pops if d.ast is not None and True and any(y is d.ast for y in t.body)):
        own = any(h.type is None or norm(h.type) in ('Exception', 'BaseException') for h in t.handlers); break
    if inner and own:
      # a handed-over function may fail with something that is not an Exception (core.call_later(sys.exit), KeyboardInterrupt): it must
      # not end the one call-later task either - everything queued behind it, and every later hand-over, would never run
      total = [h for h in hs if h.ast.type is None or norm(h.ast.type) == 'BaseException']
      ctx.ob('R-CONTAIN', trun, "no failure of a handed-over function ends the call-later task - not only Exception subclasses", bool(total), "bare except / BaseException" if total else
             "the widest handler around the call is `except %s`: a function that raises SystemExit / KeyboardInterrupt escapes run(), the scheduler drops the only call-later task while Scheduler._callLaterTask still points to it - "
             "the functions queued behind it and every later call_later are silently never executed" % norm(inner[0].ast.type), (mod, inner[0].ast), 'D2')
    ctx.ob('R-CONTAIN', trun, "a failing function does not stop the remaining ones", bool(inner) and own, "each call in its own catch-all try" if inner and own else
           "the call is not wrapped in its own catch-all: one failing function aborts the drain and the rest wait for the next wake-up", (mod, n.ast), 'D2')
    iv = g.interval(lambda x: x in calls, start=pops[0], stop=[h for (s_, h, a) in g.loop_nodes if pops[0] in g.loop_body_nodes(h)][-1]) if pops else None
    ctx.ob('R-EFFECT', trun, "each dequeued function is called at most once", iv is not None and iv[1] <= 1, "calls per pop %s" % (iv,), (mod, n.ast), 'D2')
  fs_ = q.find_method(repo, sch, 'fast_schedule', 'C07'); ctx.analysed(fs_)
  g = q.cfg_of(fs_)
  def enq_ (c):
    if call_name(c) in ('append', 'appendleft') and isinstance(c.func, ast.Attribute) and '_ready' in norm(c.func.value): return True
    if isinstance(c.func, ast.Name):        # a bound method chosen first: enqueue = self._ready.appendleft if first else self._ready.append
      ds_ = [v_ for v_, st_, k_ in q.reaching_assign(fs_.node, c.func.id)]
      if ds_ and all(v_ is not None for v_ in ds_):
        alts_ = []
        for d_ in ds_: alts_ += [d_.body, d_.orelse] if isinstance(d_, ast.IfExp) else [d_]
        return all(isinstance(a_, ast.Attribute) and a_.attr in ('append', 'appendleft') and '_ready' in norm(a_.value) for a_ in alts_)
    return False
  qn = g.nodes_with_call(enq_)
  bi = g.nodes_with_call(lambda c: call_name(c) == 'break_idle')
  good = bool(qn) and bool(bi) and g.dominates(qn, bi[0]) and g.postdominates(bi, g.entry) and not any(x in g.reachable(bi[0]) for x in qn)
  ctx.ob('R-ORDER', fs_, "a task is put on the ready queue before the scheduler is woken", good, "queue then break_idle on every path" if good else "wake-up before queueing (lost wake-up) or missing wake-up", fs_, 'D2')
  iv = g.interval(lambda n: n in qn)
  ctx.ob('R-EFFECT', fs_, "fast_schedule queues the task exactly once", iv == (1, 1), "count %s" % (iv,), fs_, 'D2')
  srun = q.find_method(repo, sch, 'run', 'C07'); ctx.analysed(srun)
  g = q.cfg_of(srun)
  idl = g.nodes_with_call(lambda c: call_name(c) == 'idle'); cyc = g.nodes_with_call(lambda c: call_name(c) == 'cycle')
  good = bool(idl) and bool(cyc) and any('len(self._ready) == 0' in f for f in q.fact_strs(g, idl[0])) and cyc[0] in g.reachable(idl[0]) and idl[0] in g.reachable(cyc[0])
  ctx.ob('R-ORDER', srun, "the scheduler idles only when the ready queue is empty and re-examines it after every idle", good, "if len(_ready)==0: idle(); cycle() in the loop", srun, 'D2')
  idle = q.find_method(repo, hub, 'idle', 'C07'); ctx.analysed(idle)
  g = q.cfg_of(idle)
  wt = g.nodes_with_call(lambda c: call_name(c) == 'wait'); clr = g.nodes_with_call(lambda c: call_name(c) == 'clear')
  good = bool(wt) and bool(clr) and g.dominates(wt[0], clr[0]) and wt[0] not in g.reachable(clr[0])
  ctx.ob('R-ORDER', idle, "idle waits for the event and then clears it (with the queue re-check this cannot lose a wake-up)", good, "wait then clear" if good else
         "the event is cleared before waiting: a wake-up set in between is erased and the scheduler sleeps for the full polling timeout", idle, 'D2')
  brk = q.find_method(repo, hub, 'break_idle', 'C07'); ctx.analysed(brk)
  ctx.ob('R-AGREE', brk, "break_idle signals what idle waits on", bool([c for c in calls_in(brk.node) if call_name(c) == 'set' and '_event' in norm(c.func.value)]) and bool([c for c in calls_in(brk.node) if call_name(c) == '_cycle']), "event.set() (threaded) / _cycle() (inline)", brk, 'D2')
  # ---- D3 thread affinity -----------------------------------------------------------------------------
  sc = q.find_method(repo, sch, 'schedule', 'C07'); ctx.analysed(sc)
  g = q.cfg_of(sc)
  memb = [n for n in g.nodes if n.kind == 'cond' and 'in self._ready' in norm(n.ast)]
  ctx.floor('ready-queue membership decisions', len(memb), 1)
  for n in memb:
    fs = q.fact_strs(g, n)
    good = 'threading.current_thread() is self._thread' in fs
    ctx.ob('R-DOM', sc, "the decision 'already queued?' is taken only on the scheduler thread", good, "under current_thread() is self._thread" if good else
           "the ready queue is inspected from a foreign thread (facts %s): two threads can both see 'not queued' and queue the task twice" % fs, (mod, n.ast), 'D3')
  r = q.reach_under(repo, mod, g, q.Env({'threading.current_thread() is self._thread': False}), sch)
  direct = [n for n in r if any(call_name(c) == 'fast_schedule' or (call_name(c) in ('append', 'appendleft') and '_ready' in norm(c.func)) for c in q.node_calls(n))]
  stn = [n for n in r if any(call_name(c) == 'ScheduleTask' for c in q.node_calls(n))]
  ctx.ob('R-DOM', sc, "a foreign thread never queues an existing task itself; it starts a ScheduleTask", not direct and bool(stn), "off-thread branch: ScheduleTask(self, task).start(fast=True)" if not direct and stn else "off-thread branch touches the ready queue directly", sc, 'D3')
  stt = repo.cls(RC, 'ScheduleTask'); sr = q.find_method(repo, stt, 'run', 'C07'); ctx.analysed(sr)
  g = q.cfg_of(sr)
  fsn = g.nodes_with_call(lambda c: call_name(c) == 'fast_schedule')
  good = bool(fsn) and all(any('in self._scheduler._ready' in f and (f.endswith(':falsy') or 'not in' in f) for f in q.fact_strs(g, n)) for n in fsn)
  ctx.ob('R-DOM', sr, "the hand-off task queues the target only if it is not queued already", good, "fast_schedule under `not in _ready`" if good else "ScheduleTask queues unconditionally: a task woken from several threads is queued more than once", sr, 'D3')
  for name in ('call_later', 'raiseLater'):
    f = core.methods.get(name)
    if f is None: continue
    ctx.analysed(f)
    cs = [c for c in calls_in(f.node) if call_name(c) == 'callLater' and 'scheduler' in norm(c.func.value)]
    other = [c for c in calls_in(f.node) if call_name(c) in ('fast_schedule', 'schedule', 'raiseEvent') and c not in cs]
    ctx.ob('R-OWN', f, "core.%s only forwards to scheduler.callLater" % name, len(cs) == 1 and not other, norm(cs[0])[:60] if cs else "?", f, 'D3')
  # ---- D4 synchroniser ------------------------------------------------------------------------------------
  syt = repo.cls(RC, 'SyncTask'); syn = repo.cls(RC, 'Synchronizer')
  si = syt.methods.get('__init__'); srn = syt.methods.get('run'); en = syn.methods.get('__enter__'); exi = syn.methods.get('__exit__')
  if not all((si, srn, en, exi)): raise AnalysisError("SyncTask/Synchronizer methods vanished")
  for f in (si, srn, en, exi): ctx.analysed(f)
  # the synchroniser counts nested entries without a lock of its own: that is sound only because each thread gets its own instance
  sy = repo.cls(RC, 'Scheduler').methods.get('synchronized')
  if sy is not None:
    ctx.analysed(sy); sgr = q.cfg_of(sy); schc = repo.cls(RC, 'Scheduler')
    def attr_inits (attr):
      return [v for m_ in schc.methods.values() for t, v, st, k in q.stores_in(m_.node) if isinstance(t, ast.Attribute) and t.attr == attr and norm(t.value) == 'self' and v is not None]
    def is_tls (e):
      """e reads a threading.local() kept on the scheduler"""
      for x in ast.walk(e):
        if isinstance(x, ast.Attribute) and norm(x.value) == 'self':
          iv_ = attr_inits(x.attr)
          if iv_ and all(isinstance(v, ast.Call) and norm(v.func) in ('threading.local', 'local') for v in iv_): return True
      return False
    verdicts = []
    for rn in [n for n in sgr.nodes if n.kind == 'return' and n.ast.value is not None]:
      rv = rn.ast.value
      origins = [(None, 'expr', rv)] if not isinstance(rv, ast.Name) else q.provenance(sgr, rn, rv.id)
      for d_, kind, val in origins:
        if val is None: verdicts.append(('?', kind)); continue
        if isinstance(val, ast.Call) and call_name(val) == 'Synchronizer': verdicts.append(('fresh', norm(val)))
        elif is_tls(val): verdicts.append(('tls', norm(val)))
        elif isinstance(val, ast.Attribute) and norm(val.value) == 'self' and any(isinstance(v, ast.Call) and call_name(v) == 'Synchronizer' for v in attr_inits(val.attr)):
          verdicts.append(('shared', norm(val)))
        else: verdicts.append(('?', norm(val)))
    shared = [v for k_, v in verdicts if k_ == 'shared']
    if shared:
      ctx.bad('R-OWN', sy, "each thread gets a synchroniser of its own", "synchronized() hands out `%s`, one Synchronizer stored on the scheduler and shared by all threads: its entry counter and its sync task are "
              "updated without a lock, so two foreign threads entering at the same time share one handshake - the second runs its section while cooperative tasks are running, or the scheduler stays parked for ever" % shared[0], sy, 'D4')
    elif verdicts and all(k_ in ('fresh', 'tls') for k_, v in verdicts):
      ctx.ob('R-OWN', sy, "each thread gets a synchroniser of its own", True, "origins: %s" % sorted(set(v for k_, v in verdicts)), sy, 'D4')
    else:
      ctx.undecided('R-OWN', sy, "each thread gets a synchroniser of its own", "origin of the returned object not recognised (%s)" % verdicts[:3], sy, 'D4')
  gsi = q.cfg_of(si)
  held = {}
  for attr in ('inlock', 'outlock'):
    ok_ = False
    # acquired through the attribute ...
    if any(call_name(c) == 'acquire' and norm(c.func.value) == 'self.' + attr for c in calls_in(si.node)): ok_ = True
    # ... or the object is acquired first and stored then (every origin of the stored name)
    for t, v, st, k in q.stores_in(si.node):
      if isinstance(t, ast.Attribute) and t.attr == attr and norm(t.value) == 'self' and isinstance(v, ast.Name):
        sn = q.enclosing_stmt_node(gsi, st)
        IN, defn = q.reaching_defs(gsi, v.id)
        ds = [d for d in (IN[sn] if sn is not None else []) if d is not gsi.entry]
        acqs = [n for n in gsi.nodes if any(call_name(c) == 'acquire' and norm(c.func.value) == v.id for c in q.node_calls(n))]
        if ds and all(any(gsi.dominates(d, a_) and gsi.dominates(a_, sn) for a_ in acqs) for d in ds): ok_ = True
    held[attr] = ok_
  ctx.ob('R-EFFECT', si, "both handshake locks are held from construction", all(held.values()), "inlock and outlock acquired before anyone can see them" if all(held.values()) else "not acquired in the constructor: %s" % sorted(k_ for k_, v_ in held.items() if not v_), si, 'D4')
  g = q.cfg_of(srn)
  y = [n for n in g.nodes if n.ast is not None and any(isinstance(x, ast.Yield) for x in ast.walk(n.ast))]
  rel = g.nodes_with_call(lambda c: call_name(c) == 'release' and norm(c.func.value) == 'self.inlock')
  ac = g.nodes_with_call(lambda c: call_name(c) == 'acquire' and norm(c.func.value) == 'self.outlock')
  good = bool(y) and bool(rel) and bool(ac) and g.dominates(y[0], rel[0]) and g.dominates(rel[0], ac[0])
  ctx.ob('R-ORDER', srn, "the sync task signals 'scheduler is parked' (inlock.release) before it blocks on outlock", good, "yield, inlock.release(), outlock.acquire()" if good else
         "the task blocks on outlock before releasing inlock (or without yielding first): the foreign thread and the scheduler deadlock / the scheduler is not parked when the section starts", srn, 'D4')
  g = q.cfg_of(en)
  stn = g.nodes_with_call(lambda c: call_name(c) == 'start'); ia = g.nodes_with_call(lambda c: call_name(c) == 'acquire' and 'inlock' in norm(c.func.value))
  good = bool(stn) and bool(ia) and g.dominates(stn[0], ia[0]) and all('self.enter == 1' in q.fact_strs(g, n) for n in stn + ia)
  ctx.ob('R-ORDER', en, "entering starts the sync task and then waits until the scheduler is parked (outermost entry only)", good, "start then inlock.acquire under enter == 1", en, 'D4')
  g = q.cfg_of(exi)
  orl = g.nodes_with_call(lambda c: call_name(c) == 'release' and 'outlock' in norm(c.func.value))
  good = bool(orl) and all('self.enter == 0' in q.fact_strs(g, n) for n in orl)
  ctx.ob('R-DOM', exi, "the scheduler is released only when the outermost section ends", good, "outlock.release under enter == 0", exi, 'D4')
  # ---- D5 cooperative lock -------------------------------------------------------------------------------------
  lk = repo.cls(RC, 'Lock'); da = q.find_method(repo, lk, '_do_acquire', 'C07'); dr = q.find_method(repo, lk, '_do_release', 'C07')
  ctx.analysed(da); ctx.analysed(dr)
  for f in lk.methods.values():
    for t, v, st, k in q.stores_in(f.node):
      if norm(t) == 'self._locked':
        good = f.name in ('_do_acquire', '_do_release', '__init__')
        ctx.ob('R-OWN', f, "lock ownership is written only by acquire/release (`%s`)" % norm(st), good, f.name, (mod, st), 'D5')
  # "free" is decided by the owner slot: where that is a truth test (`if not self._locked`) rather than `is None`, no task may be
  # falsy - a task class with __len__ / __bool__ (a consumer whose work queue is empty) would hold the lock and look like nobody
  truthy_owner = [x_ for f_ in (da, dr) for x_ in ast.walk(f_.node)
                  if (isinstance(x_, ast.UnaryOp) and isinstance(x_.op, ast.Not) and norm(x_.operand) == 'self._locked')
                  or (isinstance(x_, (ast.If, ast.While, ast.IfExp)) and norm(x_.test) == 'self._locked')]
  if truthy_owner:
    base_ = repo.cls(RC, 'BaseTask')
    falsy = []
    for k_ in repo.all_classes():
      try: isa = base_ in k_.mro()
      except Exception: isa = False
      if isa and ('__len__' in k_.methods or '__bool__' in k_.methods or '__nonzero__' in k_.methods): falsy.append(k_)
    ctx.ob('R-AGREE', da, "a lock owned by a task is not free (owner tested by truth value: no task class can be falsy)", not falsy,
           "no BaseTask subclass defines __len__ / __bool__" if not falsy else
           "%s defines %s, and Lock decides 'free' by `%s`: while such a task owns the lock and is falsy (an empty work queue) a second task acquires it too - two tasks hold one lock, and the later release raises"
           % (falsy[0].qual, '__len__' if '__len__' in falsy[0].methods else '__bool__', norm(truthy_owner[0])[:30]), falsy[0] if falsy else da, 'D5')
  # the idle break: whoever queues work for the scheduler signals unconditionally - a wake-up skipped because of state that the scheduler
  # thread changes concurrently (an "I am idle" flag) is lost when the work arrives between the scheduler's emptiness test and that flag
  hubc = repo.cls(RC, 'SelectHub'); bi_ = hubc.methods.get('break_idle') if hubc is not None else None
  if bi_ is not None:
    ctx.analysed(bi_); gb_ = q.cfg_of(bi_)
    sig = gb_.nodes_with_call(lambda c: call_name(c) in ('set', '_cycle', 'ping', 'notify', 'notify_all'))
    good = bool(sig) and gb_.postdominates(sig, gb_.entry)
    skip = [n_ for n_ in gb_.nodes if n_.kind == 'return' and not any(gb_.dominates(s_, n_) for s_ in sig)]
    ctx.ob('R-DOM', bi_, "breaking the idle wait signals on every path", good, "event.set() / _cycle() on every path" if good else
           "a path through break_idle returns without signalling (%s): the state it looks at is written by the scheduler thread without synchronisation - work queued between the scheduler's `len(self._ready) == 0` test and "
           "that write gets no wake-up and waits for the polling timeout" % (q.fact_strs(gb_, skip[0])[-1:] if skip else '?'), (bi_.module, skip[0].ast) if skip else bi_, 'D2')
  g = q.cfg_of(da); tk = da.params[1]
  own = [q.enclosing_stmt_node(g, st) for t, v, st, k in q.stores_in(da.node) if norm(t) == 'self._locked']
  park = g.nodes_with_call(lambda c: call_name(c) in ('add', 'append') and norm(c.func.value) == 'self._waiting')
  ctx.floor('lock park site', len(park), 1)
  for held in (False, True):
    for blocking in (False, True):
      env = q.Env({'self._locked': '<owner>' if held else None, 'blocking': blocking})
      r = q.reach_under_cp(repo, mod, g, env, lk)      # constant propagation: the decision may be taken through a temporary
      p = [n for n in park if n in r]; o = [n for n in own if n in r]
      want_park = held and blocking; want_own = not held
      good = (bool(p) == want_park) and (bool(o) == want_own)
      ctx.ob('R-DOM', da, "acquire with lock %s, %s -> %s" % ('held' if held else 'free', 'blocking' if blocking else 'non-blocking',
             'take the lock' if want_own else ('park the task' if want_park else 'refuse without parking')), good,
             "as required" if good else ("a refused non-blocking acquire leaves the task registered as a waiter: a later release hands it the lock although it does not know it owns it and never releases it - every later blocking acquirer starves"
             if p and not want_park else "park reachable: %s, ownership store reachable: %s" % (bool(p), bool(o))), da, 'D5')
  for n in own:
    ctx.ob('R-AGREE', da, "the acquirer becomes the owner", norm(n.ast.value) == tk, norm(n.ast), (mod, n.ast), 'D5')
  g = q.cfg_of(dr)
  popw = g.nodes_with_call(lambda c: call_name(c) in ('pop', 'popleft') and norm(c.func.value) == 'self._waiting')
  sched = g.nodes_with_call(lambda c: call_name(c) in ('fast_schedule', 'schedule'))
  ctx.floor('lock hand-over sites', len(popw) + len(sched), 2)
  iv = g.interval(lambda n: n in popw); iv2 = g.interval(lambda n: n in sched)
  ctx.ob('R-EFFECT', dr, "a release hands the lock to at most one waiter and schedules it once", iv is not None and iv[1] <= 1 and iv2 is not None and iv2[1] <= 1, "pop %s, schedule %s" % (iv, iv2), dr, 'D5')
  # decided by evaluation: with a waiter present every path ends with that waiter as the owner and scheduled;
  # with none, the lock ends free and nothing is scheduled
  popm = (lambda e: isinstance(e, ast.Call) and call_name(e) in ('pop', 'popleft') and norm(e.func.value) == 'self._waiting')
  def final_states (waiters):
    env = q.Env({'self._waiting': list(waiters), 'self._locked': '<me>'}, [(popm, waiters[0] if waiters else q.OPAQUE)])
    uses_try = any(isinstance(x_, ast.Try) for x_ in ast.walk(dr.node))
    if not waiters and uses_try:
      # "no waiter" found out by trying: the pop on the empty list raises and the handler takes over
      env = q.Env({'self._waiting': [], 'self._locked': '<me>'})
    out = []
    for p_, e_ in q.paths_under(repo, mod, g, env, g.entry, [g.exit], lk, limit=100, exc=bool(not waiters and uses_try)):
      if not waiters and uses_try and not any(n.kind == 'handler' for n in p_): continue      # the pop of an empty list does not return
      out.append((e_.exact.get('self._locked', '?'), any(n in sched for n in p_)))
    return out
  fw = final_states(['<t>']); fn_ = final_states([])
  good = bool(fw) and all(o == '<t>' and s_ for o, s_ in fw) and bool(fn_) and all(o is None and not s_ for o, s_ in fn_) and bool(popw)
  hand = [q.enclosing_stmt_node(g, st) for t, v, st, k in q.stores_in(dr.node) if norm(t) == 'self._locked' and v is not None and norm(v) not in ('None', 'False')]
  ctx.ob('R-DOM', dr, "with waiters present the lock is never left free: one waiter becomes the owner", good,
         "waiter present -> owner = waiter, scheduled; none -> free" if good else "final (owner, scheduled) with a waiter: %s; without: %s" % (fw, fn_), dr, 'D5')
  if popw and sched and hand:
    c = [c for c in q.node_calls(sched[0]) if call_name(c) in ('fast_schedule', 'schedule')][0]
    wv = popw[0].ast.targets[0].id if isinstance(popw[0].ast, ast.Assign) else None
    ctx.ob('R-AGREE', dr, "the task that is scheduled is the one that received the lock", wv is not None and norm(c.args[0]) == wv and norm(hand[0].ast.value) == wv, "t = pop(); _locked = t; schedule(t)", dr, 'D5')
  ng = [n for n in g.nodes if n.kind == 'raise_stmt']
  ctx.ob('R-DOM', dr, "releasing a lock that is not held is rejected", bool(ng) and any('self._locked:falsy' in f for f in q.fact_strs(g, ng[0])), "raise under not _locked", dr, 'D5')
  for f in (cl, tcl, trun, fs_, srun, idle, brk, sc, sr, da, dr):
    for nm, node in defs.undefined_names(repo, f):
      ctx.bad('R-DEF', f, "undefined name `%s`" % nm, "NameError on this path", (f.module, node), 'D5')
