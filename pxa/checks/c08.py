"""C08 - component rendezvous and lifecycle events (structural part).

 D1 _try_waiter: already-handled guard first; all-components test dominates removal; removal precedes
    the callback; the callback sits in a catch-all try and gets the entry's arguments
 D2 register: store -> ComponentRegistered (errors suppressed) -> _try_waiters on every path
 D3 call_when_ready: every path appends the entry, then tries it
 D4 _try_waiters iterates a copy and repeats to a fixpoint
 D5 listen_to_dependencies: exactly one call_when_ready(done, ...); component names parsed as everything
    between '_handle_' and the last '_' (decided by evaluating the parse expressions on sample names);
    done wires by prefix
 D6 lifecycle once-only: GoingUp/Up/GoingDown/Down raise sites and the chains reaching them; deferral
    tokens are fresh identities; stage 2 only from a deferral release; quit is a test-and-set
"""
import ast
from .. import q, defs
from ..model import AnalysisError, calls_in, call_name, norm, kwarg, walk_no_nested

EXPLAIN = ("R-DOM/R-ORDER/R-CONTAIN on _try_waiter (guard, readiness test, remove-then-call, catch-all); R-ORDER register and "
           "call_when_ready sequences; R-ITERMUT fixpoint over a copy; R-AGREE handler-name parsing decided by constant "
           "evaluation of the parse expressions on sample handler names; R-ONCE lifecycle raise sites, single chain to stage 2, "
           "fresh deferral tokens, quit test-and-set, GoingDown before Down. Decides these necessary conditions on all paths, "
           "not all registration/declaration permutations as executed histories.")

SAMPLES = [("_handle_core_UpEvent", "core"), ("_handle_openflow_ConnectionUp", "openflow"),
           ("_handle_openflow_discovery_LinkEvent", "openflow_discovery"), ("_handle_host_tracker_HostEvent", "host_tracker"),
           ("_handle_a_b_c_X", "a_b_c"), ("_handle_PacketIn", None), ("handle_core_UpEvent", None), ("_all_dependencies_met", None)]

def _wants_second_pass (repo, mod, g, core):
  """{result of _try_waiter: does a second pass try the waiters again?} decided by constant propagation in three
  stages: entry -> first statement of the loop body (b0) -> b0 again -> a _try_waiter call"""
  out = {}
  tw_nodes = g.nodes_with_call(lambda c: call_name(c) == '_try_waiter')
  for (s_, h, a) in g.loop_nodes:
    if not isinstance(s_, ast.While): continue
    firsts = [n for n in g.nodes if n.ast is not None and s_.body and (n.ast is s_.body[0] or n.stmt is s_.body[0])]
    firsts = sorted(firsts, key=lambda n: n.id)[:1]
    if not firsts: continue
    b0 = firsts[0]
    for result in (True, False):
      def hook (call, result=result):
        if call_name(call) == '_try_waiter': return (True, result)
        return (False, None)
      env0 = q.Env({'self._waiters': ['w1', 'w2']}, [], hook)
      again = False
      for p1, e1 in q.paths_under(repo, mod, g, env0, g.entry, [b0, g.exit, g.raise_exit], core, limit=50):
        if p1[-1] is not b0: continue
        for p2, e2 in q.paths_under(repo, mod, g, e1, b0, [b0, g.exit, g.raise_exit], core, limit=100, track_start=True):
          if p2[-1] is not b0 or not any(n in tw_nodes for n in p2): continue
          for p3, e3 in q.paths_under(repo, mod, g, e2, b0, tw_nodes + [g.exit, g.raise_exit], core, limit=100, track_start=True):
            if p3[-1] in tw_nodes or (b0 in tw_nodes): again = True
      out[result] = out.get(result, False) or again
  return out

def run (ctx):
  ctx.explanation = EXPLAIN
  ctx.assumptions = ["callbacks and event handlers are unknown code and may re-enter register/call_when_ready"]
  repo = ctx.repo
  core = repo.cls('core', 'POXCore'); mod = core.module
  M = lambda n: q.find_method(repo, core, n, 'C08')
  tw = M('_try_waiter'); tws = M('_try_waiters'); reg = M('register'); cwr = M('call_when_ready')
  ltd = M('listen_to_dependencies'); goup = M('goUp'); gd = M('_get_go_up_deferral'); st2 = M('_goUp_stage2')
  qt = M('quit'); _qt = M('_quit')
  for f in (tw, tws, reg, cwr, ltd, goup, gd, st2, qt, _qt): ctx.analysed(f)

  # ---- D1 ------------------------------------------------------------------
  g = q.cfg_of(tw)
  ent = tw.params[1]
  rm = g.nodes_with_call(lambda c: call_name(c) == 'remove' and '_waiters' in norm(c.func.value))
  cb = g.nodes_with_call(lambda c: isinstance(c.func, ast.Name) and c.func.id == 'callback')
  ctx.floor('waiter removal site', len(rm), 1); ctx.floor('waiter callback site', len(cb), 1)
  guard = [b for b in g.nodes if b.kind == 'branch' and norm(b.label[0]) in ('%s not in self._waiters' % ent, '%s in self._waiters' % ent)]
  for c in cb + rm:
    fs = q.fact_strs(g, c)
    good = ('%s in self._waiters' % ent) in fs
    ctx.ob('R-DOM', tw, "`%s` only for an entry that is still waiting" % c.text(40), good, "dominated by `entry in self._waiters`" if good else
           "not guarded by membership in the waiter list (facts %s): an entry already fired can fire again" % fs, (mod, c.ast), 'D1')
  for c in cb:
    good = any(g.dominates(r, c) for r in rm)
    ctx.ob('R-ORDER', tw, "the entry is removed before its callback runs", good, "remove dominates the call" if good else
           "the callback is invoked before the entry leaves the waiter list: a callback that registers a component re-enters _try_waiters and fires this waiter a second time", (mod, c.ast), 'D1')
    ctx.ob('R-CONTAIN', tw, "a failing callback does not propagate", not g.raises_out(c) and any(h.ast.type is None or norm(h.ast.type) in ('Exception', 'BaseException') for h in g.handlers_for(c)),
           "call inside a catch-all try" if not g.raises_out(c) else "the callback's exception escapes _try_waiter: register() fails and later waiters are not tried", (mod, c.ast), 'D1')
    wide_ = [h for h in g.handlers_for(c) if h.ast.type is None or norm(h.ast.type) in ('Exception', 'BaseException')]
    if wide_ and not g.raises_out(c):
      total_ = [h for h in wide_ if h.ast.type is None or norm(h.ast.type) == 'BaseException']
      ctx.ob('R-CONTAIN', tw, "no failure of a callback propagates - not only Exception subclasses", bool(total_), "bare except / BaseException" if total_ else
             "the widest handler around the callback is `except %s`: a callback that raises SystemExit / KeyboardInterrupt leaves _try_waiter - the sweep of the waiter list stops and the waiters behind it, although ready, do not fire"
             % norm(wide_[0].ast.type), (mod, wide_[0].ast), 'D1')
    call = [x for x in q.node_calls(c) if isinstance(x.func, ast.Name) and x.func.id == 'callback'][0]
    stars = [norm(a.value) for a in call.args if isinstance(a, ast.Starred)] + [norm(k.value) for k in call.keywords if k.arg is None]
    ctx.ob('R-AGREE', tw, "callback receives the arguments stored with the entry", len(stars) == 2, "callback(%s)" % ", ".join(stars), (mod, c.ast), 'D1')
  # readiness, decided by evaluation: the entry names two components; removal / callback must be reachable only when
  # hasComponent() is true for both (loop, all(), any(not ...) forms alike)
  sample = ('<cb>', '<name>', ['a', 'b'], (), {})
  def run_case (have):
    class H(object):
      wants_env = True
      def __call__ (self_, call, env):
        if call_name(call) == 'hasComponent' and call.args:
          try: v = q.eval_env2(repo, mod, call.args[0], env, core)
          except Exception: return (False, None)
          return (True, v in have)
        return (False, None)
    env = q.Env({ent: sample, '%s in self._waiters' % ent: True, '%s not in self._waiters' % ent: False}, [], H())
    seen = set()
    for path, fe in q.paths_under(repo, mod, g, env, g.entry, [g.exit, g.raise_exit], core, limit=300): seen.update(path)
    return any(n in seen for n in rm + cb)
  cases = {'none': run_case(()), 'first only': run_case(('a',)), 'second only': run_case(('b',)), 'both': run_case(('a', 'b'))}
  good = cases['both'] and not cases['none'] and not cases['first only'] and not cases['second only']
  ctx.ob('R-DOM', tw, "nothing fires while a named component is missing", good, "removal/callback reachable only when every named component is registered" if good else
         "with components ['a','b'], removal/callback reachability by registered set is %s (expected: only for both): a waiter fires before all its components exist, or never" % cases, tw, 'D1')
  ctx.ob('R-ALL', tw, "every named component is checked", not cases['first only'] and not cases['second only'], "a single missing component (first or second) blocks the waiter", tw, 'D1')
  # ---- D2 register ---------------------------------------------------------------
  g = q.cfg_of(reg)
  store = [q.enclosing_stmt_node(g, s_) for t, v, s_, k in q.stores_in(reg.node) if isinstance(t, ast.Subscript) and norm(t.value) == 'self.components']
  ev = g.nodes_with_call(lambda c: call_name(c) in ('raiseEventNoErrors', 'raiseEvent') and c.args and norm(c.args[0]) == 'ComponentRegistered')
  trys = g.nodes_with_call(lambda c: call_name(c) == '_try_waiters')
  ctx.floor('register sequence sites', len(store) + len(ev) + len(trys), 3)
  if store and ev and trys:
    ctx.ob('R-ORDER', reg, "component is stored before it is announced", g.dominates(store[0], ev[0]), "store dominates ComponentRegistered", reg, 'D2')
    ctx.ob('R-ORDER', reg, "waiters are tried only after the component is stored", g.dominates(store[0], trys[0]), "store dominates _try_waiters" if g.dominates(store[0], trys[0]) else "_try_waiters runs before the component is in the registry: waiters depending on it are not fired by this registration", reg, 'D2')
    ctx.ob('R-EFFECT', reg, "every registration tries the waiters", g.postdominates(trys, g.entry), "_try_waiters on every normal path", reg, 'D2')
    c = [c for c in q.node_calls(ev[0]) if call_name(c) in ('raiseEventNoErrors', 'raiseEvent')][0]
    ctx.ob('R-CONTAIN', reg, "a failing ComponentRegistered handler cannot stop the waiters", call_name(c) == 'raiseEventNoErrors', call_name(c), (mod, c), 'D2')
    sst = [s_ for t, v, s_, k in q.stores_in(reg.node) if isinstance(t, ast.Subscript) and norm(t.value) == 'self.components'][0]
    ctx.ob('R-AGREE', reg, "stored under the registration name", norm(sst.targets[0].slice) == 'name' and norm(sst.value) == 'component', norm(sst), (mod, sst), 'D2')
  # ---- D3 call_when_ready --------------------------------------------------------
  g = q.cfg_of(cwr)
  app = g.nodes_with_call(lambda c: call_name(c) == 'append' and '_waiters' in norm(c.func.value))
  tr = g.nodes_with_call(lambda c: call_name(c) == '_try_waiter')
  good = len(app) == 1 and len(tr) == 1 and g.interval(lambda n: n in app) == (1, 1) and g.interval(lambda n: n in tr) == (1, 1) and g.dominates(app[0], tr[0])
  ctx.ob('R-ORDER', cwr, "every declaration is recorded and then tried at once", good, "append then _try_waiter on every path" if good else "append/try sequence changed", cwr, 'D3')
  if app and tr:
    a = [c for c in q.node_calls(app[0]) if call_name(c) == 'append'][0]; t_ = [c for c in q.node_calls(tr[0]) if call_name(c) == '_try_waiter'][0]
    ctx.ob('R-AGREE', cwr, "the entry tried is the entry recorded", norm(a.args[0]) == norm(t_.args[0]), "%s / %s" % (norm(a), norm(t_)), cwr, 'D3')
    e_def = q.single_def(cwr.node, norm(a.args[0]))
    good = isinstance(e_def, ast.Tuple) and [norm(x) for x in e_def.elts] == ['callback', 'name', 'components', 'args', 'kw']
    if not good and isinstance(e_def, ast.Tuple) and len(e_def.elts) == 5:
      # locals under other names: each position still derives from the parameter of that role
      def closure_ (e, depth=0):
        out = set(n_.id for n_ in ast.walk(e) if isinstance(n_, ast.Name))
        if depth < 3:
          for nm_ in list(out):
            for v_, st_, k_ in q.reaching_assign(cwr.node, nm_):
              if v_ is not None: out |= closure_(v_, depth + 1)
        return out
      roles_ = ['callback', 'name', 'components', 'args', 'kw']
      cl_ = [closure_(x) for x in e_def.elts]
      good = all(r_ in c_ for r_, c_ in zip(roles_, cl_)) and all(not ((set(roles_) - {r_, 'callback'}) & (c_ & set(['components', 'args', 'kw']))) for r_, c_ in zip(roles_, cl_) if r_ in ('args', 'kw'))
    if e_def is None: good = None
    ctx.ob('R-AGREE', cwr, "entry layout matches what _try_waiter unpacks", good, norm(e_def) if e_def is not None else "entry not built from one tuple", cwr, 'D3')
  # ---- D4 fixpoint ---------------------------------------------------------------
  g = q.cfg_of(tws)
  fl = [(s_, h, a) for (s_, h, a) in g.loop_nodes if isinstance(s_, ast.For)]
  wl = [(s_, h, a) for (s_, h, a) in g.loop_nodes if isinstance(s_, ast.While)]
  comps = [n for n in ast.walk(tws.node) if isinstance(n, (ast.ListComp, ast.GeneratorExp)) and (any(call_name(c) == '_try_waiter' for c in calls_in(n.elt))
           or any(call_name(c) == '_try_waiter' for gen_ in n.generators for cond_ in gen_.ifs for c in ([cond_] if isinstance(cond_, ast.Call) else []) + list(calls_in(cond_))))]
  ctx.floor('waiter sweep loops', len(fl) + len(wl) + len(comps), 2)
  for cp in comps:
    it = cp.generators[0].iter
    if isinstance(it, ast.Name) and q.single_def(tws.node, it.id) is not None: it = q.single_def(tws.node, it.id)
    snap = isinstance(it, ast.Call) and call_name(it) in ('list', 'tuple') or isinstance(it, ast.Subscript)
    ctx.ob('R-ITERMUT', tws, "the sweep iterates a copy of the waiter list", snap, norm(it) if snap else "the sweep iterates `%s` directly while _try_waiter removes entries from it: waiters are skipped" % norm(it), (mod, cp), 'D4')
  for s_, h, a in fl:
    snap = isinstance(s_.iter, ast.Call) and call_name(s_.iter) in ('list', 'tuple') or isinstance(s_.iter, ast.Subscript)
    ctx.ob('R-ITERMUT', tws, "the sweep iterates a copy of the waiter list", snap, norm(s_.iter) if snap else
           "the sweep iterates `%s` directly while _try_waiter removes entries from it: waiters are skipped" % norm(s_.iter), (mod, s_), 'D4')
  # fixpoint decided by evaluation: with two waiters, the sweep is repeated iff some _try_waiter() returned true
  sp = _wants_second_pass(repo, mod, g, core)
  good = sp.get(True) is True and sp.get(False) is False
  for s_, h, a in wl:
    ctx.ob('R-ALL', tws, "the sweep repeats until no waiter fired (callbacks may register more components)", good,
           "one pass when nothing fired, another pass after a waiter fired" if good else "no fixpoint: a component registered by a callback does not release its own dependents", (mod, s_), 'D4')
  # ---- D5 listen_to_dependencies -----------------------------------------------------
  g = q.cfg_of(ltd)
  cw = g.nodes_with_call(lambda c: call_name(c) == 'call_when_ready')
  iv = g.interval(lambda n: n in cw)
  ctx.ob('R-EFFECT', ltd, "exactly one rendezvous is declared per sink", iv == (1, 1), "call_when_ready count %s" % (iv,), ltd, 'D5')
  if cw:
    c = [c for c in q.node_calls(cw[0]) if call_name(c) == 'call_when_ready'][0]
    good = norm(c.args[0]) == 'done' and norm(c.args[1]) == 'components' and 'components' in norm(kwarg(c, 'args'))
    ctx.ob('R-AGREE', ltd, "the wiring closure waits for exactly the parsed components", good, norm(c)[:90], (mod, c), 'D5')
  _parse_names(ctx, repo, core, ltd)
  done = q.nested_defs(ltd.node).get('done')
  if done is None: ctx.undecided('R-AGREE', ltd, "wiring closure", "nested `done` not found", ltd, 'D5')
  else:
    al = [c for c in calls_in(done) if call_name(c) == 'addListeners']
    pre = any(isinstance(t, ast.Name) and isinstance(v, ast.Dict) and any(isinstance(k_, ast.Constant) and k_.value == 'prefix' and norm(v_) == 'c' for k_, v_ in zip(v.keys, v.values)) for t, v, s_, k in q.stores_in(done))
    good = len(al) == 1 and norm(al[0].args[0]) == 'sink' and (pre or norm(kwarg(al[0], 'prefix')) == 'c')
    ctx.ob('R-AGREE', ltd, "listeners are wired per component with the component name as handler prefix", good, norm(al[0]) if al else "no addListeners", (mod, done), 'D5')
  # ---- D6 lifecycle ----------------------------------------------------------------------
  sites = {}
  for f in core.methods.values():
    for c in calls_in(f.node, nested=True):
      if call_name(c) in ('raiseEvent', 'raiseEventNoErrors', 'raiseLater') and c.args:
        a0 = c.args[0] if call_name(c) != 'raiseLater' else (c.args[1] if len(c.args) > 1 else c.args[0])
        nm = call_name(a0) if isinstance(a0, ast.Call) else norm(a0)
        if nm in ('GoingUpEvent', 'UpEvent', 'GoingDownEvent', 'DownEvent'): sites.setdefault(nm, []).append((f, c))
  want = {'GoingUpEvent': 'goUp', 'UpEvent': '_goUp_stage2', 'GoingDownEvent': '_quit', 'DownEvent': '_quit'}
  ctx.floor('lifecycle events with a raise site', len(sites), 4)
  for evn, fn in want.items():
    ss = sites.get(evn, [])
    good = len(ss) == 1 and ss[0][0].name == fn
    ctx.ob('R-ONCE', core.qual, "%s has a single raise site (%s)" % (evn, fn), good, "one site in %s" % fn if good else
           "%s is raised at %s" % (evn, ["%s:%s" % (f.name, c.lineno) for f, c in ss]), (mod, ss[0][1]) if ss else core, 'D6')
    if good:
      f, c = ss[0]
      gg = q.cfg_of(f); n = q.enclosing_stmt_node(gg, c)
      iv = gg.interval(lambda x: x is n)
      once = iv is not None and iv[1] <= 1
      ctx.ob('R-ONCE', f, "%s raised at most once per call" % evn, once, "count %s" % (iv,), (mod, c), 'D6')
  # chains to stage 2
  callers = []
  for f in core.methods.values():
    for c in calls_in(f.node, nested=True):
      if call_name(c) == '_goUp_stage2':
        inner = [d for d in q.all_nested_defs(f.node).values() if any(x is c for x in ast.walk(d))]
        callers.append((f, c, inner[0] if inner else None))
  good = len(callers) == 1 and callers[0][0].name == '_get_go_up_deferral' and callers[0][2] is not None
  ctx.ob('R-ONCE', core.qual, "stage 2 (UpEvent) is entered only by releasing a deferral", good, "single call site inside the deferral closure" if good else
         "stage 2 is reachable through %d call sites (%s): a deferral released inside a GoingUp handler and goUp's own tail can both raise UpEvent" % (len(callers), ["%s:%s" % (f.name, c.lineno) for f, c, i in callers]),
         (mod, callers[0][1]) if callers else core, 'D6')
  if callers and callers[0][2] is not None:
    d = callers[0][2]; dg = q.cfg_of(d)
    cn = q.enclosing_stmt_node(dg, callers[0][1])
    fs = q.fact_strs(dg, cn)
    empty = any(f in ('self._go_up_deferrals:falsy', 'len(self._go_up_deferrals) == 0') for f in fs)
    # the outstanding deferrals may be kept as a set of tokens or as a count: whichever attribute the guard tests for "none left"
    import re as _re
    DA = '_go_up_deferrals'
    for f_ in fs:
      m_ = _re.match(r'^(?:len\()?self\.(\w+)\)?(?::falsy| == 0| <= 0| < 1)$', f_)
      if m_ and m_.group(1) != 'starting_up': DA = m_.group(1); empty = True
    started = 'self.starting_up:falsy' in fs
    ctx.ob('R-DOM', gd, "stage 2 fires only when the last deferral is released", empty, "guarded by an empty deferral set" if empty else "facts %s" % fs, (mod, callers[0][1]), 'D6')
    ctx.ob('R-DOM', gd, "stage 2 never fires before going-up has begun", started, "guarded by not starting_up" if started else "a deferral released before goUp() raises UpEvent ahead of GoingUpEvent (facts %s)" % fs, (mod, callers[0][1]), 'D6')
    rmv = dg.nodes_with_call(lambda c: call_name(c) in ('remove', 'discard') and DA in norm(c.func.value))
    rmv += [n_ for n_ in dg.nodes if n_.ast is not None and isinstance(n_.ast, ast.AugAssign) and isinstance(n_.ast.op, ast.Sub) and norm(n_.ast.target) == 'self.' + DA]
    ctx.ob('R-ORDER', gd, "the deferral is withdrawn before the emptiness test", bool(rmv) and dg.dominates(rmv[0], cn), "remove dominates the stage-2 call", (mod, callers[0][1]), 'D6')
    tok = [norm(c.args[0]) for c in calls_in(d) if call_name(c) in ('remove', 'discard') and c.args]
    twice = [n for n in dg.nodes if n.kind == 'raise_stmt']
    good = bool(twice) and bool(rmv) and all(dg.dominates(b, rmv[0]) for b in [b for b in dg.nodes if b.kind == 'branch' and 'not in self._go_up_deferrals' in norm(b.label[0]) and b.label[1] is False])
    ctx.ob('R-ONCE', gd, "a deferral can be released only once", bool(twice), "second release raises" if twice else "a deferral released twice is not rejected", (mod, d), 'D6')
    # token freshness
    adds = [c for c in calls_in(gd.node) if call_name(c) == 'add' and '_go_up_deferrals' in norm(c.func.value)]
    if adds:
      tv = adds[0].args[0]
      tdef = q.single_def(gd.node, tv.id) if isinstance(tv, ast.Name) else tv
      if tdef is None and isinstance(tv, ast.Name):
        # several definitions: every origin must be a fresh object; one that comes from outside (a parameter, an attribute) can
        # be handed in twice, and a set keeps one copy
        ggd = q.cfg_of(gd); an = q.enclosing_stmt_node(ggd, adds[0])
        pv = q.provenance(ggd, an, tv.id) if an is not None else []
        outside = [(kind, val) for d_, kind, val in pv if not (kind == 'assign' and isinstance(val, ast.Call) and call_name(val) == 'object' and not val.args)]
        if pv and outside:
          ctx.bad('R-AGREE', gd, "each deferral is identified by a fresh object",
                  "the token `%s` can be %s, a value supplied from outside: two deferrals taken with the same value (e.g. by two handlers of one GoingUp event) occupy one slot of the set, the first release continues start-up while the other is still held and the second release raises"
                  % (tv.id, "a parameter" if outside[0][0] == 'param' else "`%s`" % norm(outside[0][1])), (mod, adds[0]), 'D6')
          tdef = False
      fresh = isinstance(tdef, ast.Call) and call_name(tdef) == 'object' and not tdef.args
      derived = tdef is not None and tdef is not False and '_go_up_deferrals' in norm(tdef)
      if tdef is not False: ctx.ob('R-AGREE', gd, "each deferral is identified by a fresh object", fresh if (fresh or derived) else None,
             "token = object()" if fresh else ("the token `%s` is computed from the current set (%s): after take, take, release, take two outstanding deferrals share a token - one release "
             "withdraws both and UpEvent is raised while a deferral is still held" % (norm(tv), norm(tdef)) if derived else "token `%s` not recognised as fresh" % norm(tdef)), (mod, adds[0]), 'D6')
      ctx.ob('R-AGREE', gd, "the closure releases the token it registered", tok and tok[0] == norm(tv), "add(%s) / remove(%s)" % (norm(tv), tok[0] if tok else None), (mod, adds[0]), 'D6')
  # stage 2 runs once, on whichever thread releases the last deferral, and nothing retries it: whatever runs before its
  # raiseEvent(UpEvent()) must not be able to abort it with an explicit raise
  def explicit_raises (fn, depth=0, seen=None):
    seen = seen or set()
    if fn in seen: return []
    seen.add(fn)
    fg = q.cfg_of(fn); out = []
    for n in fg.nodes:
      if n.kind == 'raise_stmt' and n.ast.exc is not None and fg.raises_out(n): out.append((fn, n))
    if depth < 2:
      for c in calls_in(fn.node):
        if isinstance(c.func, ast.Attribute) and norm(c.func.value) == 'self':
          cal = core.find_method(call_name(c))
          cn_ = q.enclosing_stmt_node(fg, c)
          if cal is not None and cn_ is not None and fg.raises_out(cn_): out += explicit_raises(cal, depth + 1, seen)
    return out
  g2 = q.cfg_of(st2)
  upn = [q.enclosing_stmt_node(g2, c) for f, c in sites.get('UpEvent', []) if f is st2]
  if upn and upn[0] is not None:
    early = []
    for n in g2.nodes:
      if n is upn[0] or not g2.dominates(n, upn[0]): continue
      for c in q.node_calls(n):
        if isinstance(c.func, ast.Attribute) and norm(c.func.value) == 'self':
          cal = core.find_method(call_name(c))
          if cal is not None and g2.raises_out(n):
            rs_ = explicit_raises(cal)
            if rs_: early.append((c, cal, rs_[0]))
    ctx.ob('R-ORDER', st2, "nothing that can abort stage 2 precedes raiseEvent(UpEvent())", not early, "UpEvent is raised first" if not early else
           "`%s` runs before UpEvent is raised and can leave by `%s` (%s:%s): stage 2 runs on whichever thread releases the last deferral and is never retried, so UpEvent is then never raised"
           % (norm(early[0][0])[:40], early[0][2][1].text(60), early[0][2][0].name, early[0][2][1].line), (mod, early[0][0]) if early else st2, 'D6')
  # readiness is membership in the registry and nothing else: an attribute or method of the core object that happens to have
  # the name of an awaited component is not a component
  hc = core.methods.get('hasComponent')
  if hc is not None:
    ctx.analysed(hc); gh = q.cfg_of(hc)
    def hc_under (name, registered, comp='component'):
      is_in_ = lambda e: isinstance(e, ast.Compare) and len(e.ops) == 1 and isinstance(e.ops[0], ast.In) and norm(e.comparators[0]) == 'self.components'
      is_nin_ = lambda e: isinstance(e, ast.Compare) and len(e.ops) == 1 and isinstance(e.ops[0], ast.NotIn) and norm(e.comparators[0]) == 'self.components'
      is_get_ = lambda e: isinstance(e, ast.Call) and call_name(e) == 'get' and norm(e.func.value) == 'self.components'
      def hook (call, env=None):
        # hasattr/getattr on the core object see every method and attribute of the class as well as registered components
        if isinstance(call.func, ast.Name) and call.func.id == 'hasattr' and len(call.args) == 2 and norm(call.args[0]) == 'self':
          return (True, registered or core.find_method(name) is not None)
        return (False, None)
      env = q.Env({hc.params[1]: name}, [(is_in_, registered), (is_nin_, not registered), (is_get_, comp if registered else None)], hook)
      out = set()
      for p_, e_ in q.paths_under(repo, mod, gh, env, gh.entry, [n for n in gh.nodes if n.kind == 'return'], core, limit=30):
        try: out.add(bool(q.eval_env2(repo, mod, p_[-1].ast.value, e_, core)))
        except Exception: out.add('?')
      return out
    r_reg, r_meth, r_none = hc_under('topology', True), hc_under('quit', False), hc_under('nosuchthing', False)
    # a registered component may be falsy (pox.topology's Topology has __len__ == number of entities: empty when registered)
    r_falsy = hc_under('topology', True, comp=[])
    if r_falsy and '?' not in r_falsy:
      ctx.ob('R-AGREE', hc, "a registered component is ready whatever its truth value", r_falsy == {True}, "registered falsy object -> True" if r_falsy == {True} else
             "hasComponent() of a registered component whose truth value is False (an empty Topology: __len__ is its entity count) evaluates to %s: dependents waiting for it are never called, "
             "listen_to_dependencies never wires their handlers" % sorted(r_falsy), hc, 'D1')
    if '?' in r_reg | r_meth | r_none or not r_reg or not r_meth:
      ctx.undecided('R-AGREE', hc, "hasComponent is membership in the registry", "not evaluable (%s / %s / %s)" % (sorted(map(str, r_reg)), sorted(map(str, r_meth)), sorted(map(str, r_none))), hc, 'D1')
    else:
      good = r_reg == {True} and r_meth == {False} and r_none == {False}
      ctx.ob('R-AGREE', hc, "hasComponent is membership in the registry", good, "registered -> True; unregistered (also when the core object has an attribute of that name) -> False" if good else
             "hasComponent('quit') with no such component registered evaluates to %s (registered: %s, unknown name: %s): a dependent that names a component whose name is also an attribute of the core object is called at once and never when the real component registers"
             % (sorted(r_meth), sorted(r_reg), sorted(r_none)), hc, 'D1')
  # readiness is decided by membership (hasComponent); the wiring then fetches each component through core.<name>: that
  # lookup must succeed for every registered object, also one that is falsy (an empty container-like component)
  ga = core.methods.get('__getattr__')
  if ga is not None:
    ctx.analysed(ga); gg_ = q.cfg_of(ga)
    FALSY = []
    is_get = lambda e: isinstance(e, ast.Call) and call_name(e) == 'get' and norm(e.func.value) == 'self.components'
    is_idx = lambda e: isinstance(e, ast.Subscript) and norm(e.value) == 'self.components'
    is_in = lambda e: isinstance(e, ast.Compare) and len(e.ops) == 1 and isinstance(e.ops[0], ast.In) and norm(e.comparators[0]) == 'self.components'
    is_nin = lambda e: isinstance(e, ast.Compare) and len(e.ops) == 1 and isinstance(e.ops[0], ast.NotIn) and norm(e.comparators[0]) == 'self.components'
    env_ = q.Env({ga.params[1]: 'comp'}, [(is_get, FALSY), (is_idx, FALSY), (is_in, True), (is_nin, False)])
    ends = [n for n in gg_.nodes if n.kind in ('return', 'raise_stmt')]
    outs = set()
    for p_, e_ in q.paths_under(repo, mod, gg_, env_, gg_.entry, ends, core, limit=40):
      outs.add(p_[-1].kind)
    if outs:
      ctx.ob('R-AGREE', ga, "core.<name> finds every registered component, whatever its truth value", outs == {'return'},
             "a registered component that is falsy is still returned" if outs == {'return'} else
             "for a registered component whose truth value is False (e.g. an empty topology) core.<name> ends in %s: hasComponent() reports it ready, the waiter entry is removed, and the wiring closure then fails on the lookup - the dependent is never wired"
             % sorted(outs), ga, 'D3')
    else:
      ctx.undecided('R-AGREE', ga, "core.<name> finds every registered component", "lookup not evaluable", ga, 'D3')
  # state carried from one call to the next through a default argument built once: what one dependent declares must not
  # become part of what the next one waits for
  n_md = 0
  for f_ in list(core.methods.values()) + list(mod.funcs.values()):
    n_md += 1
    for pn_, node_ in q.mutated_defaults(repo, mod, f_, core if f_.cls is not None else None):
      ctx.bad('R-OWN', f_, "default argument `%s` is not changed in place" % pn_,
              "`%s` changes the object that is the default value of `%s` (built once, shared by every call that leaves the argument out): what one call adds is seen by the next - "
              "a later sink also waits for every component the earlier sinks named, and is never wired when one of those never registers" % (node_.text(50), pn_), (mod, node_.ast), 'D5')
  ctx.stat('functions scanned for mutated defaults', n_md)
  # goUp: holds a deferral across GoingUp
  g = q.cfg_of(goup)
  take = [q.enclosing_stmt_node(g, s_) for t, v, s_, k in q.stores_in(goup.node, nested=False) if isinstance(v, ast.Call) and call_name(v) == '_get_go_up_deferral' and isinstance(t, ast.Name)]
  tname = [t.id for t, v, s_, k in q.stores_in(goup.node, nested=False) if isinstance(v, ast.Call) and call_name(v) == '_get_go_up_deferral' and isinstance(t, ast.Name)]
  gu = [q.enclosing_stmt_node(g, c) for f, c in sites.get('GoingUpEvent', []) if f is goup]
  if take and gu and tname:
    rel = g.nodes_with_call(lambda c: isinstance(c.func, ast.Name) and c.func.id == tname[0])
    good = g.dominates(take[0], gu[0]) and bool(rel) and g.dominates(gu[0], rel[0]) and g.interval(lambda n: n in rel) == (1, 1)
    ctx.ob('R-ORDER', goup, "goUp holds its own deferral across GoingUpEvent and releases it exactly once afterwards", good,
           "take -> GoingUpEvent -> release" if good else "deferral take/raise/release order changed", goup, 'D6')
    su = [q.enclosing_stmt_node(g, s_) for t, v, s_, k in q.stores_in(goup.node, nested=False) if norm(t) == 'self.starting_up' and isinstance(v, ast.Constant) and v.value is False]
    ctx.ob('R-ORDER', goup, "starting_up is cleared before GoingUpEvent (so releases inside handlers count)", bool(su) and g.dominates(su[0], gu[0]), "starting_up = False dominates the raise", goup, 'D6')
  elif gu:
    # alternative shape: direct stage-2 call guarded by emptiness (the pre-fix idiom) is reported above as a second chain
    ctx.undecided('R-ORDER', goup, "goUp deferral handshake", "goUp does not take a deferral of its own", goup, 'D6')
  # quit
  g = q.cfg_of(_qt)
  setf = [q.enclosing_stmt_node(g, s_) for t, v, s_, k in q.stores_in(_qt.node) if norm(t) == 'self.running' and isinstance(v, ast.Constant) and v.value is False]
  gdn = [q.enclosing_stmt_node(g, c) for f, c in sites.get('GoingDownEvent', []) if f is _qt]
  dn = [q.enclosing_stmt_node(g, c) for f, c in sites.get('DownEvent', []) if f is _qt]
  if setf and gdn and dn:
    fs = q.fact_strs(g, setf[0])
    ctx.ob('R-ONCE', _qt, "quit is a test-and-set on `running`", 'self.running:truthy' in fs and g.dominates(setf[0], gdn[0]),
           "returns when not running; clears the flag before raising" if 'self.running:truthy' in fs else "no `if not self.running: return` guard: a second quit raises the down events again", _qt, 'D6')
    ctx.ob('R-ORDER', _qt, "GoingDownEvent precedes DownEvent", g.dominates(gdn[0], dn[0], exc=False), "statement order" if g.dominates(gdn[0], dn[0], exc=False) else "DownEvent can be raised before GoingDownEvent", _qt, 'D6')
    ctx.ob('R-CONTAIN', _qt, "a failing GoingDown handler does not prevent DownEvent", not g.raises_out(gdn[0]), "GoingDownEvent raised inside try", _qt, 'D6')
    ctx.ob('R-EFFECT', _qt, "DownEvent is raised on every path once going down has begun", g.postdominates(dn, setf[0]), "DownEvent post-dominates the flag clear", _qt, 'D6')
  else:
    ctx.undecided('R-ONCE', _qt, "quit sequence", "running flag / down events not found in _quit", _qt, 'D6')
  for f in (tw, tws, reg, cwr, ltd, goup, gd, st2, _qt):
    for nm, node in defs.undefined_names(repo, f):
      ctx.bad('R-DEF', f, "undefined name `%s`" % nm, "NameError on this path", (mod, node), 'D6')

  # reporting a callback's failure cannot itself fail: whatever the handler around the callback calls while composing its message
  # (inspect.getfile / getsourcelines raise TypeError for builtins and callables without source) sits in a catch-all of its own -
  # an exception that leaves _try_waiter ends the fixpoint loop of _try_waiters and the remaining ready waiters do not fire
  g = q.cfg_of(tw)
  for c in cb:
    for h in g.handlers_for(c):
      inner = [n for n in g.nodes if n.ast is not None and n.kind in ('stmt', 'cond') and any(x is n.ast or any(y is n.ast for y in ast.walk(x)) for x in h.ast.body)
               and any(not (isinstance(cl.func, ast.Attribute) and norm(cl.func.value) in ('log', 'self.log')) and not (isinstance(cl.func, ast.Name) and cl.func.id in ('str', 'repr', 'len')) for cl in q.node_calls(n))]
      for n in inner:
        hs2 = [h2 for h2 in g.handlers_for(n) if h2 is not h]
        total = any(h2.ast.type is None or norm(h2.ast.type) in ('Exception', 'BaseException') for h2 in hs2)
        ctx.ob('R-CONTAIN', tw, "reporting a failed callback cannot fail (`%s`)" % n.text(40), total, "inside a catch-all of its own" if total else
               "`%s` runs inside the handler of a failed callback and is covered only by %s: for a callback without retrievable source (a builtin, a partial, a callable object) it raises TypeError out of _try_waiter - "
               "the waiter loop stops and the other waiters that are ready are not called" % (n.text(50), [norm(h2.ast.type) for h2 in hs2 if h2.ast.type is not None] or 'nothing'), (mod, n.ast), 'D1')
  # the names a waiter waits for, by evaluation of call_when_ready's normalisation on samples: one name, a set, a list, a tuple - and the
  # empty ones (the default): nothing to wait for means ready at once, not "waits for the component called []"
  cg_ = q.cfg_of(cwr); cparam = cwr.params[2] if len(cwr.params) > 2 else 'components'
  app_ = cg_.nodes_with_call(lambda c: call_name(c) == 'append' and '_waiters' in norm(c.func.value))
  wrong_ = []; unk_ = 0
  for smp, want in (('a', ['a']), (['a', 'b'], ['a', 'b']), (('a',), ['a']), ([], []), ((), []), (set(), [])):
    vals = set()
    for p_, e_ in q.paths_under(repo, mod, cg_, q.Env({cparam: smp, cwr.params[1]: 'CB', (cwr.params[3] if len(cwr.params) > 3 else 'name'): 'n'}), cg_.entry, app_, core, limit=60, exc=True):
      v_ = e_.exact.get(cparam, '?')
      vals.add(repr(v_) if isinstance(v_, list) else '?')
    if not vals or '?' in vals: unk_ += 1
    elif vals != {repr(want)}: wrong_.append((smp, sorted(vals), want))
  if unk_ and not wrong_:
    ctx.undecided('R-AGREE', cwr, "the names a waiter waits for are the names it was given (samples incl. the empty ones)", "%d of 6 samples not evaluable" % unk_, cwr, 'D2')
  else:
    ctx.ob('R-AGREE', cwr, "the names a waiter waits for are the names it was given (samples incl. the empty ones)", not wrong_, "'a', ['a','b'], ('a',), [], (), set()" if not wrong_ else
           "call_when_ready(cb, %r) waits for %s, expected %s: an empty sequence of names - the default - is itself taken for a component name; hasComponent([]) raises TypeError (unhashable) out of call_when_ready, and () is "
           "waited for forever - a waiter with nothing to wait for never fires" % wrong_[0], cwr, 'D2')
  # a component is present or absent, not true or false: register(name) with the component omitted is told from register(name, obj)
  # by `is None` - an object that happens to be falsy (an empty container-like component) is a component like any other
  rg_ = q.cfg_of(reg)
  comp_p = reg.params[2] if len(reg.params) > 2 else 'component'
  truthy = [n for n in rg_.nodes if n.kind == 'cond' and n.ast is not None and ((isinstance(n.ast, ast.Name) and n.ast.id == comp_p) or (isinstance(n.ast, ast.UnaryOp) and isinstance(n.ast.op, ast.Not) and isinstance(n.ast.operand, ast.Name) and n.ast.operand.id == comp_p))]
  ctx.ob('R-AGREE', reg, "whether a component was passed is decided by `is None`, not by its truth value", not truthy, "no truth test of `%s`" % comp_p if not truthy else
         "`%s` treats a falsy component (an object with __len__ 0 or __bool__ False) as 'not given': it is registered under the name of the *name* argument's class ('str') with the name string as the component - "
         "everything waiting for the intended name never fires" % norm(truthy[0].ast), (mod, truthy[0].ast) if truthy else reg, 'D2')
  # the set of names a sink waits for is the function's own: the caller's collection is copied before names parsed from the sink's
  # handlers are added to it (a caller's set changed in place carries one sink's dependencies over to the next sink it is used for)
  lg_ = q.cfg_of(ltd)
  cp_ = ltd.params[2] if len(ltd.params) > 2 else 'components'
  muts_ = lg_.nodes_with_call(lambda c: isinstance(c.func, ast.Attribute) and isinstance(c.func.value, ast.Name) and c.func.value.id == cp_ and c.func.attr in ('add', 'update', 'discard', 'remove', 'clear', 'pop', 'append', 'extend', 'difference_update', 'intersection_update'))
  rebinds_ = [n for n in lg_.nodes if n.kind == 'stmt' and isinstance(n.ast, ast.Assign) and any(isinstance(t, ast.Name) and t.id == cp_ for t in n.ast.targets)
              and not (isinstance(n.ast.value, ast.Name) and n.ast.value.id == cp_)]
  if muts_:
    unsafe = lg_.reachable(lg_.entry, avoid=rebinds_, exc=False)
    hit = [m for m in muts_ if m in unsafe]
    ctx.ob('R-OWN', ltd, "the caller's collection of component names is copied before it is added to", not hit, "every path to `%s` rebinds `%s` to a new set first" % (muts_[0].text(30), cp_) if not hit else
           "`%s` is reachable without `%s` having been rebound to a fresh set (a caller that passes a set gets it changed in place): a set reused for several sinks accumulates every sink's handler-derived names - "
           "a later sink waits for components only an earlier one needs and its listeners are wired late or never" % (hit[0].text(40), cp_), (mod, hit[0].ast) if hit else ltd, 'D5')

  # every request for a deferral takes out a new one: a deferral handed out twice is released twice - the second release raises, and
  # Up is announced while the second holder is still initialising
  ge_ = mod.classes.get('GoingUpEvent') if 'mod' in dir() else repo.mod('core').classes.get('GoingUpEvent')
  gdf_ = ge_.methods.get('get_deferral') if ge_ is not None else None
  if gdf_ is not None:
    ctx.analysed(gdf_); gg_ = q.cfg_of(gdf_)
    take_ = gg_.nodes_with_call(lambda c: call_name(c) == '_get_go_up_deferral')
    good = bool(take_) and gg_.postdominates(take_, gg_.entry)
    ctx.ob('R-EFFECT', gdf_, "each call of get_deferral takes out a new deferral", good, "_get_go_up_deferral() on every path" if good else
           "some path through GoingUpEvent.get_deferral returns without calling _get_go_up_deferral(): two handlers of the same event share one token - the first release lets Up be raised while the other is still busy, and its own release raises RuntimeError", gdf_, 'D4')
  # ---- mechanisms this property shares with others
  ctx.include('C05', ['raiseEventNoErrors', '_revent_exception_hook', 'handleEventException'], "component registration announces itself through raiseEventNoErrors; a hook that raises aborts register() before the waiters are tried")

def _parse_names (ctx, repo, core, ltd):
  """evaluate the handler-name parsing on sample method names"""
  mod = core.module
  g = q.cfg_of(ltd)
  loop = [(s_, h, a) for (s_, h, a) in g.loop_nodes if isinstance(s_, ast.For) and isinstance(s_.iter, ast.Call) and call_name(s_.iter) == 'dir']
  if not loop:
    ctx.undecided('R-AGREE', ltd, "handler-name parsing", "loop over dir(sink) not found", ltd, 'D5'); return
  s_, head, after = loop[0]
  var = s_.target.id if isinstance(s_.target, ast.Name) else None
  tb = [b for b in g.nodes if b.kind == 'branch' and b.label[0] is s_ and b.label[1] is True][0]
  base = {}
  for t, v, st, k in q.stores_in(ltd.node, nested=False):
    if isinstance(t, ast.Name) and isinstance(v, ast.Constant) and len(q.reaching_assign(ltd.node, t.id)) == 1: base[t.id] = v.value
  n_ok = 0
  cw = g.nodes_with_call(lambda c: call_name(c) == 'call_when_ready')
  for name, want in SAMPLES:
    # the whole function on a sink whose dir() is the one sample name: the set handed to call_when_ready decides
    ex = dict(base); ex['components'] = None; ex['dir(sink)'] = [name]
    res = '<unknown>'
    if cw:
      vals = []
      for path, env in q.paths_under(repo, mod, g, q.Env(ex), g.entry, cw, core, limit=40):
        c_ = [c for c in q.node_calls(path[-1]) if call_name(c) == 'call_when_ready'][0]
        arg = c_.args[1] if len(c_.args) > 1 else None
        try: v = q.eval_env2(repo, mod, arg, env, core) if arg is not None else '<unknown>'
        except Exception: v = '<unknown>'
        vals.append(frozenset(v) if isinstance(v, (set, frozenset, list, tuple)) else '<unknown>')
      if vals and '<unknown>' not in vals and len(set(vals)) == 1: res = vals[0]
    if res == '<unknown>':
      ctx.undecided('R-AGREE', ltd, "component parsed from `%s`" % name, "parse expression not evaluable", (mod, s_), 'D5'); continue
    good = res == (frozenset([want]) if want is not None else frozenset())
    n_ok += 1
    ctx.ob('R-AGREE', ltd, "component parsed from `%s`" % name, good,
           "-> %r" % (sorted(res),) if good else "a sink whose only handler-like name is `%s` waits for %r, expected %r: the sink waits for the wrong component (its listeners are wired too early or never)" % (name, sorted(res), want), (mod, s_), 'D5')
  ctx.floor('handler-name samples evaluated', n_ok, 6)
