"""C09 - connection lifecycle events and the connection registry (structural part).

 D1 who may raise ConnectionUp: only _finish_connecting; reached only from the handshake's barrier-reply (xid
    equal to the stored barrier) and barrier-unsupported error paths, both only once a barrier exists; the
    barrier is created only after the features reply was recorded
 D2 once: the handler swap and connect_time precede the ConnectionUp raise; the registry entry precedes it
 D3 early port-status: appended only while buffering is on, replayed after ConnectionUp in list order
    through the default handler, then buffering is switched off
 D4 ConnectionDown: raised only in disconnect under the test-and-set of disconnection_raised; still raised by
    a later close() when an earlier disconnect deferred it; close() always disconnects; every removal from
    the select list in the OpenFlow task is paired with close()
 D5 registry: written only by _connect/_disconnect; delete guarded by identity; _connect only after handshake
 D6 every event raised on a connection / nexus is declared there; handle_<NAME> names switch-originated types
"""
import ast
from .. import q, ofreg, defs
from ..model import AnalysisError, calls_in, call_name, norm, kwarg, walk_no_nested

EXPLAIN = ("R-OWN raise sites of ConnectionUp/ConnectionDown and writers of the registry; R-DOM/R-ORDER handshake "
           "preconditions (barrier after features, xid match), handler swap / registry entry before ConnectionUp, deferred "
           "port-status replay after ConnectionUp; R-ONCE test-and-set for ConnectionDown decided by path-sensitive "
           "reachability under each (disconnected, raised, deferred) state; R-EFFECT socket removal paired with close; "
           "R-REG raised events vs declared event sets, handler names vs switch-originated types. Decides these "
           "necessary conditions, not arbitrary interleavings of replies or socket-level loss points.")
OF = 'openflow.of_01'

def current_table_dispatch (ctx, repo, mod, con, clause):
  """shared with C02 (what a message is delivered to must not depend on which read() it arrived in)"""
  # the handshake ends by re-binding con.handlers; messages that follow the barrier reply in the same read must already be
  # dispatched through the new table, so the read loop fetches the table from the connection for every message
  rd = con.methods.get('read')
  rebinds = [(f_, st_) for c_ in mod.classes.values() for f_ in c_.methods.values() for t_, v_, st_, k_ in q.stores_in(f_.node)
             if isinstance(t_, ast.Attribute) and t_.attr == 'handlers' and f_.name != '__init__']
  if rd is not None and rebinds:
    ctx.analysed(rd); gr = q.cfg_of(rd)
    loops_ = [(st_, h_, a_) for st_, h_, a_ in gr.loop_nodes]
    n_tbl = 0
    for n in gr.nodes:
      if n.ast is None or n.kind in ('def', 'branch', 'handler', 'join', 'for'): continue
      lp = [(st_, h_) for st_, h_, a_ in loops_ if n in gr.loop_body_nodes(h_)]
      if not lp: continue
      for x in (walk_no_nested(n.ast) if not isinstance(n.ast, (ast.For, ast.While, ast.If, ast.With, ast.Try)) else []):
        if not (isinstance(x, ast.Subscript) and isinstance(x.ctx, ast.Load)): continue
        if isinstance(x.value, ast.Attribute) and x.value.attr == 'handlers' and norm(x.value.value) == 'self':
          n_tbl += 1
          ctx.ob('R-ORDER', rd, "each message is dispatched through the connection's current handler table", True, "self.handlers read inside the loop", (mod, x), clause); continue
        if isinstance(x.value, ast.Name):
          pv = q.provenance(gr, n, x.value.id)
          from_tbl = [(d_, kind, val) for d_, kind, val in pv if val is not None and isinstance(val, ast.Attribute) and val.attr == 'handlers' and norm(val.value) == 'self']
          if not from_tbl: continue
          n_tbl += 1
          body = gr.loop_body_nodes(lp[0][1])
          stale = [d_ for d_, kind, val in from_tbl if d_ not in body]
          ctx.ob('R-ORDER', rd, "each message is dispatched through the connection's current handler table", not stale, "table fetched per message" if not stale else
                 "`%s` is taken from self.handlers once, before the loop (`%s`), but %s re-binds con.handlers when the handshake completes (`%s`): messages that share a read with the barrier reply are still dispatched to the handshake handlers - "
                 "a port status or packet-in right after the handshake is lost, a second barrier reply raises ConnectionUp again" % (x.value.id, stale[0].text(40), rebinds[0][0].name, norm(rebinds[0][1])[:50]), (mod, x), clause)
    ctx.floor('handler-table dispatch sites in read()', n_tbl, 1)

def run (ctx):
  ctx.explanation = EXPLAIN
  ctx.assumptions = ["events are raised only through raiseEvent/raiseEventNoErrors", "handler tables are built from handle_<NAME> methods (OpenFlowHandlers._build_table)"]
  repo = ctx.repo
  mod = repo.mod(OF); nmod = repo.mod('openflow')
  con = repo.cls(OF, 'Connection'); hs = repo.cls(OF, 'HandshakeOpenFlowHandlers'); dh = repo.cls(OF, 'DefaultOpenFlowHandlers')
  nexus = repo.cls('openflow', 'OpenFlowNexus')
  fin = q.find_method(repo, hs, '_finish_connecting', 'C09'); ctx.analysed(fin)

  # ---- raise sites ---------------------------------------------------------------
  def raise_sites (evname, modules):
    out = []
    for m in modules:
      funcs = [f for c in m.classes.values() for f in c.methods.values()] + list(m.funcs.values())
      for f in funcs:
        for c in calls_in(f.node, nested=True):
          if call_name(c) in ('raiseEvent', 'raiseEventNoErrors') and c.args and norm(c.args[0]) == evname: out.append((f, c))
    return out
  ups = raise_sites('ConnectionUp', [mod, nmod]); downs = raise_sites('ConnectionDown', [mod, nmod])
  ctx.floor('ConnectionUp raise sites', len(ups), 1); ctx.floor('ConnectionDown raise sites', len(downs), 1)
  for f, c in ups:
    ctx.ob('R-OWN', f, "ConnectionUp is raised only when the handshake finishes (`%s`)" % norm(c.func), f is fin, "in _finish_connecting" if f is fin else
           "%s raises ConnectionUp outside _finish_connecting: connection-up before / without the features+barrier handshake" % f.qual, (f.module, c), 'D1')
  disc = q.find_method(repo, con, 'disconnect', 'C09'); ctx.analysed(disc)
  for f, c in downs:
    ctx.ob('R-OWN', f, "ConnectionDown is raised only by Connection.disconnect (`%s`)" % norm(c.func), f is disc, "in disconnect" if f is disc else "%s raises ConnectionDown" % f.qual, (f.module, c), 'D4')
  current_table_dispatch(ctx, repo, mod, con, 'D3')
  # the attribute that remembers the outstanding barrier request: whatever the handshake handlers bind to a new ofp_barrier_request
  # (a consistent rename of the private attribute changes nothing)
  BAR = 'self._barrier'
  def is_bar_ (f_, v_):
    if isinstance(v_, ast.Call) and call_name(v_) == 'ofp_barrier_request': return True
    if isinstance(v_, ast.Name):
      d_ = q.single_def(f_.node, v_.id)
      return isinstance(d_, ast.Call) and call_name(d_) == 'ofp_barrier_request'
    return False
  cand_ = set(norm(t_) for f_ in hs.methods.values() for t_, v_, st_, k_ in q.stores_in(f_.node)
              if isinstance(t_, ast.Attribute) and norm(t_.value) == 'self' and is_bar_(f_, v_))
  if len(cand_) == 1: BAR = list(cand_)[0]
  # ---- D1 callers of _finish_connecting --------------------------------------------------
  callers = []
  for m in (mod, nmod):
    for f in [f for c in m.classes.values() for f in c.methods.values()] + list(m.funcs.values()):
      for c in calls_in(f.node, nested=True):
        if call_name(c) == '_finish_connecting': callers.append((f, c))
  ctx.floor('callers of _finish_connecting', len(callers), 2)
  for f, c in callers:
    okf = f.cls is hs and f.name in ('handle_BARRIER_REPLY', 'handle_ERROR')
    ctx.ob('R-OWN', f, "handshake is finished only from the barrier-reply / barrier-unsupported paths", okf, f.name if okf else "%s finishes the handshake" % f.qual, (mod, c), 'D1')
    if not okf: continue
    g = q.cfg_of(f); n = q.enclosing_stmt_node(g, c); fs = q.fact_strs(g, n)
    ctx.ob('R-DOM', f, "finish only once a barrier request is outstanding", (BAR + ':truthy') in fs, "dominated by %s" % BAR if (BAR + ':truthy') in fs else "facts %s" % fs, (mod, c), 'D1')
    msg = f.params[-1]
    xid_ok = ('%s.xid == %s.xid' % (msg, BAR)) in fs or ('%s.xid == %s.xid' % (BAR, msg)) in fs
    ctx.ob('R-DOM', f, "finish only for the reply to *this* barrier (xid)", xid_ok, "xid equals the stored barrier's" if xid_ok else "not guarded by the barrier's xid (facts %s): any barrier reply / error completes the handshake" % fs, (mod, c), 'D1')
    if f.name == 'handle_ERROR':
      pat = ('%s.type == of.OFPET_BAD_REQUEST' % msg) in fs and ('%s.code == of.OFPBRC_BAD_TYPE' % msg) in fs
      ctx.ob('R-DOM', f, "an error finishes the handshake only for the barrier-unsupported pattern", pat, "BAD_REQUEST/BAD_TYPE" if pat else "facts %s" % fs, (mod, c), 'D1')
  bar = []
  for f in [f for c in mod.classes.values() for f in c.methods.values()]:
    for t, v, st, k in q.stores_in(f.node):
      if norm(t) == BAR and not (isinstance(v, ast.Constant) and v.value is None): bar.append((f, st))
  for f, st in bar:
    okf = f.cls is hs and f.name == 'handle_FEATURES_REPLY'
    ctx.ob('R-OWN', f, "the barrier is requested only after a features reply", okf, f.name, (mod, st), 'D1')
    if okf:
      g = q.cfg_of(f); n = q.enclosing_stmt_node(g, st)
      feats = [q.enclosing_stmt_node(g, s_) for t, v, s_, k in q.stores_in(f.node) if isinstance(t, ast.Attribute) and t.attr == 'features']
      dp = [q.enclosing_stmt_node(g, s_) for t, v, s_, k in q.stores_in(f.node) if isinstance(t, ast.Attribute) and t.attr == 'dpid']
      ctx.ob('R-ORDER', f, "features and dpid are recorded before the barrier goes out", bool(feats) and bool(dp) and g.dominates(feats[0], n) and g.dominates(dp[0], n), "con.features / con.dpid stores dominate the barrier", (mod, st), 'D1')
      snd = g.nodes_with_call(lambda c: call_name(c) == 'send' and c.args and (norm(c.args[0]) == BAR or (isinstance(c.args[0], ast.Name) and isinstance(st, ast.Assign) and isinstance(st.value, ast.Name) and st.value.id == c.args[0].id)))
      ctx.ob('R-EFFECT', f, "the stored barrier is the one sent", bool(snd) and g.dominates(n, snd[0]), "con.send(self._barrier)", (mod, st), 'D1')
  # ---- D2 / D3 inside _finish_connecting -----------------------------------------------------
  g = q.cfg_of(fin); c_ = fin.params[1]
  upn = [q.enclosing_stmt_node(g, c) for f, c in ups if f is fin]
  upn_con = [q.enclosing_stmt_node(g, c) for f, c in ups if f is fin and norm(c.func.value) == c_]
  swap = [q.enclosing_stmt_node(g, s_) for t, v, s_, k in q.stores_in(fin.node) if norm(t) == c_ + '.handlers']
  ctime = [q.enclosing_stmt_node(g, s_) for t, v, s_, k in q.stores_in(fin.node) if norm(t) == c_ + '.connect_time']
  regn = g.nodes_with_call(lambda c: call_name(c) == '_connect')
  for what, nodes, why in (("the connection leaves the handshake handlers", swap, "a handshake message arriving during ConnectionUp handling could finish the handshake a second time"),
                           ("connect_time is set", ctime, "listeners see a connection without connect time"),
                           ("the connection is in the registry", regn, "ConnectionUp listeners cannot reach the datapath through the registry")):
    good = bool(nodes) and all(g.dominates(nodes[0], u) for u in upn)
    ctx.ob('R-ORDER', fin, "%s before ConnectionUp is raised" % what, good, "dominates the raise" if good else "ConnectionUp is raised first: %s" % why, fin, 'D2')
  for s_ in [s_ for t, v, s_, k in q.stores_in(fin.node) if norm(t) == c_ + '.handlers']:
    ctx.ob('R-AGREE', fin, "the connection switches to the default (connected-state) handlers", '_default_handlers' in norm(s_.value), norm(s_), (mod, s_), 'D2')
  # replay
  DP = c_ + '._deferred_port_status'
  def is_dp (e):
    if norm(e) == DP: return True
    if isinstance(e, ast.Name):
      d = q.single_def(fin.node, e.id)
      return d is not None and norm(d) == DP
    return False
  loops = [(s_, h, a) for (s_, h, a) in g.loop_nodes if isinstance(s_, ast.For) and is_dp(s_.iter)]
  # a draining loop (`while pending: handler(con, pending.pop(..))`) replays too - in the order the pops take
  drains = []
  for (s_, h, a) in g.loop_nodes:
    if isinstance(s_, ast.While):
      for n in g.loop_body_nodes(h):
        for c in q.node_calls(n):
          if call_name(c) in ('pop', 'popleft') and is_dp(c.func.value): drains.append((s_, h, a, c))
  ctx.floor('deferred port-status replay loop', len(loops) + len(drains), 1)
  for s_, h, a, c in drains:
    fifo = call_name(c) == 'popleft' or (len(c.args) == 1 and norm(c.args[0]) == '0')
    ctx.ob('R-ALL', fin, "every early message is replayed, in arrival order", fifo, "drained from the head" if fifo else
           "the buffered messages are taken with `%s`, i.e. newest first: an early ADD followed by DELETE of the same port is replayed as DELETE, ADD and the deleted port stays in con.ports" % norm(c), (mod, c), 'D3')
    good = bool(upn) and any(g.dominates(u, h) for u in upn) and not any(u in g.reachable(h) for u in upn)
    ctx.ob('R-ORDER', fin, "early port-status messages are replayed only after ConnectionUp", good, "after the raises" if good else "replayed before ConnectionUp", (mod, s_), 'D3')
  for s_, h, a in loops:
    after_loop = g.reachable(h)
    good = bool(upn) and any(g.dominates(u, h) for u in upn) and not any(u in after_loop for u in upn)
    ctx.ob('R-ORDER', fin, "early port-status messages are replayed only after ConnectionUp", good, "a ConnectionUp raise dominates the replay loop and none follows it" if good else
           "the replay loop is reached before ConnectionUp has been raised: listeners get PortStatus for a connection they have not been told about", (mod, s_), 'D3')
    body = g.loop_body_nodes(h)
    early = [n for n in g.nodes if n.kind in ('break',) and any(m is a for m, l in n.succ)] + [n for n in body if n.kind in ('continue', 'return')]
    hcall = [n for n in body if any(isinstance(c.func, (ast.Name, ast.Subscript)) and len(c.args) == 2 and norm(c.args[1]) == s_.target.id for c in q.node_calls(n))]
    ctx.ob('R-ALL', fin, "every early message is replayed, in arrival order", not early and bool(hcall), "plain for-loop over the list" if not early and hcall else "replay loop skips messages", (mod, s_), 'D3')
    if hcall:
      c = [c for c in q.node_calls(hcall[0]) if isinstance(c.func, (ast.Name, ast.Subscript)) and len(c.args) == 2][0]
      d = q.single_def(fin.node, c.func.id) if isinstance(c.func, ast.Name) else c.func
      good = d is not None and norm(d) == c_ + '.handlers[of.OFPT_PORT_STATUS]'
      swap_first = bool(swap) and g.dominates(swap[0], hcall[0])
      ctx.ob('R-AGREE', fin, "replay goes through the connected-state port-status handler", good and swap_first, norm(d) if d is not None else "?", (mod, s_), 'D3')
    off = [q.enclosing_stmt_node(g, st) for t, v, st, k in q.stores_in(fin.node) if norm(t) == DP and isinstance(v, ast.Constant) and v.value is None]
    ctx.ob('R-ORDER', fin, "buffering is switched off after the replay", bool(off) and all(o in g.reachable(a) or o is a for o in off), "set to None after the loop", (mod, s_), 'D3')
  hp = hs.methods.get('handle_PORT_STATUS')
  if hp is None: ctx.bad('R-REG', hs.qual, "handshake buffers early port-status", "HandshakeOpenFlowHandlers has no handle_PORT_STATUS: early port-status messages are dropped", hs, 'D3')
  else:
    ctx.analysed(hp)
    g2 = q.cfg_of(hp); app = g2.nodes_with_call(lambda c: call_name(c) == 'append' and '_deferred_port_status' in norm(c.func.value))
    good = bool(app) and any('_deferred_port_status is not None' in f for f in q.fact_strs(g2, app[0]))
    if not app and len(hp.params) >= 3:
      # the buffer may be kept as an immutable sequence that is replaced (`buf += (msg,)`): by evaluation - with buffering off (None)
      # the handler leaves it off and does not fail, with an empty / a one-element buffer the message is added at the tail
      DPh = hp.params[1] + '._deferred_port_status'
      is_log = lambda e: isinstance(e, ast.Call) and call_name(e) in ('msg', 'info', 'debug', 'warn', 'warning', 'err')
      res_ = []
      for kind_ in (list, tuple):
        for b_ in (None, kind_(), kind_(['m0'])):
          ps_ = q.paths_under(repo, hs.module, g2, q.Env({DPh: b_, hp.params[2]: 'm1'}, [(is_log, None)]), g2.entry, [g2.exit, g2.raise_exit], hs, limit=30)
          outs_ = [('raise' if p_[-1] is g2.raise_exit else e_.exact.get(DPh, '?')) for p_, e_ in ps_]
          res_.append((kind_, b_, outs_))
      def fine (kind_):
        return all(outs_ and all((o_ is None) if b_ is None else (isinstance(o_, (list, tuple)) and list(o_) == list(b_) + ['m1']) for o_ in outs_) for k_, b_, outs_ in res_ if k_ is kind_)
      good = fine(list) or fine(tuple)
    ctx.ob('R-DOM', hp, "early port-status is buffered only while buffering is on", good, "append under `is not None`" if good else "append unguarded", hp, 'D3')
    if app:
      c = [c for c in q.node_calls(app[0]) if call_name(c) == 'append'][0]
      ctx.ob('R-AGREE', hp, "the message itself is buffered, at the tail", norm(c.args[0]) == hp.params[-1], norm(c), hp, 'D3')
  from . import c17 as c17_
  c17_.early_port_status_kept(ctx, repo, hs, 'D3')
  # ---- D4 ConnectionDown -----------------------------------------------------------------------
  g = q.cfg_of(disc)
  dn = [q.enclosing_stmt_node(g, c) for f, c in downs if f is disc]
  flagset = [q.enclosing_stmt_node(g, s_) for t, v, s_, k in q.stores_in(disc.node) if norm(t) == 'self.disconnection_raised' and isinstance(v, ast.Constant) and v.value is True]
  # the two once-flags may be folded into another representation behind properties of the same names (a bit mask): the rules below
  # read the plain attributes and do not apply then
  hidden = any(nm_ in con.methods for nm_ in ('disconnected', 'disconnection_raised')) or \
           any(isinstance(b_, ast.Assign) and any(isinstance(t_, ast.Name) and t_.id in ('disconnected', 'disconnection_raised') for t_ in b_.targets) and isinstance(b_.value, ast.Call) and call_name(b_.value) == 'property' for b_ in con.node.body)
  if hidden:
    ctx.undecided('R-ONCE', disc, "ConnectionDown is raised under a test-and-set", "`disconnected` / `disconnection_raised` are properties over another representation; the once-only state table is not evaluated", disc, 'D4')
  for d in ([] if hidden else dn):
    fs = q.fact_strs(g, d)
    good = 'self.disconnection_raised:falsy' in fs and bool(flagset) and g.dominates(flagset[0], d)
    ctx.ob('R-ONCE', disc, "ConnectionDown is raised under a test-and-set (`%s`)" % d.text(50), good, "guarded by not disconnection_raised, flag set first" if good else
           "ConnectionDown is not protected by the disconnection_raised test-and-set: a second disconnect/close raises it again (facts %s)" % fs, (mod, d.ast), 'D4')
    ctx.ob('R-DOM', disc, "ConnectionDown only for announced connections (dpid known)", any('self.dpid is not None' in f for f in fs), "under dpid is not None", (mod, d.ast), 'D4')
  if not hidden: disconnect_states(ctx, repo, mod, con, disc, dn, 'D4')
  reg_rm = g.nodes_with_call(lambda c: call_name(c) == '_disconnect')
  ctx.ob('R-EFFECT', disc, "every disconnect withdraws the connection from the registry", bool(reg_rm) and g.postdominates(reg_rm, g.entry), "_disconnect on every path", disc, 'D5')
  for n in reg_rm:
    c = [c for c in q.node_calls(n) if call_name(c) == '_disconnect'][0]
    a0_ = c.args[0] if c.args else None
    if isinstance(a0_, ast.Name):        # a local copy of the id
      d0_ = q.single_def(disc.node, a0_.id)
      if d0_ is not None: a0_ = d0_
    ctx.ob('R-AGREE', disc, "the registry is told which connection is leaving", len(c.args) >= 2 and norm(a0_) == 'self.dpid' and norm(c.args[1]) == 'self', norm(c), (mod, c), 'D5')
  mark = [q.enclosing_stmt_node(g, s_) for t, v, s_, k in q.stores_in(disc.node) if norm(t) == 'self.disconnected' and isinstance(v, ast.Constant) and v.value is True]
  ctx.ob('R-EFFECT', disc, "every disconnect marks the connection dead (send() then refuses)", (bool(mark) and g.postdominates(mark, g.entry)) if not (hidden and not mark) else None,
         "self.disconnected = True on every path" if mark else "`disconnected` is a property over another representation", disc, 'D4')
  cl = q.find_method(repo, con, 'close', 'C09'); ctx.analysed(cl)
  g2 = q.cfg_of(cl); dcs = g2.nodes_with_call(lambda c: call_name(c) == 'disconnect')
  good = bool(dcs) and g2.postdominates(dcs, g2.entry)
  dfr = [kwarg(c, 'defer_event', 1) for n in dcs for c in q.node_calls(n) if call_name(c) == 'disconnect']
  ctx.ob('R-EFFECT', cl, "close() always disconnects, without deferring the event", good and all(d is None or norm(d) == 'False' for d in dfr), "disconnect('closed') on every path" if good else "close() may skip disconnect", cl, 'D4')
  task = repo.cls(OF, 'OpenFlow_01_Task'); run_ = q.find_method(repo, task, 'run', 'C09'); ctx.analysed(run_)
  g3 = q.cfg_of(run_)
  rms = g3.nodes_with_call(lambda c: call_name(c) == 'remove' and norm(c.func.value) == 'sockets')
  closes = g3.nodes_with_call(lambda c: call_name(c) == 'close' and isinstance(c.func.value, ast.Name))
  ctx.floor('socket-removal sites', len(rms), 3)
  for r_ in rms:
    c = [c for c in q.node_calls(r_) if call_name(c) == 'remove'][0]
    who = norm(c.args[0])
    prior = [x for x in closes if any(norm(cc.func.value) == who for cc in q.node_calls(x) if call_name(cc) == 'close')]
    # the close must be attempted on every path to the removal (it may sit in its own try block)
    good = any(g3.dominates(x, r_, exc=False) for x in prior)
    ctx.ob('R-EFFECT', run_, "socket removal at line %s is paired with close()" % r_.line, good, "%s.close() precedes the removal" % who if good else
           "`%s` drops a connection from the select list without closing it: the connection is lost without ConnectionDown" % norm(c), (mod, c), 'D4')
  # read() is False -> close
  rd = [n for n in g3.nodes if n.kind == 'cond' and 'read()' in norm(n.ast)]
  ctx.ob('R-DOM', run_, "a failed read closes that connection", bool(rd) and any('read() is False' in f and True for x in closes for f in q.fact_strs(g3, x)), "close under `con.read() is False`", run_, 'D4')
  # ---- D5 registry ----------------------------------------------------------------------------
  for m in repo.modules.values():
    if '_connections' not in m.src: continue
    for cl_ in m.classes.values():
      for f in cl_.methods.values():
        for kind, site in q.mutations_of_attr(f.node, '_connections'):
          if cl_ is not nexus and not (nexus in cl_.mro()):
            # same attribute name in unrelated classes (messenger transports etc.) - only flag writes through a nexus-looking base
            base = norm(site.func.value.value) if isinstance(site, ast.Call) and isinstance(site.func.value, ast.Attribute) else ''
            if 'ofnexus' not in norm(site) and 'openflow' not in norm(site): continue
          good = cl_ is nexus and (f.name in ('_connect', '_disconnect') or (f.name == '__init__' and kind == 'rebind'))
          ctx.ob('R-OWN', f, "registry is written only by _connect/_disconnect (%s)" % kind, good, f.name if good else "%s writes the connection registry" % f.qual, (m, site), 'D5')
  cn = q.find_method(repo, nexus, '_connect', 'C09'); dc = q.find_method(repo, nexus, '_disconnect', 'C09')
  ctx.analysed(cn); ctx.analysed(dc)
  st = [s_ for t, v, s_, k in q.stores_in(cn.node) if isinstance(t, ast.Subscript) and q.mentions_attr(t, '_connections')]
  good = len(st) == 1 and norm(st[0].targets[0].slice) == cn.params[1] + '.dpid' and norm(st[0].value) == cn.params[1]
  ctx.ob('R-AGREE', cn, "a connection is registered under its own dpid (latest wins)", good, norm(st[0]) if st else "?", cn, 'D5')
  gcn = q.cfg_of(cn)
  stn = [q.enclosing_stmt_node(gcn, s_) for s_ in st]
  iv = gcn.interval(lambda n: n in stn)
  ctx.ob('R-EFFECT', cn, "every call of _connect stores the connection (a reconnecting datapath replaces its stale entry)", iv is not None and iv[0] >= 1,
         "store count on every normal path %s" % (iv,) if iv is not None and iv[0] >= 1 else
         "some path through _connect returns without storing the connection (store count %s): a datapath that reconnects before its stale connection closed gets ConnectionUp but never enters the registry - sendToDPID keeps using the dead connection" % (iv,), cn, 'D5')
  g4 = q.cfg_of(dc)
  dels = [q.enclosing_stmt_node(g4, s_) for k, s_ in q.mutations_of_attr(dc.node, '_connections') if k in ('delitem', 'call:pop')]
  ctx.floor('registry delete site', len(dels), 1)
  if len(dc.params) >= 3:
    cp = dc.params[2]
    for d in dels:
      # by value: the registry holds NEW for this dpid, the caller passes OLD
      NEW_ = q.Rec(name='new'); OLD_ = q.Rec(name='old')
      dp_ = dc.params[1]
      is_sub = lambda e: isinstance(e, ast.Subscript) and isinstance(e.ctx, ast.Load) and q.mentions_attr(e.value, '_connections')
      is_get = lambda e: isinstance(e, ast.Call) and ((call_name(e) == 'get' and q.mentions_attr(e.func.value, '_connections')) or (call_name(e) == 'getConnection' and norm(e.func.value) == 'self'))
      is_in = lambda e: isinstance(e, ast.Compare) and len(e.ops) == 1 and isinstance(e.ops[0], ast.In) and q.mentions_attr(e.comparators[0], '_connections')
      is_nin = lambda e: isinstance(e, ast.Compare) and len(e.ops) == 1 and isinstance(e.ops[0], ast.NotIn) and q.mentions_attr(e.comparators[0], '_connections')
      env = q.Env({cp: OLD_}, [(is_sub, NEW_), (is_get, NEW_), (is_in, True), (is_nin, False)])
      r = q.reach_under_cp(repo, nmod, g4, env, nexus)
      ctx.ob('R-DOM', dc, "a stale connection cannot unregister the datapath's newer connection", d not in r,
             "delete unreachable when the registered connection is a different object" if d not in r else
             "the registry entry is deleted even when it holds a *different* (newer) connection for that dpid", dc, 'D5')
  else:
    ctx.bad('R-DOM', dc, "a stale connection cannot unregister the datapath's newer connection",
            "_disconnect takes only the dpid: closing a stale connection after the datapath reconnected removes the live connection from the registry", dc, 'D5')
  for m in (mod, nmod):
    for f in [f for c in m.classes.values() for f in c.methods.values()] + list(m.funcs.values()):
      for c in calls_in(f.node, nested=True):
        if call_name(c) == '_connect' and isinstance(c.func, ast.Attribute) and 'ofnexus' in norm(c.func.value):
          good = (f is fin) or (f.cls is dh and f.name == 'handle_FEATURES_REPLY')
          ctx.ob('R-OWN', f, "connections enter the registry only after the handshake", good, f.name if good else "%s registers a connection that has not completed its handshake" % f.qual, (m, c), 'D5')
  sd = nexus.methods.get('sendToDPID')
  if sd is not None:
    ctx.analysed(sd); g5 = q.cfg_of(sd)
    sn = g5.nodes_with_call(lambda c: call_name(c) == 'send')
    # by value: with connection R registered for the dpid the send goes through R; with nothing registered nothing is sent
    R_ = q.Rec(name='registered')
    dp_ = sd.params[1]
    def sends_under (registered):
      is_sub = lambda e: isinstance(e, ast.Subscript) and isinstance(e.ctx, ast.Load) and q.mentions_attr(e.value, '_connections')
      is_get = lambda e: isinstance(e, ast.Call) and ((call_name(e) == 'get' and q.mentions_attr(e.func.value, '_connections')) or (call_name(e) == 'getConnection' and norm(e.func.value) == 'self'))
      is_in = lambda e: isinstance(e, ast.Compare) and len(e.ops) == 1 and isinstance(e.ops[0], ast.In) and q.mentions_attr(e.comparators[0], '_connections')
      is_nin = lambda e: isinstance(e, ast.Compare) and len(e.ops) == 1 and isinstance(e.ops[0], ast.NotIn) and q.mentions_attr(e.comparators[0], '_connections')
      env = q.Env({}, [(is_sub, R_ if registered else q.OPAQUE), (is_get, R_ if registered else None), (is_in, registered), (is_nin, not registered)])
      out = []
      def on_node (n, e):
        for c in q.node_calls(n):
          if call_name(c) == 'send' and isinstance(c.func, ast.Attribute):
            try: out.append(q.eval_env2(repo, nmod, c.func.value, e, nexus))
            except Exception: out.append('?')
      q.paths_under(repo, nmod, g5, env, g5.entry, [g5.exit], nexus, limit=40, on_node=on_node)
      return out
    s_reg, s_none = sends_under(True), sends_under(False)
    if any(x == '?' for x in s_reg + s_none):
      ctx.undecided('R-AGREE', sd, "sendToDPID sends through the registered connection for that dpid", "receiver of send() not evaluable", sd, 'D5')
    else:
      good = bool(s_reg) and all(x is R_ for x in s_reg) and not s_none
      ctx.ob('R-AGREE', sd, "sendToDPID sends through the registered connection for that dpid", good, sn[0].text(60) if good and sn else
             "with a connection registered the data goes to %s, with none registered %d send(s) happen" % ([getattr(x, 'get', lambda k: x)('name') if isinstance(x, q.Rec) else x for x in s_reg], len(s_none)), sd, 'D5')
  # ---- D6 declared events --------------------------------------------------------------------------
  def declared (cls):
    _, v = cls.find_assign('_eventMixin_events')
    names = set()
    if v is not None:
      for x in ast.walk(v):
        if isinstance(x, ast.Name) and x.id not in ('set',): names.add(x.id)
    return names
  dcon = declared(con); dnex = declared(nexus)
  ctx.floor('declared connection events', len(dcon), 14); ctx.floor('declared nexus events', len(dnex), 15)
  n_ev = 0
  local_ev = {}
  for f in [f for c in mod.classes.values() for f in c.methods.values()] + list(mod.funcs.values()):
    for c in calls_in(f.node, nested=True):
      if call_name(c) not in ('raiseEvent', 'raiseEventNoErrors') or not c.args: continue
      tgt = norm(c.func.value)
      a0 = c.args[0]
      ev = norm(a0) if isinstance(a0, ast.Name) else (call_name(a0) if isinstance(a0, ast.Call) else None)
      if isinstance(a0, ast.Name) and a0.id[0].islower():
        d = q.single_def(f.node, a0.id)
        ev = call_name(d) if isinstance(d, ast.Call) else None
      if ev is None: continue
      if tgt.endswith('ofnexus'): decl, where = dnex, 'OpenFlowNexus'
      elif tgt in ('con', 'self') and (tgt == 'con' or f.cls is con): decl, where = dcon, 'Connection'
      else: continue
      n_ev += 1
      ctx.ob('R-REG', f, "%s is declared on %s" % (ev, where), ev in decl, "declared" if ev in decl else
             "%s raises %s on a %s, whose _eventMixin_events does not list it: raiseEvent rejects it with ReventError (which raiseEventNoErrors re-raises)" % (f.name, ev, where), (mod, c), 'D6')
  ctx.floor('raised events checked', n_ev, 17)
  msgs = dict((m.name, m) for m in ofreg.messages(repo))
  for cls, need in ((hs, ('HELLO', 'FEATURES_REPLY', 'BARRIER_REPLY', 'ERROR', 'PORT_STATUS', 'ECHO_REQUEST')), (dh, ('PORT_STATUS', 'PACKET_IN', 'ERROR', 'BARRIER_REPLY', 'STATS_REPLY', 'FLOW_REMOVED', 'FEATURES_REPLY', 'ECHO_REQUEST'))):
    for name, f in cls.methods.items():
      if not name.startswith('handle_') or name[7:] != name[7:].upper(): continue
      m = msgs.get('OFPT_' + name[7:])
      good = m is not None and m.switch
      ctx.ob('R-REG', f, "%s names a switch-originated message type" % name, good, "OFPT_%s" % name[7:] if good else "no switch-originated type OFPT_%s: the handler table assertion fails at start-up / the handler is never installed" % name[7:], f, 'D6')
    for nm in need:
      ctx.ob('R-REG', cls.qual, "%s handles %s" % (cls.name, nm), cls.find_method('handle_' + nm) is not None, "handle_" + nm, cls, 'D6')
  for f in (fin, disc, cl, cn, dc):
    for nm, node in defs.undefined_names(repo, f):
      ctx.bad('R-DEF', f, "undefined name `%s`" % nm, "NameError on this path", (f.module, node), 'D6')
  connection_str_total(ctx, repo, 'D1')
  _shared_handler_state(ctx, repo, mod, con)
  _dpid_presence(ctx, repo, mod, nmod, con, nexus)

def _shared_handler_state (ctx, repo, mod, con):
  """a handler object shared by all connections (a module-level instance whose table is handed to connections) keeps no state of its
  own between messages: what one handshake remembers (the outstanding barrier xid) would be overwritten by the next one"""
  n = 0
  for nm, val in mod.assigns.items():
    if not (isinstance(val, ast.Call) and isinstance(val.func, ast.Name) and not val.args): continue
    cl = mod.classes.get(val.func.id)
    if cl is None or not any(k.name == 'OpenFlowHandlers' for k in cl.mro()): continue
    used = any(isinstance(x, ast.Attribute) and x.attr == 'handlers' and isinstance(x.value, ast.Name) and x.value.id == nm for x in ast.walk(mod.tree))
    if not used: continue
    n += 1
    writes = []
    for k in cl.mro():
      for f in k.methods.values():
        if not f.name.startswith(('handle_', '_finish')) or len(f.params) < 2: continue
        for t, v, s_, kind in q.stores_in(f.node):
          if isinstance(t, ast.Attribute) and isinstance(t.value, ast.Name) and t.value.id == 'self': writes.append((f, t, s_))
    if not writes: ctx.ok('R-OWN', mod.short + ':' + nm, "a handler object shared by all connections keeps no per-connection state", "no handler of %s writes self.<attr>" % cl.name, (mod, val), 'D1')
    for f, t, s_ in writes[:3]:
      ctx.bad('R-OWN', mod.short + ':' + nm, "a handler object shared by all connections keeps no per-connection state (`self.%s`)" % t.attr,
              "%s is one %s instance whose table every connection uses, but %s stores per-handshake state in `self.%s`: two overlapping handshakes overwrite each other's value - the first switch's "
              "barrier reply no longer matches, it is dropped as a failed connect and never gets ConnectionUp" % (nm, cl.name, f.qual, t.attr), (mod, s_), 'D1')
  ctx.floor('module-level handler objects examined', n, 1)

def _dpid_presence (ctx, repo, mod, nmod, con, nexus):
  """datapath id 0 is a legal id: whether a connection has one is decided by `is None` / membership, never by truth value"""
  n = 0
  def is_dpid (e): return (isinstance(e, ast.Name) and e.id == 'dpid') or (isinstance(e, ast.Attribute) and e.attr == 'dpid')
  for cl in (con, nexus):
    for f in cl.methods.values():
      tests = []
      for x in walk_no_nested(f.node):
        if isinstance(x, (ast.If, ast.While, ast.IfExp)): tests.append(x.test)
        elif isinstance(x, ast.Assert): tests.append(x.test)
        elif isinstance(x, ast.BoolOp): tests.extend(x.values[:-1] if not isinstance(getattr(x, '_parent_test', None), ast.AST) else x.values)
      seen = set()
      def atoms (t):
        if isinstance(t, ast.BoolOp):
          for v in t.values:
            for a in atoms(v): yield a
        elif isinstance(t, ast.UnaryOp) and isinstance(t.op, ast.Not):
          for a in atoms(t.operand): yield a
        else: yield t
      for t in tests:
        for a in atoms(t):
          if id(a) in seen: continue
          seen.add(id(a))
          if is_dpid(a):
            n += 1
            ctx.bad('R-DOM', f, "whether there is a datapath id is not decided by its truth value", "`%s` is tested for truth: a switch whose datapath id is 0 is treated as having none - it is never "
                    "withdrawn from / entered into the registry like any other" % norm(a), (f.module, a), 'D5')
          elif isinstance(a, ast.Compare) and len(a.ops) == 1 and isinstance(a.ops[0], (ast.Is, ast.IsNot, ast.In, ast.NotIn)) and (is_dpid(a.left) or is_dpid(a.comparators[0])):
            n += 1
            ctx.ok('R-DOM', f, "whether there is a datapath id is not decided by its truth value", norm(a), (f.module, a), 'D5')
  ctx.floor('datapath-id presence tests', n, 4)

def disconnect_states (ctx, repo, mod, con, disc, dn, clause):
  g = q.cfg_of(disc)
  STATES = [  # (already disconnected?, already raised?, defer?) -> must ConnectionDown be raised by this call
    (False, False, False, True), (False, False, True, False), (True, False, False, True), (True, True, False, False), (False, True, False, False)]
  for was, raised, defer, want in STATES:
    env = q.Env({'self.disconnected': was, 'self.disconnection_raised': raised, 'defer_event': defer,
                 'self.dpid is None': False, 'self.dpid is not None': True})
    r = q.reach_under(repo, mod, g, env, con, exc=True)
    got = bool(dn) and all(d in r for d in dn)
    anyd = any(d in r for d in dn)
    good = got if want else not anyd
    ctx.ob('R-ONCE', disc, "disconnect with disconnected=%s raised=%s defer_event=%s -> ConnectionDown %s" % (was, raised, defer, 'raised' if want else 'not raised'), good,
           "as required" if good else ("ConnectionDown is unreachable in this state: a loss first noticed with the event deferred (failing send) is never announced - "
           "listeners keep a dead connection" if want else "ConnectionDown reachable although it must not be raised (again)"), disc, clause)
  # the once-flag and the event go together: a path that sets `disconnection_raised` without raising ConnectionDown uses up the
  # one chance - no later disconnect()/close() raises it
  flags = [q.enclosing_stmt_node(g, st) for t, v, st, k in q.stores_in(disc.node) if isinstance(t, ast.Attribute) and t.attr == 'disconnection_raised' and norm(t.value) == 'self'
           and v is not None and isinstance(v, ast.Constant) and v.value is True]
  flags = [f_ for f_ in flags if f_ is not None]
  for f_ in flags:
    if not dn: continue
    holds = all(g.dominates(d, f_, exc=False) for d in dn) or q.must_pass_under(repo, mod, g, q.Env(), [d for d in dn if not g.dominates(d, f_, exc=False)], con, start=f_)[0]
    ctx.ob('R-EFFECT', disc, "the once-flag is set only on paths that raise ConnectionDown", holds, "flag and event on the same paths" if holds else
           "`self.disconnection_raised = True` is followed by a path that raises no ConnectionDown (facts at the raise: %s): the connection is marked as announced-down without anybody having been told - "
           "if listeners did hear ConnectionUp (e.g. a ConnectionUp handler that disconnects: earlier listeners have been called already) they never hear ConnectionDown" % q.fact_strs(g, dn[0])[-2:], (mod, f_.ast), clause)



def connection_str_total (ctx, repo, clause):
  """`str(connection)` is part of every log call on a connection - the warnings in read(), the error paths of send(), the task's own
  except clause, disconnect(): it must be total.  Its calls are conversions only (anything that asks the socket is inside a try), and
  the DPID formatter it relies on is evaluated on sample DPIDs, among them ones with the upper 16 bits set."""
  con = repo.cls('openflow.of_01', 'Connection'); f = con.methods.get('__str__')
  if f is None: return
  ctx.analysed(f); g = q.cfg_of(f)
  SAFE = ('str', 'dpidToStr', 'dpid_to_str', 'id', 'repr', 'int', 'hex', 'format', 'join')
  for n in g.nodes:
    for c in q.node_calls(n):
      if call_name(c) in SAFE: continue
      hs = g.handlers_for(n)
      contained = any(h.ast.type is None or any(k in norm(h.ast.type) for k in ('Exception', 'BaseException')) for h in hs)
      ctx.ob('R-CONTAIN', f, "printing a connection cannot fail (`%s`)" % norm(c)[:40], contained, "inside a catch-all" if contained else
             "`%s` can raise (a socket that was reset has no peer any more), and str(connection) is evaluated by every con.msg/err/info - also on the error paths of send() before disconnect(), and inside the "
             "OpenFlow task's own except clause: the error handling itself fails, the connection is neither marked disconnected nor announced down" % norm(c)[:50], (f.module, c), clause)
  um = repo.mod('lib.util'); d2s = um.funcs.get('dpid_to_str')
  if d2s is None: raise AnalysisError("lib.util.dpid_to_str vanished")
  ctx.analysed(d2s); gd = q.cfg_of(d2s)
  bad = []; und = 0
  for d in (1, 0x0000ffffffffffff, 0x00a1000000000001, 0xffff000000000005, 0x1234aabbccddeeff):
    lo = '-'.join('%02x' % ((d >> s_) & 0xff) for s_ in (40, 32, 24, 16, 8, 0)); hi = d >> 48
    want = lo + ('|%d' % hi if hi else '')
    del q.RAISED[:]
    outs = set()
    for p_, e_ in q.paths_under(repo, um, gd, q.Env({d2s.params[0]: d, d2s.params[1] if len(d2s.params) > 1 else 'alwaysLong': False}), gd.entry, [n_ for n_ in gd.nodes if n_.kind == 'return'], None, limit=30):
      try: outs.add(q.eval_env2(repo, um, p_[-1].ast.value, e_, None))
      except Exception: outs.add('?')
    if q.RAISED: bad.append((d, "raises %s (`%s`)" % (q.RAISED[0][1], q.RAISED[0][0]))); continue
    if not outs or '?' in outs: und += 1; continue
    if outs != {want}: bad.append((d, "gives %s, the canonical form is %r" % (sorted(outs), want)))
  if und and not bad:
    ctx.undecided('R-AGREE', d2s, "the DPID formatter is total and canonical on sample DPIDs", "%d of 5 samples not evaluable" % und, d2s, clause)
  else:
    ctx.ob('R-AGREE', d2s, "the DPID formatter is total and canonical on sample DPIDs", not bad, "5 samples (upper 16 bits zero and non-zero)" if not bad else
           "dpid_to_str(0x%016x) %s: every log line of a connection to such a switch fails - ConnectionUp is never raised although the connection is registered, and the controller's read loop dies on the first warning"
           % bad[0], d2s, clause)
