"""C10 - malformed OpenFlow input is contained to the offending connection (structural part).

 D1 R-PROGRESS  every loop driven by received bytes advances on every iteration: each loop-head-to-loop-head
                path (constant propagation, callee summaries specialised on constant arguments) carries a step
                of proven positive size
 D2 R-CONTAIN   controller: anything escaping Connection.read is caught per iteration by the OpenFlow task,
                which closes *that* connection and keeps looping; handler exceptions are caught per message
                after the cursor advanced
 D3 R-CONTAIN   switch: anything escaping a worker's receive path is caught in _do_recv (catch-all), which
                closes that worker only; error-handler outcomes lead to consume-and-continue or close-and-stop
 D4 R-DOM       consumed == declared is checked after every decode (assert / BAD_LENGTH)
 D5 R-BYTES     error replies are built from bytes
"""
import ast
from .. import q, framing, progress, ofreg, defs
from ..model import AnalysisError, calls_in, call_name, norm, kwarg, walk_no_nested

EXPLAIN = ("R-PROGRESS on every wire-driven loop (two framing loops, action / queue-property / queue / stats-part list decoders, "
           "capture-socket loops): all loop-head-to-loop-head paths enumerated with constant propagation and callee summaries "
           "specialised on constant arguments, each must carry a step of proven positive size; R-CONTAIN exception containment "
           "frames of the controller task and the switch IO worker; R-DOM consumed==declared checks; R-BYTES error payloads. "
           "Decides these necessary conditions, not termination for every byte string.")
OF = 'openflow.of_01'; SW = 'datapaths.switch'; IO = 'lib.ioworker'; LOF = 'openflow.libopenflow_01'

def _eh_hook (repo, ofc):
  eh = ofc.find_method('_error_handler')
  cache = {}
  def hook (call):
    if call_name(call) != '_error_handler' or not call.args or eh is None: return (False, None)
    a0 = norm(call.args[0]); cname = a0.split('.')[-1]
    if cname not in cache:
      c, v = ofc.find_assign(cname)
      val = repo.try_const(ofc.module, v, ofc) if v is not None else None
      if val is None: cache[cname] = None
      else:
        env = q.Env({eh.params[1]: val})
        s = framing.return_summary(repo, eh, env)
        cache[cname] = s
    s = cache[cname]
    if s == {'False'}: return (True, False)
    if s == {'None'}: return (True, None)
    if s == {'True'}: return (True, True)
    return (False, None)
  hook.cache = cache
  return hook

def _min_len_registered (repo, kind):
  """minimum constant part of __len__ over the classes a registry can produce"""
  regs = [r for r in ofreg.registrations(repo) if r.kind == kind]
  lo = None; n = 0
  for r in regs:
    f = r.cls.find_method('__len__')
    if f is None: return None, n
    vals = []
    for rt in q.returns_of(f.node):
      vals.append(_const_part(repo, f, rt.value))
    if not vals or any(v is None for v in vals): return None, n
    m = min(vals); lo = m if lo is None else min(lo, m); n += 1
  return lo, n

def _const_part (repo, f, e):
  if isinstance(e, ast.Name):
    # `return l` where l starts from a constant and only grows
    d = q.reaching_assign(f.node, e.id)
    base = [q.try_int(v) for v, st, k in d if k == 'assign']
    grows = all(k == 'augassign' and isinstance(st.op, ast.Add) for v, st, k in d if k != 'assign')
    if base and all(b is not None for b in base) and grows: return min(base)
    return None
  k = q.try_int(e)
  if k is not None: return k
  v = repo.try_const(f.module, e, f.cls)
  if isinstance(v, int): return v
  if isinstance(e, ast.BinOp) and isinstance(e.op, ast.Add):
    a = _const_part(repo, f, e.left); b = _const_part(repo, f, e.right)
    if a is None and b is None: return None
    return (a or 0) + (b or 0)
  if isinstance(e, ast.Call) and call_name(e) in ('len', 'sum'): return 0
  return None

def run (ctx):
  ctx.explanation = EXPLAIN
  ctx.assumptions = ["assert statements execute", "struct/IndexError/UnderrunError/AssertionError are what malformed input can raise in decoders",
                     "codec objects' __len__ has the constant part read from its return expression"]
  repo = ctx.repo
  con = repo.cls(OF, 'Connection'); ofc = repo.cls(SW, 'OFConnection'); iow = repo.cls(IO, 'IOWorker')
  lof = repo.mod(LOF)
  hook = _eh_hook(repo, ofc)
  n_loops = 0

  # ---- D1 progress: the two framing loops -----------------------------------------------
  for qual in ('openflow.of_01:Connection.read', 'datapaths.switch:OFConnection.read'):
    f = repo.func(qual); ctx.analysed(f)
    L = framing.find_loop(repo, f)
    res, np_ = progress.check_loop(repo, f, L.g, L.head, L.after, L.loop[0], env=q.Env(call_hook=hook), cursors=set([L.cur]) if L.cur else set(), exc=True, limit=600)
    ctx.stat('paths_enumerated', np_)
    if not res: ctx.undecided('R-PROGRESS', f, "framing loop progress", "no loop path enumerated", f, 'D1'); continue
    n_loops += 1
    for i, (ok, why, lines) in enumerate(res):
      ctx.ob('R-PROGRESS', f, "iteration path %s makes progress" % _sig(lines), ok,
             why if ok else "non-progress possible on the path through lines %s: %s - a crafted message makes the loop spin forever, blocking every connection served by this loop" % (lines, why),
             (f.module, L.loop[0]), 'D1', path=lines)
  for cname, s in hook.cache.items():
    ctx.ok('R-PROGRESS', ofc.qual + '._error_handler', "summary for reason %s" % cname, "returns %s" % (sorted(s) if s else '?'), ofc, 'D1')
  # ---- list decoders -----------------------------------------------------------------------
  amin, an = _min_len_registered(repo, 'ofp_action_type'); qmin, qn = _min_len_registered(repo, 'ofp_queue_prop_type')
  ctx.stat('action_classes_min_len', amin if amin is not None else -1)
  def nonempty_factory (minlen, kindname):
    def ne (objexpr, path):
      if minlen is not None and minlen >= 1: return True, "every registered %s class has len >= %d" % (kindname, minlen)
      return False, "minimum length of %s classes unknown" % kindname
    return ne
  DEC = [('_unpack_actions', nonempty_factory(amin, 'action')), ('_unpack_queue_props', nonempty_factory(qmin, 'queue property'))]
  for name, ne in DEC:
    f = lof.funcs.get(name)
    if f is None: raise AnalysisError("decoder %s vanished" % name)
    ctx.analysed(f); g = q.cfg_of(f)
    for (st, h, a) in g.loop_nodes:
      if not isinstance(st, ast.While): continue
      res, np_ = progress.check_loop(repo, f, g, h, a, st, nonempty_len=ne); ctx.stat('paths_enumerated', np_)
      n_loops += 1
      for ok, why, lines in res:
        ctx.ob('R-PROGRESS', f, "iteration path %s makes progress" % _sig(lines), ok, why if ok else "non-progress possible (lines %s): %s" % (lines, why), (lof, st), 'D1', path=lines)
      # element length bounded by what is left of the declared list
      # a comparison over  len(b) - cursor - size  in any arrangement (the size being what the element header declared)
      bound = False; seen_len = False
      for n_ in g.loop_body_nodes(h):
        if n_.kind != 'cond' or not isinstance(n_.ast, ast.Compare) or len(n_.ast.ops) != 1: continue
        if 'len(b)' in norm(n_.ast): seen_len = True
        a_ = q.lin_terms(n_.ast.left); b_ = q.lin_terms(n_.ast.comparators[0])
        if a_ is None or b_ is None or not isinstance(n_.ast.ops[0], (ast.Lt, ast.LtE, ast.Gt, ast.GtE)): continue
        d_ = dict(a_[0])
        for k_, v_ in b_[0].items():
          d_[k_] = d_.get(k_, 0) - v_
          if d_[k_] == 0: del d_[k_]
        if len(d_) == 3 and 'len(b)' in d_ and 'offset' in d_ and d_['len(b)'] == -d_['offset'] and all(v_ == d_['offset'] for k_, v_ in d_.items() if k_ != 'len(b)'):
          bound = True
      if not bound and seen_len: bound = None
      ctx.ob('R-DOM', f, "an element's declared length is checked against the bytes that are left", bound, "a comparison of len(b) - offset with the declared length guards the element" if bound else "no such comparison in the loop", (lof, st), 'D4')
  for cls_name in ('ofp_queue_get_config_reply', 'ofp_stats_reply'):
    c = repo.cls(LOF, cls_name); f = c.methods.get('unpack')
    if f is None: raise AnalysisError("%s.unpack vanished" % cls_name)
    ctx.analysed(f); g = q.cfg_of(f)
    for (st, h, a) in g.loop_nodes:
      if not isinstance(st, ast.While): continue
      res, np_ = progress.check_loop(repo, f, g, h, a, st); ctx.stat('paths_enumerated', np_)
      n_loops += 1
      for ok, why, lines in res:
        ctx.ob('R-PROGRESS', f, "iteration path %s makes progress" % _sig(lines), ok, why if ok else "non-progress possible (lines %s): %s" % (lines, why), (lof, st), 'D1', path=lines)
  cap = repo.mod(OF).classes.get('OFCaptureSocket')
  if cap is not None:
    for name in ('_recv_out', '_send_out'):
      f = cap.methods.get(name)
      if f is None: continue
      ctx.analysed(f); g = q.cfg_of(f)
      for (st, h, a) in g.loop_nodes:
        if not isinstance(st, ast.While): continue
        res, np_ = progress.check_loop(repo, f, g, h, a, st); ctx.stat('paths_enumerated', np_)
        n_loops += 1
        for ok, why, lines in res:
          ctx.ob('R-PROGRESS', f, "iteration path %s makes progress" % _sig(lines), ok, why if ok else "non-progress possible (lines %s): %s - the controller's single OpenFlow task spins forever (trace capture enabled)" % (lines, why), (f.module, st), 'D1', path=lines)
  ctx.floor('wire-driven loops analysed', n_loops, 8)

  # ---- D2 controller containment -------------------------------------------------------------
  task = repo.cls(OF, 'OpenFlow_01_Task'); run_ = q.find_method(repo, task, 'run', 'C10'); ctx.analysed(run_)
  g = q.cfg_of(run_)
  rd = g.nodes_with_call(lambda c: call_name(c) == 'read' and not c.args)
  ctx.floor('controller read call site', len(rd), 1)
  for n in rd:
    hs = g.handlers_for(n)
    ca = [h for h in hs if h.ast.type is None or norm(h.ast.type) in ('Exception', 'BaseException')]
    good = bool(ca) and not g.raises_out(n)
    ctx.ob('R-CONTAIN', run_, "whatever escapes Connection.read is caught by the OpenFlow task", good, "con.read() inside try with a catch-all" if good else
           "con.read() is not enclosed by a catch-all handler (%s): a decoder exception ends the task - no connection is served any more" % [norm(h.ast.type) for h in hs if h.ast.type is not None], (run_.module, n.ast), 'D2')
    for h in ca:
      # inside the handler, for a non-listener connection: close + remove, and the outer loop continues (no break)
      env = q.Env({'con is listener': False, 'sys.exc_info()[0] is socket.error': False, 'do_break': False})
      # within the current iteration of the task's main loop (a `break` met after coming round to the loop head again is
      # the loop's own exit test, not the handler's doing)
      heads = [hd for (s_, hd, a_) in g.loop_nodes if isinstance(s_, ast.While) and n in g.loop_body_nodes(hd)]
      r = set()
      for p_, e_ in q.paths_under(repo, run_.module, g, env, h, heads + [g.exit, g.raise_exit] + [x for x in g.nodes if x.kind == 'raise_stmt'], task, limit=400): r.update(p_)
      closes = [x for x in r if any(call_name(c) == 'close' for c in q.node_calls(x))]
      brk = [x for x in r if x.kind == 'break']
      ctx.ob('R-CONTAIN', run_, "a failing connection is closed and the accept/read loop goes on", bool(closes) and not brk,
             "close reachable, break unreachable for a non-listener socket" if closes and not brk else
             "for an ordinary connection the exception handler %s" % ("leaves the OpenFlow loop (break): every other connection stops being served" if brk else "does not close the connection"), (run_.module, h.ast), 'D2')
    # the try is inside the outer `while core.running` so the loop continues
    outer = [(s_, hh, a) for (s_, hh, a) in g.loop_nodes if isinstance(s_, ast.While) and n in g.loop_body_nodes(hh)]
    inloop = bool(outer) and all(any(x is t for x in ast.walk(outer[0][0])) for t in g.try_of[n][-1:])
    ctx.ob('R-CONTAIN', run_, "the containing try sits inside the task's main loop", inloop, "try inside `while core.running`" if inloop else "an exception leaves the main loop", (run_.module, n.ast), 'D2')
  f = repo.func('openflow.of_01:Connection.read'); L = framing.find_loop(repo, f); g = L.g
  for n, c in L.deliver:
    hs = g.handlers_for(n)
    good = any(h.ast.type is None or norm(h.ast.type) in ('Exception', 'BaseException') for h in hs) and not g.raises_out(n)
    ctx.ob('R-CONTAIN', f, "a message handler's exception costs only that message", good, "handler call in a catch-all try" if good else "handler exceptions escape read(): the connection is closed for a controller-side bug", (f.module, c), 'D2')
    adv = [a[0] for a in L.advance]
    ctx.ob('R-ORDER', f, "the cursor has advanced before the handler runs (a failing handler is not retried)", any(g.dominates(a, n) for a in adv), "advance dominates delivery", (f.module, c), 'D2')
  # version check -> connection dropped
  vr = [n for n in g.nodes if n.kind == 'return' and isinstance(n.ast.value, ast.Constant) and n.ast.value.value is False and any('OFP_VERSION' in f_ for f_ in q.fact_strs(g, n))]
  ctx.ob('R-EFFECT', f, "a wrong protocol version drops the connection", bool(vr), "return False under version mismatch", f, 'D2')
  # ... and it is looked at for every message, at the message's own first byte: several messages arrive in one segment, and a verdict
  # on the first one says nothing about the ones behind it
  vc = [n_ for n_ in g.nodes if n_.kind == 'cond' and n_.ast is not None and 'OFP_VERSION' in norm(n_.ast)]
  body_ = g.loop_body_nodes(L.head)
  per_msg = [n_ for n_ in vc if n_ in body_ and any(isinstance(x_, ast.Subscript) and norm(x_.value) == L.buf and (norm(x_.slice) == (L.cur or '0')) for x_ in ast.walk(n_.ast))]
  if not per_msg:
    # the byte may be taken into a local first - inside the loop, from the cursor
    def at_cursor (x_): return isinstance(x_, ast.Subscript) and norm(x_.value) == L.buf and norm(x_.slice) == (L.cur or '0')
    for n_ in vc:
      if n_ not in body_: continue
      for nm_ in [x_ for x_ in ast.walk(n_.ast) if isinstance(x_, ast.Name) and isinstance(x_.ctx, ast.Load)]:
        try: pv_ = q.provenance(g, n_, nm_.id)
        except Exception: pv_ = []
        if pv_ and all(d_ in body_ and val_ is not None and not isinstance(val_, tuple) and at_cursor(val_) for d_, kind_, val_ in pv_): per_msg.append(n_); break
  ctx.ob('R-ALL', f, "the protocol version of every framed message is examined", bool(per_msg), "version byte at the cursor, inside the framing loop" if per_msg else
         "the version test %s is not made per message at `%s[%s]`: a message with an unsupported version byte that is not the first in the receive buffer (coalesced into one segment with its predecessors) is decoded as OpenFlow 1.0 and acted upon "
         "instead of the connection being dropped" % ([norm(n_.ast)[:40] for n_ in vc][:1], L.buf, L.cur or '0'), (f.module, vc[0].ast) if vc else f, 'D2')
  # code that runs inside Connection.read() (the per-message handlers) must leave the socket object alone: read() keeps
  # returning True, so the task keeps the connection in its select list - with a closed descriptor (fileno -1) the next
  # Select raises in the hub and no connection is served any more.  Handlers give up a connection with disconnect() (shutdown:
  # the next read sees end-of-file and the task drops it)
  ofm_ = repo.mod(OF); n_h = 0
  for cls_ in ofm_.classes.values():
    for f_ in cls_.methods.values():
      if not (f_.name.startswith('handle_') or f_.name == '_finish_connecting'): continue
      ps_ = f_.params
      cp_ = ps_[0] if ps_ and ps_[0] not in ('self', 'cls') else (ps_[1] if len(ps_) > 1 else None)
      if cp_ is None: continue
      n_h += 1
      for c_ in calls_in(f_.node, nested=True):
        if call_name(c_) == 'close' and isinstance(c_.func, ast.Attribute) and norm(c_.func.value) in (cp_, cp_ + '.sock'):
          ctx.bad('R-OWN', f_, "a message handler does not close the connection's socket (`%s`)" % norm(c_)[:40],
                  "`%s` runs inside Connection.read(), which still returns True: OpenFlow_01_Task keeps the closed connection in the list it selects on, the next Select fails on file descriptor -1 "
                  "and the select hub's thread dies - one peer that fails the handshake (e.g. a barrier reply with a wrong xid) stops service for every connection; handlers use disconnect()" % norm(c_)[:40], (ofm_, c_), 'D2')
  ctx.floor('message handlers scanned for socket closes', n_h, 10)
  # ---- D3 switch containment ---------------------------------------------------------------------
  dr = q.find_method(repo, iow, '_do_recv', 'C10'); ctx.analysed(dr)
  g = q.cfg_of(dr)
  push = g.nodes_with_call(lambda c: call_name(c) == '_push_receive_data')
  ctx.floor('worker receive hand-off site', len(push), 1)
  for n in push:
    hs = g.handlers_for(n)
    ca = [h for h in hs if h.ast.type is None or norm(h.ast.type) in ('Exception', 'BaseException')]
    good = bool(ca) and not g.raises_out(n)
    ctx.ob('R-CONTAIN', dr, "an exception in one worker's receive path stays in that worker", good, "catch-all around _push_receive_data" if good else
           "the receive hand-off is only protected against %s: any other exception from a decoder (struct.error, IndexError, ...) reaches RecocoIOLoop.run, "
           "whose catch-all logs and breaks - ending IO for every worker" % [norm(h.ast.type) for h in hs if h.ast.type is not None], (dr.module, n.ast), 'D3')
    for h in ca:
      r = g.reachable(h, exc=False)
      cl = [x for x in r if any(call_name(c) == 'close' for c in q.node_calls(x))]
      dis = [x for x in r if any(call_name(c) == 'discard' for c in q.node_calls(x))]
      ctx.ob('R-CONTAIN', dr, "the failing worker is closed and dropped from the loop", bool(cl) and bool(dis), "close(); loop._workers.discard(self)" if cl and dis else "handler does not close/drop the worker", (dr.module, h.ast), 'D3')
  # the failure of the receive handler must actually reach that catch-all: between _do_recv's try and the handler no
  # frame may swallow it (a logged-and-ignored decode error leaves the bad bytes at the head of the buffer for good)
  prd = iow.find_method('_push_receive_data')
  if prd is not None:
    ctx.analysed(prd); gp = q.cfg_of(prd)
    direct = gp.nodes_with_call(lambda c: call_name(c) == '_handle_rx')
    wrapped = gp.nodes_with_call(lambda c: call_name(c) != '_handle_rx' and any(isinstance(a, ast.Attribute) and a.attr == '_handle_rx' for a in c.args))
    ctx.floor('receive handler invocation', len(direct) + len(wrapped), 1)
    for n in wrapped:
      c = [c for c in q.node_calls(n) if any(isinstance(a, ast.Attribute) and a.attr == '_handle_rx' for a in c.args)][0]
      callee = iow.module.funcs.get(call_name(c)) or iow.find_method(call_name(c))
      swallows = False
      if callee is not None:
        gc = q.cfg_of(callee)
        for h in [x for x in gc.nodes if x.kind == 'handler' and (x.ast.type is None or norm(x.ast.type) in ('Exception', 'BaseException'))]:
          rr = gc.reachable(h, exc=False)
          if not any(x.kind == 'raise_stmt' for x in rr): swallows = True
      ctx.ob('R-CONTAIN', prd, "a failing receive handler closes its worker (`%s`)" % norm(c)[:50], not swallows,
             "exception propagates" if not swallows else
             "the receive handler is invoked through %s, which catches and ignores every exception: _do_recv's catch-all (close + drop the worker) can no longer be reached, "
             "so a message whose decoder raises is neither skipped nor is the connection closed - the bad bytes stay at the head of the buffer" % call_name(c), (iow.module, c), 'D3')
    for n in direct:
      hs_ = [h for h in gp.handlers_for(n) if h.ast.type is None or norm(h.ast.type) in ('Exception', 'BaseException')]
      sw = [h for h in hs_ if not any(x.kind == 'raise_stmt' or any(call_name(c) == 'close' for c in q.node_calls(x)) for x in gp.reachable(h, exc=False))]
      ctx.ob('R-CONTAIN', prd, "a failing receive handler closes its worker", not sw, "no swallowing frame between the handler and _do_recv" if not sw else
             "_push_receive_data catches the handler's exception and neither re-raises nor closes: the connection is wedged on the bad message", (iow.module, n.ast), 'D3')
  # a closing worker leaves the loop's set at more than one place (the failing branch itself and the deferred close command): every
  # such removal has to tolerate that another one ran first, or the deferred command raises inside RecocoIOLoop.run and ends the loop
  iomod = iow.module
  rm_sites = []
  for fn_ in [f_ for c_ in iomod.classes.values() for f_ in c_.methods.values()] + list(iomod.funcs.values()):
    for c in calls_in(fn_.node, nested=True):
      if call_name(c) in ('remove', 'discard', 'pop') and isinstance(c.func, ast.Attribute) and norm(c.func.value).endswith('._workers'):
        rm_sites.append((fn_, c))
  ctx.floor('worker-set removal sites', len(rm_sites), 1)
  strict = [(f_, c) for f_, c in rm_sites if call_name(c) != 'discard']
  for f_, c in strict:
    others = [(f2, c2) for f2, c2 in rm_sites if c2 is not c]
    gf_ = None
    ctx.ob('R-SIB', f_, "removing a worker from the loop tolerates an earlier removal (`%s`)" % norm(c)[:50], not others,
           "only removal site" if not others else
           "`%s` raises KeyError when the worker is already gone, and %s also removes it (`%s`): after a failure in a receive handler the deferred close command raises inside RecocoIOLoop.run, "
           "whose catch-all logs and breaks - IO stops for every other connection" % (norm(c)[:50], others[0][0].qual, norm(others[0][1])[:50]), (iomod, c), 'D3')
  if not strict:
    ctx.ob('R-SIB', iow, "every removal from the loop's worker set is idempotent", True, "%d discard site(s)" % len(rm_sites), iow, 'D3')
  loop = repo.cls(IO, 'RecocoIOLoop'); lr = q.find_method(repo, loop, 'run', 'C10'); ctx.analysed(lr)
  g = q.cfg_of(lr)
  for n in g.nodes_with_call(lambda c: call_name(c) in ('_do_recv', '_do_send', '_do_exception')):
    c = [c for c in q.node_calls(n) if call_name(c) in ('_do_recv', '_do_send', '_do_exception')][0]
    ctx.ok('R-CONTAIN', lr, "IO loop dispatches `%s`" % norm(c), "callee contains its own failures (checked above for _do_recv)", (lr.module, c), 'D3')
  # error-handler outcomes in OFConnection.read: every _error_handler call is followed by `if r is False: break`
  f = repo.func('datapaths.switch:OFConnection.read'); L = framing.find_loop(repo, f); g = L.g
  ehs = g.nodes_with_call(lambda c: call_name(c) == '_error_handler')
  for n in ehs:
    rv = n.ast.targets[0].id if isinstance(n.ast, ast.Assign) and isinstance(n.ast.targets[0], ast.Name) else None
    brk = [b for b in g.nodes if b.kind == 'break' and rv and ('%s is False' % rv) in q.fact_strs(g, b) and b in g.reachable(n, avoid=[L.head])]
    if not brk:
      # by evaluation: with the error handler answering False (it closed the connection) no path from the call comes round to the loop head
      def hookF (call, env=None): return (True, False) if call_name(call) == '_error_handler' else (False, None)
      ps_ = q.paths_under(repo, f.module, g, q.Env({}, [], hookF), n, [L.head, L.after, g.exit], f.cls, limit=100, track_start=True)
      if ps_ and not any(p_[-1] is L.head for p_, e_ in ps_): brk = [n]
    ctx.ob('R-EFFECT', f, "`%s`: a handler that closed the connection stops the loop" % n.text(50), bool(brk), "leaves the loop when the handler returns False" if brk else "result of the error handler is ignored", (f.module, n.ast), 'D3')
    # ... and the dual: a handler that answered with an error and returns nothing ("carry on") must not stop the loop - with None for
    # its result some path from the call comes round to the loop head (the messages behind the bad one are still owed)
    def hookN (call, env=None): return (True, None) if call_name(call) == '_error_handler' else (False, None)
    psn_ = q.paths_under(repo, f.module, g, q.Env({}, [], hookN), n, [L.head, L.after, g.exit], f.cls, limit=100, track_start=True)
    if psn_ and len(psn_) < 100:
      fs_ = q.fact_strs(g, n)
      closes_ = any(call_name(c_) == 'close' for c_ in q.node_calls(n))
      carry = any(p_[-1] is L.head for p_, e_ in psn_)
      # (the bad-version path closes the connection inside the handler and always reports False - that is checked with the handler)
      eh_ = f.cls.find_method('_error_handler') if f.cls is not None else None
      always_false = False
      if eh_ is not None:
        c0_ = [c_ for c_ in q.node_calls(n) if call_name(c_) == '_error_handler']
        if c0_ and c0_[0].args:
          try:
            summ_ = framing.return_summary(repo, eh_, q.Env({eh_.params[1]: repo.try_const(f.module, c0_[0].args[0], f.cls)}))
            always_false = set(summ_) == {'False'}
          except Exception: always_false = False
      if not always_false:
        ctx.ob('R-EFFECT', f, "`%s`: a handler that asks to carry on (returns nothing) does not stop the loop" % n.text(50), carry, "reaches the loop head with the handler's result None" if carry else
               "with the error handler returning None (it has sent its error reply and wants processing to go on) no path from `%s` returns to the loop head: the loop is left with the offending message still at the head of the buffer - "
               "it is answered again on every arrival and nothing behind it is ever delivered" % n.text(40), (f.module, n.ast), 'D3')
  eh = ofc.find_method('_error_handler')
  if eh is not None:
    ctx.analysed(eh); g2 = q.cfg_of(eh)
    # closing implies returning False
    for n in g2.nodes_with_call(lambda c: call_name(c) == 'close'):
      rets = [r_ for r_ in g2.nodes if r_.kind == 'return' and isinstance(r_.ast.value, ast.Constant) and r_.ast.value.value is False]
      good = g2.postdominates(rets, n)
      ctx.ob('R-AGREE', eh, "after close() the error handler reports False (stop processing)", good, "return False follows close()" if good else "close() without `return False`: read() keeps looping on a closed connection", (eh.module, n.ast), 'D3')
  # ---- D4 consumed == declared ---------------------------------------------------------------------
  f = repo.func('openflow.of_01:Connection.read'); L = framing.find_loop(repo, f); g = L.g
  for a in L.advance:
    fs = q.fact_strs(g, a[0])
    good = any('== %s' % L.wlen in x or x.startswith('%s ==' % L.wlen) for x in fs) or (a[2] is not None and framing.advance_tied(L, g, a[0], norm(a[2])))
    ctx.ob('R-DOM', f, "decoded length is compared with the declared length before the cursor moves", good, "assert new_offset - offset == msg_length" if good else "facts %s" % fs, (f.module, a[0].ast), 'D4')
  f = repo.func('datapaths.switch:OFConnection.read'); L = framing.find_loop(repo, f); g = L.g
  chk = [n for n in g.nodes if n.kind == 'cond' and L.newoff and norm(n.ast) in ('%s != %s' % (L.newoff, L.wlen), '%s == %s' % (L.newoff, L.wlen))]
  good = bool(chk) and all(any(g.dominates(c, d[0]) for c in chk) for d in L.deliver)
  ctx.ob('R-DOM', f, "decoded length is compared with the declared length before delivery", good, "new_offset != message_length -> BAD_LENGTH" if good else "no consumed==declared test dominates delivery", f, 'D4')
  # every consume of a declared length is preceded by the test that this many bytes have arrived (also on the reject paths):
  # consuming ahead of arrival empties the buffer and the rest of that message is later read as a header
  for a in L.advance:
    if a[1] != 'consume' or a[2] is None or norm(a[2]) != L.wlen: continue
    good = framing.avail_ge_wlen(L, a[0])
    ctx.ob('R-DOM', f, "`%s` only when the whole message has arrived" % a[0].text(50), good, "dominated by available >= %s" % L.wlen if good else
           "this consume of the declared length is not dominated by a test that the bytes are there (facts %s): for a message whose body has not arrived yet the buffered part is dropped and the remainder, "
           "when it arrives, is framed as if it were a new message" % q.fact_strs(g, a[0]), (f.module, a[0].ast), 'D4')
  cr = iow.find_method('consume_receive_buf')
  if cr is not None:
    ctx.analysed(cr); gc_ = q.cfg_of(cr)
    # by evaluation on a 3-byte buffer: consuming 5 must not complete normally, consuming 2 leaves the last byte
    def consume (l_):
      avail = (lambda e: isinstance(e, ast.Attribute) and e.attr == 'available' and norm(e.value) == 'self')
      outs = set()
      from .c02 import _rx_attr
      RB, RBK, _pr = _rx_attr(iow)      # the attribute behind the receive_buf property, when the buffer is kept that way
      for p_, e_ in q.paths_under(repo, iow.module, gc_, q.Env({RB: RBK(b'abc'), cr.params[1]: l_}, [(avail, 3)]), gc_.entry, [gc_.exit], iow, limit=30):
        o_ = e_.exact.get(RB, '?'); outs.add(bytes(o_) if isinstance(o_, (bytes, bytearray)) else '?')
      return outs
    over, within = consume(5), consume(2)
    if '?' in over | within or not within:
      ctx.undecided('R-DOM', cr, "the receive buffer is never consumed beyond what it holds", "not evaluable on the sample buffer", cr, 'D4')
    else:
      good = not over and within == {b'c'}
      ctx.ob('R-DOM', cr, "the receive buffer is never consumed beyond what it holds", good, "consume(5) of a 3-byte buffer does not complete; consume(2) leaves 1 byte" if good else
             "consuming 5 bytes of a 3-byte buffer completes normally (buffer afterwards: %s; consume(2) leaves %s): a caller consuming a declared length ahead of arrival silently empties the buffer instead of failing (and closing that connection)"
             % (sorted(over), sorted(within)), cr, 'D4')
  ub = repo.cls(LOF, 'ofp_base').methods.get('unpack_new')
  if ub is not None:
    ctx.analysed(ub); g3 = q.cfg_of(ub)
    rets = [n for n in g3.nodes if n.kind == 'return']
    good = bool(rets) and all(any('== length' in x or 'length ==' in x for x in q.fact_strs(g3, r_)) for r_ in rets)
    ctx.ob('R-DOM', ub, "unpack_new asserts consumed == declared before returning", good, "assert (r - offset) == length", ub, 'D4')
  # message-level decoders that size a read by `length - K`: a declared length below K makes that size negative (the read
  # then moves the cursor *back*), so the returned offset can still equal the declared length although the fixed part was
  # taken from the bytes of the next message.  Such a decoder tests the declared length before it returns - the siblings'
  # `assert length == len(self)` or a lower bound on `length`
  n_sized = 0; seen_ = set()
  for r_ in ofreg.registrations(repo):
    if r_.kind != 'ofp_type': continue
    f_ = r_.cls.find_method('unpack')
    if f_ is None or f_ in seen_: continue
    seen_.add(f_)
    sized = [n_ for n_ in ast.walk(f_.node) if isinstance(n_, ast.BinOp) and isinstance(n_.op, ast.Sub) and q.mentions_name(n_.left, 'length')]
    if not sized: continue
    n_sized += 1; ctx.analysed(f_); g_ = q.cfg_of(f_)
    rets = [n_ for n_ in g_.nodes if n_.kind == 'return']
    def tested (n_):
      for x in q.fact_strs(g_, n_):
        if 'length' not in x.replace('len(', ''): continue
        if 'len(self)' in x and ('==' in x): return True
        if any(op in x for op in ('>=', '<=', '>', '<')) and 'len(' not in x.replace('len(self)', ''): return True
      return False
    good = bool(rets) and all(tested(n_) for n_ in rets)
    ctx.ob('R-SIB', f_, "a decoder that sizes a read by `%s` tests the declared length before returning" % norm(sized[0])[:40], good,
           "declared length compared with len(self) / bounded below on every return" if good else
           "`%s` is negative for a declared length below the fixed part, and no return of this decoder is preceded by a test of `length` (its siblings end in `assert length == len(self)`): "
           "a short message is decoded with fields taken from the following message's bytes and still passes the framing loop's consumed == declared test" % norm(sized[0])[:40], (f_.module, sized[0]), 'D4')
  ctx.floor('message decoders with length-derived read sizes', n_sized, 9)
  # decoders never size a read by the length of the buffer they are handed (it may hold further messages)
  uses_, nd_ = framing.buffer_length_uses(repo)
  ctx.floor('codec decoders scanned for buffer-length-sized reads', nd_, 60)
  for f_, x_, txt_ in uses_:
    ctx.bad('R-UNITS', f_, "the receive buffer's own length only guards reads, it never sizes one (`%s`)" % txt_[:50],
            "`%s` derives a read size / cursor from len(<buffer>): the decoder is handed the connection's whole receive buffer, so with a further message behind this one it takes that message's bytes as its own - "
            "decoding consumes beyond the declared length (and the consumed == declared test then rejects a well-formed stream)" % txt_, (f_.module, x_), 'D4')
  if not uses_: ctx.ok('R-UNITS', 'openflow.libopenflow_01', "the receive buffer's own length only guards reads, it never sizes one", "%d decoders: len(<buffer>) occurs in comparisons only" % nd_, None, 'D4')
  # ---- D5 bytes in error replies -----------------------------------------------------------------------
  if eh is not None:
    for t, v, st, k in q.stores_in(eh.node):
      if isinstance(t, ast.Attribute) and t.attr == 'data' and v is not None:
        is_str = isinstance(v, ast.Constant) and isinstance(v.value, str)
        ctx.ob('R-BYTES', eh, "error payload `%s` is bytes" % norm(st)[:50], not is_str, "not a str literal" if not is_str else
               "the error's data is a str: ofp_error.pack() concatenates it to bytes and raises TypeError - the error reply is never sent", (eh.module, st), 'D5')
    for nm, node in defs.undefined_names(repo, eh):
      ctx.bad('R-DEF', eh, "undefined name `%s`" % nm, "NameError while reporting a malformed message", (eh.module, node), 'D5')
  for qual in ('openflow.of_01:Connection.read', 'datapaths.switch:OFConnection.read', 'lib.ioworker:IOWorker._do_recv'):
    f = repo.func(qual)
    for nm, node in defs.undefined_names(repo, f):
      ctx.bad('R-DEF', f, "undefined name `%s`" % nm, "NameError on this path", (f.module, node), 'D5')
    for nm, node, path in defs.use_before_def(f):
      ctx.bad('R-DEF', f, "local `%s` used before assignment" % nm, "feasible path %s" % path, (f.module, node), 'D5')
  from . import c09 as c09s_
  c09s_.connection_str_total(ctx, repo, 'D2')
  # ---- mechanisms this property shares with others: their checks' rules about these functions are obligations here too
  ctx.include('C01', ['_unpack_nx_vendor'], "the vendor decode hook sits in the controller's unpacker table")
  ctx.include('C01', ['.unpack'], "the framing loops advance by what each decoder reports as consumed: it must be the declared length, from whatever position the message starts at")

def _sig (lines):
  return "#" + getattr(lines, 'sig', '?')
