"""C11 - L2 learning control loop (structural part).

 D1 R-EFFECT every path of _handle_PacketIn (closures inlined by summary) releases the packet-in's buffer:
             it sends a message carrying event.ofp / its buffer_id, or lies on the "no buffer id" branch
 D2 R-DOM    learning precedes every decision; forwarding only to a port different from the ingress port;
             nothing is flooded or installed for LLDP / bridge-filtered frames unless transparent
 D3 R-AGREE  flood uses OFPP_FLOOD with in_port = the ingress port; the installed match is built from the
             packet *and the ingress port* and outputs to the learned port
 D4 switch/codec side of buffer release: a flow-mod / packet-out that names a buffer always reaches the
    use-and-free routine; flow_mod.data / packet_out.data take buffer id and in_port from the packet-in
"""
import ast
from .. import q, defs, switchq
from ..model import AnalysisError, calls_in, call_name, norm, kwarg, walk_no_nested

EXPLAIN = ("R-EFFECT buffer release on all paths of the packet-in handler (closure summaries: flood/drop); R-DOM learning first, "
           "same-port and bridge-filter guards decided by path-sensitive reachability; R-AGREE flood/install message fields; "
           "must-pass analysis of the switch's flow-mod / packet-out buffer paths; R-AGREE data setters. Decides these necessary "
           "conditions, not equivalence with an ideal learning bridge over frame histories.")
L2 = 'forwarding.l2_learning'

def _carries_buffer (fnode, var, ev):
  """stores that give message variable `var` the event's packet-in / buffer id"""
  out = []
  for t, v, st, k in q.stores_in(fnode, nested=False):
    if isinstance(t, ast.Attribute) and norm(t.value) == var and v is not None:
      if t.attr == 'data' and norm(v) == ev + '.ofp': out.append(st)
      if t.attr == 'buffer_id' and norm(v) == ev + '.ofp.buffer_id': out.append(st)
  return out

def _releasing_sends (fnode, g, ev):
  out = []
  for n in g.nodes_with_call(lambda c: call_name(c) == 'send' and norm(c.func.value).endswith('connection')):
    c = [c for c in q.node_calls(n) if call_name(c) == 'send'][0]
    if not c.args or not isinstance(c.args[0], ast.Name): continue
    for st in _carries_buffer(fnode, c.args[0].id, ev):
      sn = q.enclosing_stmt_node(g, st)
      if sn is not None and g.dominates(sn, n):
        out.append(n); break
  return out

def run (ctx):
  ctx.explanation = EXPLAIN
  ctx.assumptions = ["event.ofp is the packet-in; connection.send transmits the message it is given"]
  repo = ctx.repo
  ls = repo.cls(L2, 'LearningSwitch'); mod = ls.module
  h = q.find_method(repo, ls, '_handle_PacketIn', 'C11'); ctx.analysed(h)
  ev = h.params[1]
  q.inline_attr_copies(h.node, set(h.params), keep=('packet',))      # `in_port = event.port`, `table = self.macToPort`: the rules speak of the attributes
  g = q.cfg_of(h)
  nested = q.nested_defs(h.node)
  # ---- closure summaries ----------------------------------------------------------------
  releasing = {}
  NOBUF = q.Env({ev + '.ofp.buffer_id is not None': True, ev + '.ofp.buffer_id is None': False})
  for name, fn in nested.items():
    cg = q.cfg_of(fn)
    rs = _releasing_sends(fn, cg, ev)
    holds, r = q.must_pass_under(repo, mod, cg, NOBUF, rs, ls)
    releasing[name] = (holds, rs, cg, fn)
    ctx.ob('R-EFFECT', h.qual + '.' + name, "closure `%s` releases the buffer on every path (when there is one)" % name, holds,
           "every path sends a message carrying the packet-in / its buffer id" if holds else
           "some path of `%s` returns without sending a message that carries event.ofp or its buffer_id: the switch keeps the buffered packet forever" % name, (mod, fn), 'D1')
  ctx.floor('packet-in closures', len(nested), 2)
  # ---- D1 main function --------------------------------------------------------------------
  rel_nodes = _releasing_sends(h.node, g, ev)
  for name, (holds, rs, cg, fn) in releasing.items():
    if holds:
      rel_nodes += g.nodes_with_call(lambda c, name=name: isinstance(c.func, ast.Name) and c.func.id == name)
  rets = [n for n in g.nodes if n.kind == 'return'] + [g.exit]
  holds, r = q.must_pass_under(repo, mod, g, q.Env(), rel_nodes, ls)
  exits = len([n for n in g.nodes if n.kind == 'return']) + 1
  ctx.floor('exits of _handle_PacketIn', exits, 3)
  ctx.ob('R-EFFECT', h, "every path of the packet-in handler releases the switch's buffer", holds,
         "all %d exits are preceded by a releasing send / closure call" % exits if holds else
         "a path from entry to return sends nothing that carries the packet-in's buffer: buffers leak one per such frame", h, 'D1')
  # ---- D2 ----------------------------------------------------------------------------------
  learn = [q.enclosing_stmt_node(g, st) for t, v, st, k in q.stores_in(h.node, nested=False) if isinstance(t, ast.Subscript) and norm(t.value) == 'self.macToPort']
  good = len(learn) == 1
  if good:
    st = learn[0].ast
    good = norm(st.targets[0].slice) == 'packet.src' and norm(st.value) == ev + '.port'
  ctx.ob('R-AGREE', h, "the source address is learned on the ingress port", good, norm(learn[0].ast) if learn else "no learning store", h, 'D2')
  decisions = [n for n in g.nodes if n.kind == 'cond' or any(call_name(c) in ('send',) or (isinstance(c.func, ast.Name) and c.func.id in nested) for c in q.node_calls(n))]
  if learn:
    late = [n for n in decisions if not g.dominates(learn[0], n)]
    ctx.ob('R-ORDER', h, "learning happens before any forwarding decision", not late, "learning store dominates every branch and send" if not late else
           "`%s` (line %s) is reached before the source address is learned" % (late[0].text(40), late[0].line), h, 'D2')
  inst = [n for n in g.nodes_with_call(lambda c: call_name(c) == 'send' and norm(c.func.value).endswith('connection'))]
  ctx.floor('flow-install send', len(inst), 1)
  for n in inst:
    fs = q.fact_strs(g, n)
    good = ('port != %s.port' % ev) in fs or ('%s.port != port' % ev) in fs or ('self.macToPort[packet.dst] != %s.port' % ev) in fs or ('%s.port != self.macToPort[packet.dst]' % ev) in fs
    ctx.ob('R-DOM', h, "a flow is installed / the frame forwarded only to a port other than the ingress port", good, "dominated by port != event.port" if good else
           "the install+forward send is not guarded by `port != event.port` (facts %s): a frame can be sent back out its ingress port" % fs, (mod, n.ast), 'D2')
    good = any('in self.macToPort' in f and 'not in' not in f for f in fs)
    if not good:
      # or: the port was fetched with .get() and tested against None
      gets = [(t, v) for t, v, st_, k in q.stores_in(h.node, nested=False) if isinstance(t, ast.Name) and isinstance(v, ast.Call) and call_name(v) == 'get'
              and isinstance(v.func, ast.Attribute) and norm(v.func.value) == 'self.macToPort' and len(v.args) == 1]
      for t, v in gets:
        if len(q.reaching_assign(h.node, t.id)) == 1 and ('%s is not None' % t.id) in fs: good = True
      if not good and gets: good = None
    ctx.ob('R-DOM', h, "forwarding only to a learned address", good, "dominated by dst in macToPort (or by a .get() result that is not None)" if good else
           "the install+forward send is not guarded by a test that the destination was learned (facts %s)" % fs, (mod, n.ast), 'D2')
  floods = g.nodes_with_call(lambda c: isinstance(c.func, ast.Name) and c.func.id == 'flood')
  drops = g.nodes_with_call(lambda c: isinstance(c.func, ast.Name) and c.func.id == 'drop')
  lldp = lambda e: isinstance(e, ast.Compare) and 'LLDP_TYPE' in norm(e)
  bf = lambda e: isinstance(e, ast.Call) and call_name(e) == 'isBridgeFiltered'
  for what, ms in (("LLDP", [(lldp, True), (bf, False)]), ("bridge-filtered (01:80:c2:00:00:0x)", [(lldp, False), (bf, True)])):
    r = q.reach_under(repo, mod, g, q.Env({'self.transparent': False}, ms), ls)
    leaked = [n for n in floods + inst if n in r]
    ctx.ob('R-DOM', h, "%s frames are neither flooded nor given a flow (non-transparent mode)" % what, not leaked and any(d in r for d in drops),
           "only drop() reachable" if not leaked else "`%s` reachable for a %s frame" % (leaked[0].text(40), what), h, 'D2')
  # what `is_bridge_filtered` means: exactly 01:80:c2:00:00:00 .. 0f (IEEE 802.1D reserved block) - evaluated on sample addresses
  ea = repo.cls('lib.addresses', 'EthAddr')
  ibf = ea.methods.get('isBridgeFiltered') if ea is not None else None
  if ibf is not None:
    ctx.analysed(ibf); bg = q.cfg_of(ibf); amod = ea.module
    wrong = []; unknown = 0; n_s = 0
    samples = [(bytes([1, 0x80, 0xc2, 0, 0, x]), x <= 0x0f) for x in (0, 1, 2, 0x0e, 0x0f, 0x10, 0x20, 0xff)] + \
              [(bytes([1, 0x80, 0xc2, 0, 1, 0]), False), (bytes([1, 0x80, 0xc3, 0, 0, 0]), False), (bytes([0, 0x80, 0xc2, 0, 0, 0]), False), (b'\xff' * 6, False), (bytes([1, 0, 0x5e, 0, 0, 1]), False)]
    for val, want in samples:
      res = set()
      for p_, e_ in q.paths_under(repo, amod, bg, q.Env({'self._value': val}), bg.entry, [n for n in bg.nodes if n.kind == 'return'], ea, limit=30):
        try: res.add(bool(q.eval_env2(repo, amod, p_[-1].ast.value, e_, ea)))
        except Exception: res.add('?')
      n_s += 1
      if len(res) != 1 or '?' in res: unknown += 1
      elif res != {want}: wrong.append((':'.join('%02x' % b for b in val), want))
    if unknown:
      ctx.undecided('R-AGREE', ibf, "bridge-filtered means 01:80:c2:00:00:00-0f", "not evaluable for %d of %d sample addresses" % (unknown, n_s), ibf, 'D2')
    else:
      ctx.ob('R-AGREE', ibf, "bridge-filtered means 01:80:c2:00:00:00-0f", not wrong, "%d sample addresses classified as IEEE 802.1D says" % n_s if not wrong else
             "%s is classified as %sbridge-filtered: %s" % (wrong[0][0], "not " if wrong[0][1] else "", "such link-local frames are flooded / get flows installed by the learning switch" if wrong[0][1] else "ordinary traffic to it is dropped"), ibf, 'D2')
  r = q.reach_under(repo, mod, g, q.Env({'self.transparent': False, 'packet.dst.is_multicast': True}, [(lldp, False), (bf, False)]), ls)
  ctx.ob('R-DOM', h, "multicast / broadcast destinations are flooded", any(n in r for n in floods) and not any(n in r for n in inst), "flood reachable, install unreachable", h, 'D2')
  # by value: the address table is a real (empty) dict, so `dst not in table`, `table.get(dst) is None` and the like all decide
  r = q.reach_under_cp(repo, mod, g, q.Env({'self.transparent': False, 'packet.dst.is_multicast': False, 'packet.dst not in self.macToPort': True, 'packet.dst in self.macToPort': False,
                                            'packet.src': 'S', 'packet.dst': 'D', ev + '.port': 1, 'self.macToPort': {}}, [(lldp, False), (bf, False)]), ls,
                        start=learn[0] if len(learn) == 1 and g.dominates(learn[0], g.exit) else None)
  fl_ok = any(n in r for n in floods); in_no = not any(n in r for n in inst)
  ctx.ob('R-DOM', h, "unknown unicast destinations are flooded", (fl_ok and in_no) if (fl_ok or not in_no) else None, "flood reachable, install unreachable" if fl_ok and in_no else
         "with an empty address table: flood reachable %s, install reachable %s" % (fl_ok, not in_no), h, 'D2')
  # the address table only learns: nothing forgets an address (no ageing in this bridge) - a forgotten address is flooded to ports where
  # it was never seen although it had been seen as a source
  n_forget = 0
  for f_ in ls.methods.values():
    for kind_, site_ in q.mutations_of_attr(f_.node, 'macToPort'):
      shrink = (isinstance(site_, ast.Call) and call_name(site_) in ('pop', 'popitem', 'clear')) or isinstance(site_, ast.Delete) or \
               (kind_ == 'rebind' and f_.name != '__init__')
      n_forget += 1
      if shrink:
        ctx.bad('R-OWN', f_, "the address table only learns", "`%s` removes learned addresses: a frame to an address that was seen as a source is then flooded to ports where it was never seen" % norm(site_)[:70], (mod, site_), 'D2')
  if n_forget: ctx.ok('R-OWN', ls.qual, "the address table only learns", "%d writer(s) of macToPort examined" % n_forget, ls, 'D2')
  # ---- D3 message fields ------------------------------------------------------------------------
  fl = nested.get('flood')
  if fl is not None:
    mv_ = 'msg'       # the packet-out under construction, whatever the local is called
    for t, v, s_, k in q.stores_in(fl, nested=False):
      if isinstance(t, ast.Name) and isinstance(v, ast.Call) and call_name(v) == 'ofp_packet_out': mv_ = t.id
    st = dict((t.attr, norm(v)) for t, v, s_, k in q.stores_in(fl, nested=False) if isinstance(t, ast.Attribute) and norm(t.value) == mv_ and v is not None)
    ctx.ob('R-AGREE', h.qual + '.flood', "flood packet-out names the ingress port", st.get('in_port') == ev + '.port', "msg.in_port = %s" % st.get('in_port') if st.get('in_port') else
           "flood does not set in_port: the switch cannot exclude the ingress port and the frame is echoed back", (mod, fl), 'D3')
    outs = [c for c in calls_in(fl) if call_name(c) == 'ofp_action_output']
    good = len(outs) == 1 and norm(kwarg(outs[0], 'port', 0)) == 'of.OFPP_FLOOD'
    ctx.ob('R-AGREE', h.qual + '.flood', "flood outputs to OFPP_FLOOD", good, norm(outs[0]) if outs else "no output action", (mod, fl), 'D3')
  mvar = None
  for n in inst:
    c = [c for c in q.node_calls(n) if call_name(c) == 'send'][0]
    mvar = norm(c.args[0])
  if mvar:
    sts = dict((t.attr, v) for t, v, s_, k in q.stores_in(h.node, nested=False) if isinstance(t, ast.Attribute) and norm(t.value) == mvar and v is not None)
    m = sts.get('match')
    good = m is not None and isinstance(m, ast.Call) and call_name(m) == 'from_packet' and len(m.args) >= 2 and norm(m.args[0]) == 'packet' and norm(m.args[1]) == ev + '.port'
    ctx.ob('R-AGREE', h, "the installed flow matches the frame's headers on its ingress port", good, norm(m) if good else
           "the installed match is `%s`: without the ingress port the flow also catches the same addresses arriving on another port, so a host that moved is never re-learned" % norm(m), h, 'D3')
    outs = [c for c in calls_in(h.node) if call_name(c) == 'ofp_action_output']
    pd = q.single_def(h.node, 'port')
    good = len(outs) == 1 and norm(kwarg(outs[0], 'port', 0)) == 'port' and pd is not None and norm(pd) == 'self.macToPort[packet.dst]'
    why = "port = %s; %s" % (norm(pd), norm(outs[0]) if outs else '?')
    if not good and len(outs) == 1 and len(learn) == 1:
      # by value: destination D learned on port 7, frame from S arrives on port 1
      got = []
      def on_node (n_, env_):
        for c_ in q.node_calls(n_):
          if c_ is outs[0]:
            try: got.append(q.eval_env2(repo, mod, kwarg(c_, 'port', 0), env_, ls))
            except Exception: got.append('?')
      q.paths_under(repo, mod, g, q.Env({'self.transparent': False, 'packet.dst.is_multicast': False, 'packet.src': 'S', 'packet.dst': 'D', ev + '.port': 1, 'self.macToPort': {'D': 7}},
                                        [(lldp, False), (bf, False)]), learn[0], inst, ls, on_node=on_node)
      if got and all(x == 7 for x in got): good = True; why = "with D learned on port 7 the output action names port 7"
      elif not got or '?' in got or any(x is q.OPAQUE for x in got): good = None; why = "output port not evaluable (%s)" % why
      else: why = "with D learned on port 7 the output action names port %r" % (got[0],)
    ctx.ob('R-AGREE', h, "the installed flow outputs to the port learned for the destination", good, why, h, 'D3')
    for tname in ('idle_timeout', 'hard_timeout'):
      v = sts.get(tname); k = q.try_int(v) if v is not None else None
      if k is None and v is not None:
        k = repo.try_const(mod, v, h.cls)
        if not isinstance(k, int): k = None
      ctx.ob('R-AGREE', h, "installed flows expire (%s)" % tname, k is not None and k > 0, "%s = %s" % (tname, k), h, 'D3')
  # ---- D4 switch / codec side ----------------------------------------------------------------------
  sw = switchq.switch_class(repo); swmod = sw.module
  rfm = q.find_method(repo, sw, '_rx_flow_mod', 'C11'); ctx.analysed(rfm)
  g2 = q.cfg_of(rfm); o = rfm.params[1]
  rel = g2.nodes_with_call(lambda c: call_name(c) == '_process_actions_for_packet_from_buffer')
  hc = g2.nodes_with_call(lambda c: isinstance(c.func, ast.Name) and c.func.id == 'handler')
  if hc:
    holds, r = q.must_pass_under(repo, swmod, g2, q.Env({o + '.buffer_id is not None': True, o + '.buffer_id is None': False, 'handler is None': False}), rel, sw, start=hc[0])
    ctx.ob('R-EFFECT', rfm, "a flow-mod that names a buffer always uses (and frees) it", holds, "buffer routine on every path after the command handler" if holds else
           "with buffer_id set there is a path past the command handler that skips _process_actions_for_packet_from_buffer (e.g. an extra condition such as 'has actions'): "
           "a drop flow-mod carrying the buffer id leaks the slot", rfm, 'D4')
  for n in rel:
    c = [c for c in q.node_calls(n) if call_name(c) == '_process_actions_for_packet_from_buffer'][0]
    ctx.ob('R-AGREE', rfm, "the buffer is processed with the flow-mod's actions and buffer id", norm(c.args[0]) == o + '.actions' and norm(c.args[1]) == o + '.buffer_id', norm(c)[:80], (swmod, c), 'D4')
  rpo = q.find_method(repo, sw, '_rx_packet_out', 'C11'); ctx.analysed(rpo)
  g3 = q.cfg_of(rpo); p = rpo.params[1]
  rel = g3.nodes_with_call(lambda c: call_name(c) == '_process_actions_for_packet_from_buffer')
  holds, r = q.must_pass_under(repo, swmod, g3, q.Env({p + '.data': b'', p + '.buffer_id is not None': True, p + '.buffer_id is None': False}), rel, sw)
  ctx.ob('R-EFFECT', rpo, "a packet-out that names a buffer (and carries no data) always uses it", holds, "buffer routine on every path" if holds else "a buffered packet-out can be ignored", rpo, 'D4')
  LOF = 'openflow.libopenflow_01'
  fm = repo.cls(LOF, 'ofp_flow_mod'); pk = q.find_method(repo, fm, 'pack', 'C11'); ctx.analysed(pk)
  g4 = q.cfg_of(pk)
  # decided by evaluating pack() under four scenarios: which value reaches the buffer-id slot, and is the extra
  # packet-out (for unbuffered data) built
  NOBUF = repo.try_const(repo.mod(LOF), ast.Name(id='NO_BUFFER', ctx=ast.Load()), fm)
  def scenario (buffer_id, data):
    ex = {'self.buffer_id': buffer_id}
    ms = []
    if data is None:
      ex['self.data'] = None
    else:
      dbuf, complete = data
      ex['self.data'] = '<packet-in>'; ex['self.data.buffer_id'] = dbuf; ex['self.data.is_complete'] = complete; ex['self.data.in_port'] = 3
      ms.append(((lambda e: isinstance(e, ast.Call) and call_name(e) == 'isinstance'), True))
    ms.append(((lambda e: isinstance(e, ast.Call) and call_name(e) == '_assert'), True))
    return q.Env(ex, ms)
  packs = []
  for n in g4.nodes:
    for c in q.node_calls(n):
      if call_name(c) == 'pack' and norm(c.func.value) == 'struct' and len(c.args) > 1: packs.append((n, c))
  def slot_values (env):
    out = {}
    for n, c in packs:
      for i, a_ in enumerate(c.args[1:]):
        out[(id(c), i)] = q.values_at(repo, repo.mod(LOF), g4, env, n, a_, fm)
    return out
  def po_built (env):
    r = q.reach_under_cp(repo, repo.mod(LOF), g4, env, fm)
    return any(any(call_name(c) == 'ofp_packet_out' for c in q.node_calls(n)) for n in r)
  S_own = slot_values(scenario(55, None)); S_none = slot_values(scenario(None, None))
  S_buf = slot_values(scenario(None, (77, True))); S_unbuf = slot_values(scenario(None, (None, True)))
  slot = [k_ for k_, v_ in S_own.items() if v_ == {55}]
  ctx.floor('flow_mod.pack: buffer-id slot identified', len(slot), 1)
  if slot:
    k_ = slot[0]
    ctx.ob('R-AGREE', pk, "a flow-mod's own buffer id is what goes on the wire", True, "buffer_id=55, no data -> slot 55", pk, 'D4')
    ctx.ob('R-AGREE', pk, "no buffer and no data is encoded as NO_BUFFER", S_none[k_] == {NOBUF}, "slot %s" % sorted(map(str, S_none[k_])), pk, 'D4')
    good = S_buf[k_] == {77}
    ctx.ob('R-AGREE', pk, "a flow-mod given a buffered packet-in reuses its buffer id", good, "data.buffer_id=77 -> slot 77" if good else
           "with data = packet-in(buffer_id=77) the buffer-id slot carries %s: the switch never releases buffer 77" % sorted(map(str, S_buf[k_])), pk, 'D4')
    good = S_unbuf[k_] == {NOBUF} and po_built(scenario(None, (None, True))) and not po_built(scenario(None, (77, True))) and not po_built(scenario(55, None))
    ctx.ob('R-DOM', pk, "an extra packet-out is generated only for complete, unbuffered packet-in data", good,
           "unbuffered complete data -> NO_BUFFER + packet-out; buffered data / no data -> no packet-out" if good else
           "unbuffered data: slot %s, packet-out built: %s; buffered data builds packet-out: %s" % (sorted(map(str, S_unbuf[k_])), po_built(scenario(None, (None, True))), po_built(scenario(None, (77, True)))), pk, 'D4')
  elif packs:
    ctx.bad('R-AGREE', pk, "a flow-mod's own buffer id is what goes on the wire", "with buffer_id=55 and no data no struct.pack argument evaluates to 55 (values: %s): an explicitly set buffer id is lost, the switch never releases that buffer" % sorted(set(str(sorted(map(str, v_))) for v_ in S_own.values()))[:6], pk, 'D4')
  po = [q.enclosing_stmt_node(g4, s_) for t, v, s_, k in q.stores_in(pk.node) if isinstance(t, ast.Name) and isinstance(v, ast.Call) and call_name(v) == 'ofp_packet_out']
  if po:
    pov = [t.id for t, v, s_, k in q.stores_in(pk.node) if isinstance(t, ast.Name) and isinstance(v, ast.Call) and call_name(v) == 'ofp_packet_out'][0]
    sts = dict((t.attr, norm(v)) for t, v, s_, k in q.stores_in(pk.node) if isinstance(t, ast.Attribute) and norm(t.value) == pov and v is not None)
    ctx.ob('R-AGREE', pk, "the generated packet-out keeps the packet-in's ingress port", sts.get('in_port', '').endswith('.in_port') and 'data' in sts.get('in_port', ''), "%s.in_port = %s" % (pov, sts.get('in_port')), pk, 'D4')
    outs = [c for c in calls_in(pk.node) if call_name(c) == 'ofp_action_output']
    ctx.ob('R-AGREE', pk, "the generated packet-out goes through the flow table", bool(outs) and norm(kwarg(outs[0], 'port', 0)) == 'OFPP_TABLE', norm(outs[0]) if outs else "?", pk, 'D4')
    bar = g4.nodes_with_call(lambda c: call_name(c) == 'ofp_barrier_request'); pp = []
    for n_ in g4.nodes:
      for c_ in q.node_calls(n_):
        if call_name(c_) == 'pack' and isinstance(c_.func.value, ast.Name) and c_.func.value.id != 'struct':
          nm_ = c_.func.value.id
          if nm_ == pov or any(f_.startswith(nm_ + ':truthy') or f_.startswith(nm_ + ' is not None') for f_ in q.fact_strs(g4, n_)): pp.append(n_)
    ctx.ob('R-ORDER', pk, "barrier precedes the generated packet-out (the flow is installed first)", bool(bar) and bool(pp) and g4.dominates(bar[0], pp[0]), "barrier then packet-out", pk, 'D4')
  # the packet-in the controller works from must be complete unless it is buffered (shared with C18: a truncated, unbuffered
  # packet-in makes packet_out.data assert and flow_mod.pack skip the forward - the frame is delivered nowhere)
  from . import c18
  spi = q.find_method(repo, sw, 'send_packet_in', 'C11 packet-in'); ctx.analysed(spi)
  c18.packet_in_rules(ctx, repo, spi)
  # 'no buffer' is None all the way: the packet-in sender truncates whenever it is handed anything else
  alloc_ = q.find_method(repo, sw, '_buffer_packet', 'C11 allocator'); ctx.analysed(alloc_)
  c18.allocator_samples(ctx, repo, sw, alloc_, q.cfg_of(alloc_), 'D4')
  pout = repo.cls(LOF, 'ofp_packet_out')
  ds = [f for f in pout.node.body if isinstance(f, ast.FunctionDef) and f.name == 'data' and any(isinstance(d, ast.Attribute) and d.attr == 'setter' for d in f.decorator_list)]
  if ds:
    d = ds[0]; gg = q.cfg_of(d); dv = d.args.args[1].arg
    sts = [(norm(t), norm(v), s_) for t, v, s_, k in q.stores_in(d) if v is not None]
    good = ('self.buffer_id', dv + '.buffer_id') in [(a, b) for a, b, c in sts] and ('self.in_port', dv + '.in_port') in [(a, b) for a, b, c in sts]
    ctx.ob('R-AGREE', pout.qual + '.data', "packet_out.data = <packet-in> takes over buffer id and ingress port", good, "buffer_id, in_port copied" if good else "setter stores %s" % [(a, b) for a, b, c in sts], (pout.module, d), 'D4')
    raw = [c for a, b, c in sts if a == 'self._data' and b == dv + '._data']
    # by value: the setter run on a buffered and on an unbuffered packet-in
    decided = {}
    for bid in (5, None):
      ex = {'isinstance(%s, bytes)' % dv: False, 'isinstance(%s, ofp_packet_in)' % dv: True, 'isinstance(%s, packet_base)' % dv: False, '%s is None' % dv: False, '%s is not None' % dv: True,
            dv + '.buffer_id': bid, dv + '._data': b'FRAME', dv + '.data': b'FRAME', dv + '.is_complete': True, dv + '.in_port': 3, 'self._data': b'old', 'self.buffer_id': 99}
      ends = q.paths_under(repo, pout.module, gg, q.Env(ex), gg.entry, [gg.exit], pout, limit=40)
      vals = set()
      for p_, e_ in ends:
        v_ = e_.exact.get('self._data', '?')
        vals.add(v_ if isinstance(v_, bytes) else '?')
      decided[bid] = vals
    if decided[5] and decided[None] and '?' not in decided[5] and '?' not in decided[None]:
      good = decided[5] == {b''} and decided[None] == {b'FRAME'}
      ctx.ob('R-DOM', pout.qual + '.data', "raw bytes are copied only when the packet-in is unbuffered", good, "setter evaluated on a buffered and an unbuffered packet-in" if good else
             "packet_out.data = <packet-in>: a buffered packet-in leaves data %r (want b''), an unbuffered one %r (want its frame): the switch would emit the wrong bytes" % (sorted(decided[5]), sorted(decided[None])), (pout.module, d), 'D4')
    elif raw:
      fs = q.fact_strs(gg, q.enclosing_stmt_node(gg, raw[0]))
      good = 'self.buffer_id is None' in fs or (dv + '.buffer_id is None') in fs
      ctx.ob('R-DOM', pout.qual + '.data', "raw bytes are copied only when the packet-in is unbuffered", good, "under buffer_id is None" if good else "the packet-in's bytes are copied although it is buffered (facts %s): the switch would emit the data instead of the buffered packet" % fs, (pout.module, d), 'D4')
    # a buffered packet-in carries only the first miss_send_len bytes: what is_complete says for it, put into the two consumers
    # (packet_out.data = <packet-in>, flow_mod.pack with data), must still let the buffer id through
    pin_c = repo.cls(LOF, 'ofp_packet_in')
    ic = [f_ for f_ in pin_c.node.body if isinstance(f_, ast.FunctionDef) and f_.name == 'is_complete'] if pin_c is not None else []
    comp_vals = set()
    if ic:
      ig = q.cfg_of(ic[0])
      envc = q.Env({'self.buffer_id': 7, 'self.total_len': 100, 'len(self.data)': 10, 'len(self._data)': 10})
      for p_, e_ in q.paths_under(repo, repo.mod(LOF), ig, envc, ig.entry, [n for n in ig.nodes if n.kind == 'return'], pin_c, limit=30):
        try: comp_vals.add(bool(q.eval_env2(repo, repo.mod(LOF), p_[-1].ast.value, e_, pin_c)))
        except Exception: comp_vals.add('?')
    if not comp_vals or '?' in comp_vals:
      ctx.undecided('R-AGREE', pout.qual + '.data', "a truncated but buffered packet-in can be resent", "ofp_packet_in.is_complete not evaluable", (pout.module, d), 'D4')
    else:
      for cv in sorted(comp_vals):
        ms_ = [((lambda e: isinstance(e, ast.Call) and call_name(e) == 'isinstance' and len(e.args) == 2 and 'ofp_packet_in' in norm(e.args[1])), True),
               ((lambda e: isinstance(e, ast.Call) and call_name(e) == 'isinstance'), False),
               ((lambda e: isinstance(e, ast.Call) and call_name(e) in ('assert_type', '_assert')), True)]
        env_ = q.Env({dv: '<packet-in>', dv + '.buffer_id': 7, dv + '.is_complete': cv, dv + '.in_port': 3}, ms_)
        done_ = q.paths_under(repo, pout.module, gg, env_, gg.entry, [gg.exit], pout, limit=30)
        okp = [1 for p_, e_ in done_ if e_.exact.get('self.buffer_id') == 7]
        ctx.ob('R-AGREE', pout.qual + '.data', "a truncated but buffered packet-in can be resent (is_complete = %s)" % cv, bool(okp),
               "setter completes with buffer_id 7" if okp else
               "for a packet-in with buffer_id 7 that holds only part of the frame is_complete is %s, and with that `packet_out.data = <packet-in>` %s: the learning switch's handler fails on every "
               "buffered packet-in, the frame is not forwarded and the switch buffer is never released" % (cv, "does not finish normally (assertion)" if not done_ else "does not take over the buffer id"), (pout.module, d), 'D4')
        if slot:
          sb = slot_values(scenario(None, (77, cv)))
          ctx.ob('R-AGREE', pk, "a flow-mod given a buffered, truncated packet-in reuses its buffer id (is_complete = %s)" % cv, sb[slot[0]] == {77}, "slot 77" if sb[slot[0]] == {77} else
                 "with data = packet-in(buffer_id=77, is_complete=%s) the buffer-id slot carries %s: buffer 77 is never released" % (cv, sorted(map(str, sb[slot[0]]))), pk, 'D4')
  else:
    ctx.undecided('R-AGREE', pout.qual, "packet_out.data setter", "setter not found", pout, 'D4')
  for nm, node in defs.undefined_names(repo, h):
    ctx.bad('R-DEF', h, "undefined name `%s`" % nm, "NameError in the packet-in handler", (mod, node), 'D1')
  # ---- mechanisms this property shares with others: their checks' rules about these functions are obligations here too
  ctx.include('C09', ['Connection.read'], "packet-ins reach the learning switch through the connection's read loop and handler table")
  ctx.include('C13', ['_rx_flow_mod', 'ofp_flow_mod.show', 'ofp_match.show'], "the controller's flow-mods are carried out by the switch's flow-mod handler")
  ctx.include('C12', ['SoftwareSwitchBase.rx_packet'], "what the controller learns from is what the switch accepts: the receive rules (a frame dropped on ingress is never seen as a source)")
  ctx.include('C18', ['_process_actions_for_packet_from_buffer', '_buffer_packet'], "buffered packets are released through the switch's use-and-free routine")
  # every switch that comes up is served over the connection it came up on: the learning switch sends through `self.connection`, so
  # an object kept from an earlier connection of the same datapath and merely re-subscribed keeps answering into the dead connection
  n_up = 0
  sends_via_self = any(isinstance(c_.func, ast.Attribute) and c_.func.attr == 'send' and norm(c_.func.value) == 'self.connection' for f_ in ls.methods.values() for c_ in calls_in(f_.node, nested=True))
  for c_ in mod.classes.values():
    for f_ in c_.methods.values():
      if 'ConnectionUp' not in f_.name or len(f_.params) < 2: continue
      n_up += 1; ctx.analysed(f_)
      evn = f_.params[1]
      for cl_ in calls_in(f_.node):
        if not (call_name(cl_) in ('addListeners', 'addListener', 'listenTo') and isinstance(cl_.func, ast.Attribute) and norm(cl_.func.value) == evn + '.connection' and cl_.args and isinstance(cl_.args[0], ast.Name)): continue
        obj = cl_.args[0].id
        rebound = any(isinstance(t_, ast.Attribute) and t_.attr == 'connection' and norm(t_.value) == obj and v_ is not None and norm(v_) == evn + '.connection' for t_, v_, st_, k_ in q.stores_in(f_.node))
        good = rebound or not sends_via_self
        ctx.ob('R-AGREE', f_, "a learning switch re-attached to a new connection also sends over it (`%s`)" % norm(cl_), good, "`.connection` re-bound" if good else
               "`%s` is subscribed to the new connection's events but its `.connection` still refers to the connection it was created with: after the datapath reconnects every flow-mod and packet-out goes into the closed "
               "connection - nothing is forwarded or flooded and every buffered packet-in stays allocated" % obj, (mod, cl_), 'D1')
  ctx.floor('connection-up handlers of the learning component', n_up, 1)
