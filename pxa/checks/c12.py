"""C12 - datapath applies actions and port rules as the specification prescribes
(structural part).

 D1 R-REG    each of the 12 standard actions has an _action_<name>; every attribute read on the
             action is a field of the class registered for that code; handlers return the packet
 D2 R-DOM    physical emission and both tx counters only when: not the ingress port (unless
             IN_PORT), port exists, not NO_FWD, not PORT_DOWN, not LINK_DOWN - decided by
             path-sensitive reachability under each blocking condition; counters and emission
             on exactly the same paths
 D3 R-DOM    receive: NO_RECV / NO_RECV_STP / fragment-drop dominate counters and lookup for
             all 8 combinations of the two bits and STP-ness; rx counters once per accepted frame;
             NO_PACKET_IN honoured
 D4 R-DOM    port-mod: unknown port / wrong hw_addr -> right PORT_MOD_FAILED code, no config change
 D5 R-ORDER  VLAN tag push reads the frame type / payload before overwriting them (both handlers)
 D6 R-AGREE  action -> header field table
 D7 R-REG    virtual ports: arms for IN_PORT, TABLE, FLOOD, ALL, CONTROLLER and physical;
             flood/all skip only the ingress port (and NO_FLOOD for flood), never break
"""
import ast
from .. import q, ofreg, defs, switchq
from ..model import AnalysisError, calls_in, call_name, norm, kwarg, walk_no_nested

EXPLAIN = ("R-REG action handler table vs the 12 OF1.0 action codes, action attribute reads vs the registered codec class; "
           "R-DOM emission/receive guards decided by path-sensitive reachability of the emission, counters and lookup under "
           "each port-flag assignment (all 8 receive combinations); R-EFFECT counters on the same paths as emission; "
           "R-AGREE action->header-field table; R-ORDER VLAN push/strip read-before-overwrite; R-REG/R-ALL virtual-port arms "
           "and flood loops. Decides these necessary conditions, not emitted bytes or checksums.")

FIELD_TABLE = {   # action name -> (header attribute written, action field read)
  'set_dl_src': ('src', 'dl_addr'), 'set_dl_dst': ('dst', 'dl_addr'),
  'set_nw_src': ('srcip', 'nw_addr'), 'set_nw_dst': ('dstip', 'nw_addr'), 'set_nw_tos': ('tos', 'nw_tos'),
  'set_tp_src': ('srcport', 'tp_port'), 'set_tp_dst': ('dstport', 'tp_port'),
  'set_vlan_vid': ('id', 'vlan_vid'), 'set_vlan_pcp': ('pcp', 'vlan_pcp'),
}

def _bit (name):
  """matcher: <anything>.config & NAME  (either operand order); also .state"""
  def nm (x):
    return x.id if isinstance(x, ast.Name) else (x.attr if isinstance(x, ast.Attribute) else None)
  def m (e):
    return isinstance(e, ast.BinOp) and isinstance(e.op, ast.BitAnd) and (nm(e.right) == name or nm(e.left) == name)
  return m

def run (ctx):
  ctx.explanation = EXPLAIN
  ctx.assumptions = ["handler tables built by naming convention (shape re-checked)", "assert statements execute",
                     "port flag tests have the form <port>.config & OFPPC_x / <port>.state & OFPPS_x"]
  repo = ctx.repo; spec = ofreg.spec()
  sw = switchq.switch_class(repo); swmod = sw.module
  conv = switchq.convention_tables(repo)
  acts = ofreg.actions(repo)

  # ---- D1 ------------------------------------------------------------------
  handlers = {}
  for aname, aval in sorted(spec['ofp_action_type'].items(), key=lambda x: x[1]):
    if aname == 'OFPAT_VENDOR': continue
    reg = [r for r in acts if r.name == aname]
    ctx.ob('R-REG', swmod.short + ':' + aname, "action code registered with the spec's number", bool(reg) and reg[-1].value == aval,
           "%s=%s" % (aname, reg[-1].value if reg else None), sw, 'D1')
    h, hname = switchq.handler_for(sw, '_action_', conv['_action_'], aname)
    ctx.ob('R-REG', sw.qual, "handler for %s" % aname, h is not None, hname if h else
           "no method %s: flows using %s are rejected with BAD_ACTION/BAD_TYPE" % (hname, aname), sw, 'D1')
    if h is None: continue
    handlers[aname] = (h, reg[-1].cls if reg else None); ctx.analysed(h)
    # features flag exists so the handler is actually installed
    feat = 'act_' + aname.split(conv['_action_'], 1)[-1].lower()
    init = sw.methods['__init__']
    on = any(isinstance(t, ast.Attribute) and t.attr == feat and isinstance(v, ast.Constant) and v.value is True for t, v, st, k in q.stores_in(init.node))
    ctx.ob('R-REG', sw.qual, "default features enable %s" % aname, on, "features.%s = True" % feat if on else "default features no longer enable %s: its handler is never installed" % feat, init, 'D1')
  ctx.floor('action handlers', len(handlers), 12)
  for aname, (h, cls) in sorted(handlers.items()):
    ps = h.params
    if len(ps) < 4: ctx.undecided('R-DEF', h, "handler signature", "unexpected parameters %s" % ps, h, 'D1'); continue
    act, pkt = ps[1], ps[2]
    if cls is not None:
      fields, open_ = defs.class_fields(repo, cls)
      for n in walk_no_nested(h.node):
        if isinstance(n, ast.Attribute) and isinstance(n.value, ast.Name) and n.value.id == act and isinstance(n.ctx, ast.Load):
          good = n.attr in fields or open_
          ctx.ob('R-DEF', h, "`%s.%s` is a field of %s" % (act, n.attr, cls.name), good,
                 "defined by the codec class" if good else "%s has no attribute `%s` (fields: %s): AttributeError whenever this action is applied" % (cls.name, n.attr, sorted(f for f in fields if not f.startswith('_') and f not in cls.methods)[:8]),
                 (swmod, n), 'D1')
    g = q.cfg_of(h)
    rets = [n for n in g.nodes if n.kind == 'return']
    good = bool(rets) and all(isinstance(r.ast.value, ast.Name) and r.ast.value.id == pkt for r in rets) and g.postdominates(rets, g.entry)
    ctx.ob('R-EFFECT', h, "handler hands the packet to the next action on every path", good,
           "every path returns `%s`" % pkt if good else "some path of the handler does not `return %s`: the following actions receive None" % pkt, h, 'D1')
    for nm, node in defs.undefined_names(repo, h):
      ctx.bad('R-DEF', h, "undefined name `%s`" % nm, "NameError when the action is applied", (swmod, node), 'D1')
  # dispatch loop feeds the result forward
  pa = q.find_method(repo, sw, '_process_actions_for_packet', 'C12'); ctx.analysed(pa)
  g = q.cfg_of(pa)
  fw = [st for t, v, st, k in q.stores_in(pa.node) if isinstance(t, ast.Name) and t.id == 'packet' and isinstance(v, ast.Call) and isinstance(v.func, ast.Name)]
  good = bool(fw) and any(len(st.value.args) >= 3 and norm(st.value.args[1]) == 'packet' for st in fw)
  ctx.ob('R-AGREE', pa, "each action receives the frame as modified so far", good, norm(fw[0]) if fw else "no `packet = h(action, packet, in_port)`", pa, 'D1')
  for (st, h_, af) in g.loop_nodes:
    body = g.loop_body_nodes(h_)
    br = [n for n in body if n.kind == 'break']
    ctx.ob('R-ALL', pa, "actions are applied in list order without skipping", not br and norm(st.iter) == 'actions', "for action in actions, no break", (swmod, st), 'D1')
    for r in [n for n in body if n.kind == 'return']:
      fs = q.fact_strs(g, r)
      ok_ = any(f.endswith('is None') for f in fs)
      ctx.ob('R-ALL', pa, "action list abandoned only for an unknown action type", ok_, "return under `h is None`" if ok_ else "facts %s" % fs, (swmod, r.ast), 'D1')

  # ---- D6 action -> field table & D5 ordering ---------------------------------
  for aname, (h, cls) in sorted(handlers.items()):
    short = aname.split('OFPAT_', 1)[-1].lower()
    act, pkt = h.params[1], h.params[2]
    g = q.cfg_of(h)
    writes = []     # (attr, value expr, stmt) for stores whose value reads the action
    for t, v, st, k in q.stores_in(h.node):
      if isinstance(t, ast.Attribute) and v is not None and q.mentions_name(v, act): writes.append((t, v, st))
    if short in FIELD_TABLE:
      hattr, afield = FIELD_TABLE[short]
      good = len(writes) == 1 and writes[0][0].attr == hattr and norm(writes[0][1]) == '%s.%s' % (act, afield)
      ctx.ob('R-AGREE', h, "%s writes header field `%s` from action field `%s` and nothing else" % (short, hattr, afield), good,
             norm(writes[0][2]) if good else "handler writes %s" % [norm(w[2]) for w in writes], h, 'D6')
      if writes:
        n = q.enclosing_stmt_node(g, writes[0][2]); fs = q.fact_strs(g, n)
        if short.startswith('set_nw_'):
          good = any('isinstance' in f and 'ipv4' in f and f.endswith(':truthy') for f in fs)
          tgt_ = writes[0][0].value
          if not good and isinstance(tgt_, ast.Name):
            # the header object reached the store through copies (a lookup helper): every origin must have passed the type test
            good = q.origins_satisfy(g, n, tgt_.id, lambda g_, n_, nm_: any(f.startswith('isinstance(%s, ' % nm_) and 'ipv4' in f and f.endswith(':truthy') for f in q.fact_strs(g_, n_)))
          ctx.ob('R-DOM', h, "IP rewrite only on IPv4 packets", good, "guarded by isinstance(.., ipv4)" if good else "facts %s" % fs, (swmod, writes[0][2]), 'D6')
        if short.startswith('set_tp_'):
          # decided by evaluation over the header types: the store is reachable for UDP-over-IPv4 and TCP-over-IPv4, and for nothing else
          def reach_ (true_set):
            def isin (e): return isinstance(e, ast.Call) and call_name(e) == 'isinstance' and len(e.args) == 2
            def val (e):
              k = e.args[1]
              names = [norm(x) for x in k.elts] if isinstance(k, ast.Tuple) else [norm(k)]
              return any(x in true_set for x in names)
            ms = [((lambda e, v=v: isin(e) and val(e) is v), v) for v in (True, False)]
            return n in q.reach_under_cp(repo, swmod, g, q.Env({}, ms), sw)
          r_udp = reach_({'ipv4', 'udp'}); r_tcp = reach_({'ipv4', 'tcp'}); r_no = reach_({'ipv4'}); r_noip = reach_({'udp', 'tcp'}) or reach_({'arp', 'udp'})
          ok_ = r_udp and r_tcp and not r_no and not r_noip
          ctx.ob('R-DOM', h, "port rewrite applies to TCP and UDP over IPv4 only", ok_,
                 "reachable for udp and tcp over ipv4, not otherwise" if ok_ else "reachable: udp/ipv4 %s, tcp/ipv4 %s, other ipv4 payload %s, not ipv4 %s" % (r_udp, r_tcp, r_no, r_noip), (swmod, writes[0][2]), 'D6')
    if short in ('set_nw_src', 'set_nw_dst', 'set_nw_tos', 'set_tp_src', 'set_tp_dst'):
      # VLAN unwrap: nw = packet.payload; if isinstance(nw, vlan): nw = nw.payload
      unwrap = any(isinstance(t, ast.Name) and v is not None and norm(v) == t.id + '.payload' and
                   any('isinstance(%s, vlan):truthy' % t.id in f for f in q.fact_strs(g, q.enclosing_stmt_node(g, st)))
                   for t, v, st, k in q.stores_in(h.node))
      ctx.ob('R-SIB', h, "header rewrite looks through a VLAN tag", unwrap, "nw = nw.payload under isinstance(nw, vlan)" if unwrap else "this handler does not unwrap a VLAN tag like its siblings: tagged frames are not rewritten", h, 'D5')
    if short in ('set_vlan_vid', 'set_vlan_pcp'):
      _tag_push(ctx, repo, sw, h, g, pkt)
    if short == 'strip_vlan':
      st_type = [st for t, v, st, k in q.stores_in(h.node) if isinstance(t, ast.Attribute) and t.attr == 'type' and norm(t.value) == pkt]
      st_pay = [st for t, v, st, k in q.stores_in(h.node) if isinstance(t, ast.Attribute) and t.attr == 'payload' and norm(t.value) == pkt]
      good = len(st_type) == 1 and len(st_pay) == 1 and norm(st_type[0].value) == '%s.payload.eth_type' % pkt and norm(st_pay[0].value) == '%s.payload.payload' % pkt
      ctx.ob('R-AGREE', h, "strip restores the frame type from the tag and relinks the payload", good, "; ".join(norm(s) for s in st_type + st_pay), h, 'D6')
      if good:
        a = q.enclosing_stmt_node(g, st_type[0]); b = q.enclosing_stmt_node(g, st_pay[0])
        good = a not in g.reachable(b) and g.dominates(a, b)
        ctx.ob('R-ORDER', h, "tag's ethertype is read before the tag is unlinked", good, "type restored first" if good else "packet.payload is replaced before packet.payload.eth_type is read: the restored type comes from the inner header", h, 'D5')
        fs = q.fact_strs(g, a)
        good = any('isinstance(%s.payload, vlan):truthy' % pkt in f for f in fs)
        ctx.ob('R-DOM', h, "strip only when a tag is present", good, "guarded" if good else "facts %s" % fs, h, 'D6')
    if short in ('output', 'enqueue'):
      cs = [c for c in calls_in(h.node) if call_name(c) == '_output_packet']
      good = len(cs) == 1 and len(cs[0].args) >= 3 and norm(cs[0].args[0]) == pkt and norm(cs[0].args[1]) == act + '.port' and norm(cs[0].args[2]) == h.params[3]
      ctx.ob('R-AGREE', h, "%s emits the current frame on the action's port with the ingress port" % short, good, norm(cs[0]) if cs else "no _output_packet call", h, 'D6')
      if short == 'output' and cs:
        ml = kwarg(cs[0], 'max_len', 3)
        ctx.ob('R-AGREE', h, "output passes the action's max_len (for CONTROLLER)", ml is not None and norm(ml) == act + '.max_len', norm(cs[0]), h, 'D6')

  # ---- D2 emission guards -------------------------------------------------------
  op = q.find_method(repo, sw, '_output_packet', 'C12'); ctx.analysed(op)
  nested = q.nested_defs(op.node)
  # the checked send: the closure of _output_packet - or the method of the switch - that calls the physical emission
  def _emits (fn): return any(call_name(c) == '_output_packet_physical' for c in calls_in(fn))
  rs = None; RS = None
  for nm_, fn_ in nested.items():
    fn_ = getattr(fn_, 'node', fn_)
    if _emits(fn_): rs = fn_; RS = nm_
  if rs is None:
    for nm_, m_ in sw.methods.items():
      if nm_ not in ('_output_packet', '_output_packet_physical') and _emits(m_.node) and any(call_name(c) == nm_ for c in calls_in(op.node)):
        rs = m_.node; RS = nm_
  if rs is None:
    raise AnalysisError("the checked send (closure or method between _output_packet and _output_packet_physical) not found (emission guards anchor)")
  g = q.cfg_of(rs)
  emit = g.nodes_with_call(lambda c: call_name(c) == '_output_packet_physical')
  cnt = {}
  for t, v, st, k in q.stores_in(rs):
    if k == 'augassign' and isinstance(t, ast.Attribute) and t.attr in ('tx_packets', 'tx_bytes'):
      cnt[t.attr] = (q.enclosing_stmt_node(g, st), st)
  ctx.floor('emission site', len(emit), 1); ctx.floor('tx counters', len(cnt), 2)
  clear = [(_cmp_names('port_no', 'in_port'), False), (_port_notin, False), (_port_in, True), (_port_get, '<port>'),
           (_bit('OFPPC_NO_FWD'), 0), (_bit('OFPPC_PORT_DOWN'), 0), (_bit('OFPPS_LINK_DOWN'), 0),
           (lambda e: isinstance(e, ast.Compare) and norm(e.left).startswith('type(port_no)'), False)]
  def env_with (over):
    ms = []; ex = {}
    for k_, v_ in over + [c for c in clear if not any(_same_key(c[0], o[0]) for o in over)]:
      if isinstance(k_, str): ex[k_] = v_
      else: ms.append((k_, v_))
    return q.Env(ex, ms)
  targets = emit + [n for n, st in cnt.values()]
  r = q.reach_under(repo, swmod, g, env_with([('allow_in_port', False)]), sw)
  good = all(t in r for t in targets)
  ctx.ob('R-DOM', op, "emission happens when no rule forbids it", good, "emit and counters reachable with all flags clear" if good else "emission unreachable even with all port flags clear", (swmod, rs), 'D2')
  BLOCK = [
    ("the ingress port (plain output)", [(_cmp_names('port_no', 'in_port'), True), ('allow_in_port', False)]),
    ("a port that does not exist", [(_port_notin, True), (_port_in, False), (_port_get, None), ('allow_in_port', False)]),
    ("a port with forwarding disabled (NO_FWD)", [(_bit('OFPPC_NO_FWD'), 32), ('allow_in_port', False)]),
    ("a port that is administratively down (PORT_DOWN)", [(_bit('OFPPC_PORT_DOWN'), 1), ('allow_in_port', False)]),
    ("a port whose link is down (LINK_DOWN)", [(_bit('OFPPS_LINK_DOWN'), 1), ('allow_in_port', False)]),
    ("a NO_FWD port even for IN_PORT output", [(_bit('OFPPC_NO_FWD'), 32), (_cmp_names('port_no', 'in_port'), True), ('allow_in_port', True)]),
  ]
  for what, over in BLOCK:
    r = q.reach_under(repo, swmod, g, env_with(over), sw)
    leaked = [t for t in targets if t in r]
    ctx.ob('R-DOM', op, "nothing is emitted or counted on %s" % what, not leaked,
           "emission and tx counters unreachable" if not leaked else
           "with this condition true, `%s` (line %s) is still reachable: frames are %s on %s" % (leaked[0].text(50), leaked[0].line, "emitted/counted", what), (swmod, rs), 'D2')
  r = q.reach_under(repo, swmod, g, env_with([(_cmp_names('port_no', 'in_port'), True), ('allow_in_port', True)]), sw)
  good = all(t in r for t in targets)
  ctx.ob('R-DOM', op, "OFPP_IN_PORT output may go back out the ingress port", good, "reachable with allow_in_port" if good else "IN_PORT output is blocked", (swmod, rs), 'D2')
  # same paths
  ns = targets
  same = all(_equiv(g, ns[0], n) for n in ns[1:])
  ctx.ob('R-EFFECT', op, "tx counters are updated on exactly the paths that emit", same, "mutual (post)dominance of emit, tx_packets, tx_bytes" if same else "a counter is updated on a path that does not emit (or vice versa)", (swmod, rs), 'D2')
  def tgt_text (t):
    # stats.tx_bytes with stats = self.port_stats[port_no]
    if isinstance(t, ast.Attribute) and isinstance(t.value, ast.Name):
      d = q.single_def(rs, t.value.id)
      if d is not None: return norm(d) + '.' + t.attr
    return norm(t)
  for nm, (n, st) in cnt.items():
    if nm == 'tx_packets':
      ctx.ob('R-AGREE', op, "tx_packets grows by one per emitted frame", isinstance(st.op, ast.Add) and norm(st.value) == '1' and 'port_stats[port_no]' in tgt_text(st.target), norm(st), (swmod, st), 'D2')
    else:
      ctx.ob('R-AGREE', op, "tx_bytes grows by the emitted frame's length", isinstance(st.op, ast.Add) and norm(st.value) in ('len(packet.pack())', 'len(packet)') and 'port_stats[port_no]' in tgt_text(st.target), norm(st), (swmod, st), 'D2')
      if norm(st.value) == 'len(packet)':
        # len() of a packet object is the length of its serialisation only while packet_base.__len__ says so: the actions have
        # rewritten the headers in place, the bytes the frame was parsed from (`raw`) are stale
        # the frames the switch handles are `ethernet` objects: every __len__ along ethernet's MRO that can answer
        eth_ = repo.cls('lib.packet.ethernet', 'ethernet'); pb_ = repo.cls('lib.packet.packet_base', 'packet_base')
        lens_ = [k_.methods['__len__'] for k_ in (eth_.mro() if eth_ is not None else [pb_]) if k_ is not None and '__len__' in k_.methods]
        for ln_ in lens_:
          ctx.analysed(ln_)
          rets_ = [r_ for r_ in q.returns_of(ln_.node) if r_.value is not None]
          # attributes that parse() recorded about the received bytes (raw, hdr_len, payload_len, ...) describe the frame as it
          # arrived, not as the actions left it
          pm_ = ln_.cls.find_method('parse') if ln_.cls is not None else None
          parsed_attrs = set(t_.attr for t_, v_, s_, k_ in q.stores_in(pm_.node) if isinstance(t_, ast.Attribute) and norm(t_.value) == 'self') if pm_ is not None else set()
          parsed_attrs |= {'raw'}; parsed_attrs -= {'parsed', 'next'}
          stale_ = [r_ for r_ in rets_ if any(isinstance(x, ast.Attribute) and norm(x.value) == 'self' and x.attr in parsed_attrs for x in ast.walk(r_.value))]
          ctx.ob('R-AGREE', ln_, "len(packet) is the length of what pack() emits", bool(rets_) and not stale_, "len(self.pack())" if rets_ and not stale_ else
                 "`%s` measures the bytes the frame was parsed from, not the frame as the actions left it: after a VLAN push/strip the transmit byte counter is off by the tag's four bytes on every port the frame is sent to" % norm(stale_[0]) if stale_ else "no return", (ln_.module, (stale_ or rets_ or [ln_.node])[0]), 'D2')

  # ---- D7 virtual ports --------------------------------------------------------
  g = q.cfg_of(op)
  calls_rs = g.nodes_with_call(lambda c: call_name(c) == RS)
  P = spec['ofp_port']
  def reach_out (val, extra=None):
    env = q.Env({'out_port': val}, extra or [])
    return q.reach_under(repo, swmod, g, env, sw)
  for pname in ('OFPP_MAX', 'OFPP_IN_PORT', 'OFPP_TABLE', 'OFPP_FLOOD', 'OFPP_ALL', 'OFPP_CONTROLLER', 'OFPP_NONE'):
    v = ofreg.const_value(repo, swmod, pname)
    ctx.ob('R-REG', swmod.short + ':' + pname, "virtual port constant", v == P[pname], "%s = %s" % (pname, v), sw, 'D7')
  def sites (r, name): return [n for n in r if n.ast is not None and any(call_name(c) == name for c in q.node_calls(n))]
  rs_params = [a.arg for a in rs.args.args if a.arg not in ('self',)]
  def rs_arg (c, role):
    # the argument a call of the checked send binds to its parameter `role`
    for k_ in c.keywords:
      if k_.arg == role: return k_.value
    if role in rs_params and rs_params.index(role) < len(c.args): return c.args[rs_params.index(role)]
    if role in rs_params:
      a_ = rs.args.args[[x.arg for x in rs.args.args].index(role)]
      dflt = rs.args.defaults; pos = [x.arg for x in rs.args.args].index(role) - (len(rs.args.args) - len(dflt))
      if pos >= 0: return dflt[pos]
    return None
  r = reach_out(5)
  rsn = sites(r, RS)
  good = len(rsn) == 1 and norm(rs_arg([c for c in q.node_calls(rsn[0]) if call_name(c) == RS][0], 'port_no')) == 'out_port' and not sites(r, 'send_packet_in') and not sites(r, 'rx_packet')
  ctx.ob('R-REG', op, "physical port: one direct send", good, "%s(out_port)" % RS if good else "physical output reaches %s" % [n.text(40) for n in rsn], op, 'D7')
  r = reach_out(P['OFPP_IN_PORT']); rsn = sites(r, RS)
  good = len(rsn) == 1
  if good:
    c = [c for c in q.node_calls(rsn[0]) if call_name(c) == RS][0]
    good = norm(rs_arg(c, 'port_no')) == 'in_port' and norm(rs_arg(c, 'allow_in_port')) == 'True'
  ctx.ob('R-REG', op, "OFPP_IN_PORT sends on the ingress port with the ingress exception", good, "%s(in_port, allow_in_port=True)" % RS if good else "IN_PORT arm: %s" % [n.text(50) for n in rsn], op, 'D7')
  for pname, noflood in (('OFPP_FLOOD', True), ('OFPP_ALL', False)):
    r = reach_out(P[pname]); rsn = sites(r, RS)
    loops = [(st, h, af) for (st, h, af) in g.loop_nodes if h in r]
    good = len(rsn) == 1 and len(loops) == 1 and norm(loops[0][0].iter) in ('self.ports.items()', 'self.ports.values()', 'self.ports')
    if not good and len(rsn) == 1 and len(loops) == 1 and isinstance(loops[0][0].iter, (ast.GeneratorExp, ast.ListComp)) and \
       norm(loops[0][0].iter.generators[0].iter) in ('self.ports.items()', 'self.ports.values()', 'self.ports'):
      # the exclusions are written as filters of a generator over the ports; the reachability rules below read conditions of the loop body
      ctx.undecided('R-REG', op, "%s iterates over all ports" % pname, "loop over a filtered generator of self.ports: the filter conditions are not evaluated", op, 'D7'); continue
    ctx.ob('R-REG', op, "%s iterates over all ports" % pname, good, "loop over self.ports with one send" if good else "%s arm: loops %s sends %s" % (pname, [norm(l[0].iter) for l in loops], len(rsn)), op, 'D7')
    if not good: continue
    st, h, af = loops[0]
    body = g.loop_body_nodes(h)
    br = [n for n in body if n.kind in ('break', 'return')]
    ctx.ob('R-ALL', op, "%s never stops before the last port" % pname, not br, "no break/return in the loop" if not br else "loop leaves early at line %s: later ports get no copy" % br[0].line, (swmod, st), 'D7')
    send = rsn[0]
    inport = _loop_cmp_in_port
    base = [(inport, False), (_bit('OFPPC_NO_FLOOD'), 0)]
    cfgattr = (lambda e: isinstance(e, ast.Attribute) and e.attr == 'config')
    def R (over):
      ms = [(k_, v_) for k_, v_ in over] + [b for b in base if not any(b[0] is o[0] for o in over)]
      # the port's config word as a value too (the bit may be selected through a local: `port.config & skip_config`)
      nf = [v_ for k_, v_ in ms if k_ is base[1][0] or getattr(k_, '__closure__', None) and k_.__code__ is base[1][0].__code__]
      ms.append((cfgattr, nf[0] if nf else 0))
      return q.reach_under_cp(repo, swmod, g, q.Env({'out_port': P[pname]}, ms), sw)
    ctx.ob('R-DOM', op, "%s copies to ports other than the ingress" % pname, send in R([]), "send reachable for other ports", (swmod, st), 'D7')
    ctx.ob('R-DOM', op, "%s excludes the ingress port" % pname, send not in R([(inport, True)]), "send unreachable when the port is the ingress port" if send not in R([(inport, True)]) else "a flooded frame is sent back out its ingress port", (swmod, st), 'D7')
    blocked = send not in R([(_bit('OFPPC_NO_FLOOD'), 16)])
    if noflood:
      ctx.ob('R-DOM', op, "OFPP_FLOOD excludes flood-disabled ports", blocked, "send unreachable under NO_FLOOD" if blocked else "flood ignores OFPPC_NO_FLOOD", (swmod, st), 'D7')
    else:
      ctx.ob('R-DOM', op, "OFPP_ALL includes flood-disabled ports", not blocked, "NO_FLOOD does not affect ALL" if not blocked else "OFPP_ALL skips NO_FLOOD ports (only FLOOD should)", (swmod, st), 'D7')
  r = reach_out(P['OFPP_CONTROLLER'])
  bp = sites(r, '_buffer_packet'); sp = sites(r, 'send_packet_in')
  good = len(bp) == 1 and len(sp) == 1 and not sites(r, RS)
  if good:
    c = [c for c in q.node_calls(sp[0]) if call_name(c) == 'send_packet_in'][0]
    good = norm(kwarg(c, 'reason', 3)) == 'OFPR_ACTION' and norm(kwarg(c, 'data_length', 4)) == 'max_len' and norm(c.args[0]) == 'in_port' and g.dominates(bp[0], sp[0])
  # what send_packet_in makes of that max_len (0 = no bytes, buffered frames only, the whole frame when unbuffered): shared with C18 / C11
  from . import c18
  spi_ = q.find_method(repo, sw, 'send_packet_in', 'C12 packet-in'); ctx.analysed(spi_)
  c18.packet_in_rules(ctx, repo, spi_)
  ctx.ob('R-REG', op, "OFPP_CONTROLLER buffers, then sends a packet-in with reason ACTION and the action's max_len", good, "buffer then send_packet_in(in_port, buffer_id, packet, reason=OFPR_ACTION, data_length=max_len)" if good else "CONTROLLER arm changed", op, 'D7')
  r = reach_out(P['OFPP_TABLE'])
  good = len(sites(r, 'rx_packet')) == 1 and not sites(r, RS)
  ctx.ob('R-REG', op, "OFPP_TABLE resubmits the frame to the flow table", good, "rx_packet(packet, in_port)" if good else "TABLE arm changed", op, 'D7')

  # ---- D3 receive guards ---------------------------------------------------------
  rx = q.find_method(repo, sw, 'rx_packet', 'C12'); ctx.analysed(rx)
  g = q.cfg_of(rx)
  rxc = {}
  for t, v, st, k in q.stores_in(rx.node):
    if k == 'augassign' and isinstance(t, ast.Attribute) and t.attr in ('rx_packets', 'rx_bytes'):
      rxc.setdefault(t.attr, []).append((q.enclosing_stmt_node(g, st), st))
  lookup = g.nodes_with_call(lambda c: call_name(c) == 'entry_for_packet')
  ctx.floor('rx counters', len(rxc), 2); ctx.floor('table lookup site', len(lookup), 1)
  tg = [n for lst in rxc.values() for n, st in lst] + lookup
  def stp_test (e):
    return isinstance(e, ast.Compare) and len(e.ops) == 1 and isinstance(e.ops[0], (ast.Eq, ast.NotEq)) and \
           any(norm(x) == '_STP_MAC' for x in (e.left, e.comparators[0])) and any(isinstance(x, ast.Attribute) and x.attr == 'dst' for x in (e.left, e.comparators[0]))
  stp_cmp = [n for n in ast.walk(rx.node) if stp_test(n)]
  ctx.ob('R-AGREE', rx, "STP frames are recognised by the bridge group address", len(stp_cmp) >= 1, "%s" % (norm(stp_cmp[0]) if stp_cmp else "no comparison of the destination with _STP_MAC"), rx, 'D3')
  # (the verdict depends on these two flags only: with every other configuration flag set as well - NO_STP, NO_FLOOD, NO_FWD,
  # NO_PACKET_IN - it must be the same)
  OTHER = 2 | 16 | 32 | 64
  for nr, ns, stp, extra in [(a_, b_, c_, d_) for a_ in (0, 4) for b_ in (0, 8) for c_ in (False, True) for d_ in (0, OTHER)]:
    for _once in (0,):
      for _once2 in (0,):
        ms = [(_bit('OFPPC_NO_RECV'), nr), (_bit('OFPPC_NO_RECV_STP'), ns),
              ((lambda e: stp_test(e) and isinstance(e.ops[0], ast.Eq)), stp), ((lambda e: stp_test(e) and isinstance(e.ops[0], ast.NotEq)), not stp),
              ((lambda e: isinstance(e, ast.Attribute) and e.attr == 'config' and norm(e.value) in ('port', 'self.ports[in_port]', 'self.ports.get(in_port)')), nr | ns | extra),
              (_port_get, '<port>'), (_port_in, True), (_port_notin, False)]
        env = q.Env({'port is None': False, 'self.config_flags & OFPC_FRAG_MASK': 0}, ms)
        r = q.reach_under_cp(repo, swmod, g, env, sw)
        accept = not ((nr and not stp) or (ns and stp))
        got = [t for t in tg if t in r]
        good = (len(got) == len(tg)) if accept else not got
        ctx.ob('R-DOM', rx, "receive rule: NO_RECV=%d NO_RECV_STP=%d%s %s frame -> %s" % (bool(nr), bool(ns), ' (all other flags set)' if extra else '', 'STP' if stp else 'ordinary', 'accepted' if accept else 'dropped'), good,
               "counters and lookup %s" % ("reachable" if accept else "unreachable") if good else
               ("a frame that must be dropped still reaches `%s` (line %s): it is counted / looked up / forwarded" % (got[0].text(40), got[0].line) if not accept else "a frame that must be accepted is dropped"),
               rx, 'D3')
  # fragments dropped in FRAG_DROP mode
  fdrop = ofreg.const_value(repo, swmod, 'OFPC_FRAG_DROP')
  env = q.Env({'is_stp': False, 'port is None': False},
              [(_bit('OFPPC_NO_RECV'), 0), (_bit('OFPPC_NO_RECV_STP'), 0), (_bit('OFPC_FRAG_MASK'), fdrop),
               ((lambda e: stp_test(e)), False),
               ((lambda e: isinstance(e, ast.Attribute) and e.attr == 'config' and norm(e.value) in ('port', 'self.ports[in_port]', 'self.ports.get(in_port)')), 0),
               (_port_get, '<port>'), (_port_in, True), (_port_notin, False),
               ((lambda e: isinstance(e, ast.Call) and call_name(e) == 'find' and e.args and norm(e.args[0]) in ('ipv4', "'ipv4'")), '<ipv4 header>'),
               (lambda e: isinstance(e, ast.BoolOp) and 'MF_FLAG' in norm(e), True), (_bit('MF_FLAG'), 1)])
  r = q.reach_under_cp(repo, swmod, g, env, sw)
  got = [t for t in tg if t in r]
  ctx.ob('R-DOM', rx, "fragments are dropped before counting in FRAG_DROP mode", not got, "unreachable" if not got else "fragment reaches %s in drop mode" % got[0].text(40), rx, 'D3')
  for nm, lst in rxc.items():
    iv = g.interval(lambda n: n in [x for x, st in lst], stop=lookup[0]) if lookup else None
    ctx.ob('R-EFFECT', rx, "%s updated exactly once per accepted frame" % nm, iv == (1, 1), "count on paths to the lookup: %s" % (iv,), rx, 'D3')
  for n, st in rxc.get('rx_packets', []):
    ctx.ob('R-AGREE', rx, "rx_packets grows by one on the ingress port", norm(st.value) == '1' and 'port_stats[in_port]' in norm(st.target), norm(st), (swmod, st), 'D3')
  pin = g.nodes_with_call(lambda c: call_name(c) == 'send_packet_in')
  env = q.Env({'is_stp': False, 'port is None': False, 'entry is not None': False, 'entry is None': True, 'self.config_flags & OFPC_FRAG_MASK': 0},
              [(_bit('OFPPC_NO_RECV'), 0), (_bit('OFPPC_NO_RECV_STP'), 0), (_bit('OFPPC_NO_PACKET_IN'), 64)])
  r = q.reach_under(repo, swmod, g, env, sw)
  bad_ = [p for p in pin if p in r] + [n for n in g.nodes_with_call(lambda c: call_name(c) == '_buffer_packet') if n in r]
  ctx.ob('R-DOM', rx, "a table miss on a NO_PACKET_IN port is neither buffered nor reported", not bad_, "unreachable" if not bad_ else "packet-in/buffering reachable with NO_PACKET_IN set", rx, 'D3')

  _checksums(ctx, repo)
  # ---- D4 port mod -------------------------------------------------------------
  pm = q.find_method(repo, sw, '_rx_port_mod', 'C12'); ctx.analysed(pm)
  g = q.cfg_of(pm)
  setc = g.nodes_with_call(lambda c: call_name(c) == '_set_port_config_bit')
  ctx.floor('port config change site', len(setc), 1)
  pmsg = pm.params[1]
  for what, env, code in (("unknown port", q.Env({'port_no not in self.ports': True, 'port_no in self.ports': False}), 'OFPPMFC_BAD_PORT'),
                          ("wrong hardware address", q.Env({'port_no not in self.ports': False, 'port_no in self.ports': True, 'port.hw_addr != %s.hw_addr' % pmsg: True, 'port.hw_addr == %s.hw_addr' % pmsg: False}), 'OFPPMFC_BAD_HW_ADDR')):
    r = q.reach_under(repo, swmod, g, env, sw)
    errs = [n for n in r if any(switchq.is_send_error(c) for c in q.node_calls(n))]
    codes = [norm(kwarg([c for c in q.node_calls(n) if switchq.is_send_error(c)][0], 'code', 1)) for n in errs]
    good = codes == [code] and not any(s in r for s in setc)
    ctx.ob('R-DOM', pm, "port-mod for %s: %s and no configuration change" % (what, code), good,
           "error sent, config untouched" if good else "errors reachable: %s; config change reachable: %s" % (codes, any(s in r for s in setc)), pm, 'D4')
  # the loop over the mask's bits is never abandoned: a bit the switch cannot honour must not keep the other bits of the same
  # message from being applied
  for st_, h_, af_ in g.loop_nodes:
    body = g.loop_body_nodes(h_)
    if not any(s_ in body for s_ in setc): continue
    inside = set(id(x) for b_ in st_.body for x in walk_no_nested(b_)) | set(id(b_) for b_ in st_.body)
    leave = [n for n in g.nodes if n.kind in ('return', 'break') and n.ast is not None and id(n.ast) in inside and (n.kind == 'return' or any(x is af_ for x, l_ in n.succ))]
    ctx.ob('R-ALL', pm, "every bit selected by the mask is processed (the bit loop has no early exit)", not leave, "no break/return inside the loop" if not leave else
           "`%s` (line %s) leaves the loop over the mask's bits: the remaining bits of the same port-mod (e.g. NO_FWD, NO_FLOOD, NO_RECV after an unsupported NO_STP change) are silently not applied and the port keeps forwarding"
           % (leave[0].text(40), leave[0].line), (swmod, leave[0].ast) if leave else pm, 'D4')
  spb = q.find_method(repo, sw, '_set_port_config_bit', 'C12'); ctx.analysed(spb)
  # by evaluation, across the two functions: only a change of the PORT_DOWN bit touches the link state.  ofp_phy_port.set_config is
  # evaluated on a sample port (config 0, one bit set) and what it returns is fed to the `port.set_config(...)` call in
  # _set_port_config_bit: the statements that rewrite port.state / announce a port-status are reachable for PORT_DOWN only
  lofm_ = repo.mod('openflow.libopenflow_01'); php_ = lofm_.classes.get('ofp_phy_port'); sc_ = php_.methods.get('set_config') if php_ else None
  if sc_ is not None and len(spb.params) >= 4:
    ctx.analysed(sc_); gsc_ = q.cfg_of(sc_); gsp_ = q.cfg_of(spb)
    pv_, bv_, vv_ = spb.params[1], spb.params[2], spb.params[3]
    def ret_of_set_config (bitval):
      vals = set()
      for p_, e_ in q.paths_under(repo, lofm_, gsc_, q.Env({'self.config': 0, sc_.params[1]: bitval, sc_.params[2]: bitval}), gsc_.entry, [n_ for n_ in gsc_.nodes if n_.kind == 'return'], php_, limit=20):
        try: vals.add(q.eval_env2(repo, lofm_, p_[-1].ast.value, e_, php_))
        except Exception: vals.add('?')
      return list(vals)[0] if len(vals) == 1 else '?'
    touch = [n_ for n_ in gsp_.nodes if (isinstance(n_.ast, (ast.Assign, ast.AugAssign)) and any(norm(t_) == pv_ + '.state' for t_ in (n_.ast.targets if isinstance(n_.ast, ast.Assign) else [n_.ast.target])))
             or any(call_name(c_) == 'send_port_status' for c_ in q.node_calls(n_))]
    ctx.floor('link-state statements in _set_port_config_bit', len(touch), 2)
    is_sc = lambda e: isinstance(e, ast.Call) and call_name(e) == 'set_config'
    und_ = False; wrong_ = []
    for bn_ in ('OFPPC_PORT_DOWN', 'OFPPC_NO_FLOOD', 'OFPPC_NO_FWD', 'OFPPC_NO_RECV', 'OFPPC_NO_PACKET_IN'):
      b_ = repo.try_const(swmod, ast.parse(bn_, mode='eval').body, sw)
      if not isinstance(b_, int): und_ = True; continue
      r_ = ret_of_set_config(b_)
      if r_ == '?': und_ = True; continue
      reach = q.reach_under_cp(repo, swmod, gsp_, q.Env({bv_: b_, vv_: b_, pv_ + '.config': b_, pv_ + '.state': 0}, [(is_sc, r_)]), sw)
      hit = [n_ for n_ in touch if n_ in reach]
      if bool(hit) != (bn_ == 'OFPPC_PORT_DOWN'): wrong_.append((bn_, r_, bool(hit)))
    if und_ and not wrong_:
      ctx.undecided('R-AGREE', spb, "only a change of PORT_DOWN rewrites the link state", "set_config / the bit constants could not be evaluated", spb, 'D4')
    else:
      ctx.ob('R-AGREE', spb, "only a change of PORT_DOWN rewrites the link state", not wrong_, "PORT_DOWN reaches the link-state block, the other bits do not (set_config evaluated on a sample port)" if not wrong_ else
             "setting %s on a port: ofp_phy_port.set_config returns %r and with that the link-state block of _set_port_config_bit is %s - %s"
             % (wrong_[0][0], wrong_[0][1], "reached" if wrong_[0][2] else "not reached",
                "a port-mod that only sets NO_FLOOD / NO_FWD / NO_RECV marks the port link-down (and announces it): nothing is emitted on a port that is up" if wrong_[0][2] else "taking a port down no longer sets OFPPS_LINK_DOWN"), spb, 'D4')
  cs = [c for c in calls_in(pm.node) if call_name(c) == '_set_port_config_bit']
  if cs:
    c = cs[0]
    good = len(c.args) == 3 and isinstance(c.args[1], ast.Name) and norm(c.args[2]) in ('%s.config & %s' % (pmsg, norm(c.args[1])), '%s & %s.config' % (norm(c.args[1]), pmsg))
    ctx.ob('R-AGREE', pm, "each masked bit is set to the message's value for that bit", good, norm(c), (swmod, c), 'D4')
    n = q.enclosing_stmt_node(g, c); fs = q.fact_strs(g, n)
    guarded = any(('mask & %s:truthy' % norm(c.args[1])) in f or ('%s & mask:truthy' % norm(c.args[1])) in f for f in fs) if len(c.args) == 3 else False
    if guarded:
      ctx.ok('R-DOM', pm, "only bits selected by the mask are changed", "guarded by mask & bit", (swmod, c), 'D4')
    else:
      # is the bit computed from the mask (e.g. lowest set bit of the remaining mask)?  Then the selection is arithmetic,
      # which this analysis does not evaluate: undecided.  A bit that does not depend on the mask at all and is not tested
      # against it is a violation.
      def depends_on_mask (e, depth=0):
        if any(isinstance(x, ast.Attribute) and x.attr == 'mask' for x in ast.walk(e)): return True
        if depth > 4: return False
        for nm in q.names_in(e):
          for v_, st_, k_ in q.reaching_assign(pm.node, nm):
            src = v_ if v_ is not None else (st_.value if isinstance(st_, ast.AugAssign) else None)
            if src is not None and depends_on_mask(src, depth + 1): return True
        return False
      if len(c.args) == 3 and depends_on_mask(c.args[1]):
        ctx.undecided('R-DOM', pm, "only bits selected by the mask are changed", "the bit is derived from the mask arithmetically (`%s`); not evaluated" % norm(c.args[1]), (swmod, c), 'D4')
      else:
        ctx.bad('R-DOM', pm, "only bits selected by the mask are changed", "the configuration bit passed to _set_port_config_bit neither depends on the message's mask nor is tested against it (facts %s): bits outside the mask are overwritten" % fs, (swmod, c), 'D4')
  from . import c18 as c18s_
  c18s_.packet_truth_tests(ctx, repo, repo.cls('datapaths.switch', 'SoftwareSwitchBase'), 'D1')
  # ---- mechanisms this property shares with others: their checks' rules about these functions are obligations here too
  ctx.include('C18', ['_process_actions_for_packet_from_buffer'], 'actions of a buffered packet run inside the use-and-free routine')
  ctx.include('C14', ['udp.checksum', 'tcp.checksum', 'packet_utils:checksum', 'ipv4.checksum'], "a frame whose fields an action rewrote is emitted with the checksums the packet library computes")

def _checksums (ctx, repo):
  """rewriting actions re-serialise the frame: the checksum routine they rely on (shared with C14)"""
  from . import c14
  f = repo.mod('lib.packet.packet_utils').funcs.get('checksum')
  if f is not None: ctx.analysed(f)
  c14.checksum_samples(ctx, repo, 'D6')

def _isinst (clsname):
  def m (e):
    return isinstance(e, ast.Call) and call_name(e) == 'isinstance' and len(e.args) == 2 and norm(e.args[1]) == clsname
  return m

def _ports_tbl (e): return isinstance(e, ast.Attribute) and e.attr == 'ports'
def _port_notin (e): return isinstance(e, ast.Compare) and len(e.ops) == 1 and isinstance(e.ops[0], ast.NotIn) and _ports_tbl(e.comparators[0])
_port_notin._key = ('port', 'notin')
def _port_in (e): return isinstance(e, ast.Compare) and len(e.ops) == 1 and isinstance(e.ops[0], ast.In) and _ports_tbl(e.comparators[0])
_port_in._key = ('port', 'in')
def _port_get (e): return isinstance(e, ast.Call) and call_name(e) == 'get' and _ports_tbl(e.func.value) and len(e.args) == 1
_port_get._key = ('port', 'get')

def _cmp_names (a, b):
  def m (e):
    return isinstance(e, ast.Compare) and len(e.ops) == 1 and isinstance(e.ops[0], ast.Eq) and \
           {norm(e.left), norm(e.comparators[0])} == {a, b}
  m._key = ('cmp', a, b)
  return m

def _loop_cmp_in_port (e):
  return isinstance(e, ast.Compare) and len(e.ops) == 1 and isinstance(e.ops[0], ast.Eq) and \
         'in_port' in (norm(e.left), norm(e.comparators[0]))

def _same_key (a, b):
  if isinstance(a, str) or isinstance(b, str): return a == b
  ka = getattr(a, '_key', None); kb = getattr(b, '_key', None)
  if ka is not None and ka == kb: return True
  # bit matchers: compare closure names
  ca = getattr(a, '__closure__', None); cb = getattr(b, '__closure__', None)
  try:
    return a.__code__ is b.__code__ and [c.cell_contents for c in ca] == [c.cell_contents for c in cb]
  except Exception:
    return a is b

def _equiv (g, a, b):
  """a and b execute on exactly the same normal paths"""
  return (g.dominates(a, b) and g.postdominates(b, a)) or (g.dominates(b, a) and g.postdominates(a, b))

def _tag_push (ctx, repo, sw, h, g, pkt):
  swmod = sw.module
  # inside `not isinstance(packet.payload, vlan)`: vl = vlan(); vl.eth_type = packet.type; vl.payload = packet.payload;
  # packet.type = VLAN_TYPE; packet.payload = vl  -- the two reads must precede the two overwrites
  new = [(t.id, st) for t, v, st, k in q.stores_in(h.node) if isinstance(t, ast.Name) and isinstance(v, ast.Call) and call_name(v) == 'vlan']
  if not new:
    ctx.bad('R-SIB', h, "tag push present", "handler no longer pushes a VLAN tag on untagged frames", h, 'D5'); return
  vl = new[0][0]
  def store (base, attr):
    return [st for t, v, st, k in q.stores_in(h.node) if isinstance(t, ast.Attribute) and t.attr == attr and norm(t.value) == base]
  s_et = store(vl, 'eth_type'); s_vp = store(vl, 'payload'); s_pt = store(pkt, 'type'); s_pp = store(pkt, 'payload')
  good = len(s_et) == 1 and len(s_vp) == 1 and len(s_pt) == 1 and len(s_pp) == 1
  if good:
    good = norm(s_et[0].value) == pkt + '.type' and norm(s_vp[0].value) == pkt + '.payload' and \
           norm(s_pt[0].value) in ('ethernet.VLAN_TYPE', '33024', '0x8100') and norm(s_pp[0].value) == vl
  ctx.ob('R-SIB', h, "tag push: new tag takes the frame's type and payload, frame type becomes 0x8100, payload relinked", good,
         "; ".join(norm(s) for s in s_et + s_vp + s_pt + s_pp) if good else "push sequence changed: %s" % [norm(s) for s in s_et + s_vp + s_pt + s_pp], h, 'D5')
  if not good: return
  n_et, n_vp, n_pt, n_pp = [q.enclosing_stmt_node(g, s[0]) for s in (s_et, s_vp, s_pt, s_pp)]
  g1 = n_et not in g.reachable(n_pt)
  ctx.ob('R-ORDER', h, "the frame's ethertype is copied into the tag before the frame type is overwritten", g1,
         "read precedes overwrite" if g1 else "`%s.type = VLAN_TYPE` runs before `%s.eth_type = %s.type`: the pushed tag's inner ethertype becomes 0x8100" % (pkt, vl, pkt), (swmod, s_et[0]), 'D5')
  g2 = n_vp not in g.reachable(n_pp)
  ctx.ob('R-ORDER', h, "the frame's payload is linked under the tag before the frame payload is replaced", g2,
         "read precedes overwrite" if g2 else "`%s.payload = %s` runs before `%s.payload = %s.payload`: the tag points to itself" % (pkt, vl, vl, pkt), (swmod, s_vp[0]), 'D5')
  fs = q.fact_strs(g, n_pt)
  gd = any('isinstance(%s.payload, vlan):falsy' % pkt in f for f in fs)
  ctx.ob('R-DOM', h, "a tag is pushed only on untagged frames", gd, "guarded" if gd else "facts %s" % fs, h, 'D5')
