"""C13 - every switch request answered once, with its xid, in order.

 D1 R-REG     every controller-originated message type has an _rx_ handler
              selected by the naming convention; every spec stats type has a
              _stats_ handler or falls to the BAD_STAT error
 D2 R-EFFECT  the six request kinds reply exactly once on every path (stats
              handlers partitioned by return value); no-reply kinds send no
              reply message
 D3 R-AGREE   reply class is the spec's answer, carries xid=<request>.xid;
              every send_error carries ofp=<request>
 D4 R-ORDER   handlers are synchronous (no generators, no deferral calls)
 D5 R-AGREE   error code belongs to the error type's family (spec table)
 D6 R-DOM     request-keyed dictionary lookups are guarded
 D7 R-DEF     names / locals in the handlers are defined
"""
import ast
from .. import q, ofreg, defs, switchq
from ..model import AnalysisError, calls_in, call_name, norm, kwarg, walk_no_nested

EXPLAIN = ("R-REG handler tables vs registered controller message types and spec stats types; R-EFFECT reply "
           "count per path (send/send_error, callee summaries, stats handlers partitioned by None/non-None return); "
           "R-AGREE reply class and xid=request.xid, send_error ofp=request, error code families; R-ORDER handlers "
           "synchronous; R-DOM request-keyed lookups guarded; R-DEF defined names. Decides these necessary "
           "conditions on all paths, not reply contents or behaviour through the byte connection.")

DEFER_CALLS = ('callLater', 'call_later', 'callDelayed', 'call_delayed', 'raiseLater', 'Timer', 'Task', 'start')

def run (ctx):
  ctx.explanation = EXPLAIN
  ctx.assumptions = ["handler tables are built by SoftwareSwitchBase.__init__'s naming convention (shape re-checked each run)",
                     "assert statements execute", "send()/send_error() are the only ways a reply leaves the switch"]
  repo = ctx.repo
  spec = ofreg.spec()
  sw = switchq.switch_class(repo)
  conv = switchq.convention_tables(repo)
  msgs = ofreg.messages(repo)
  swmod = sw.module
  weight = switchq.reply_weight(repo, sw, depth=2 if ctx.tier == 'quick' else 5)

  # ---- D1 registry ---------------------------------------------------------
  ctl = [m for m in msgs if m.controller]
  ctx.floor('controller-originated message types', len(ctl), 13)
  handlers = {}
  for m in ctl:
    h, hname = switchq.handler_for(sw, '_rx_', conv['_rx_'], m.name)
    ctx.ob('R-REG', sw.qual, "handler for %s" % m.name, h is not None,
           "%s handles %s" % (hname, m.name) if h else
           "no method %s: rx_message raises RuntimeError for %s instead of handling it" % (hname, m.name), sw, 'D1')
    if h is not None: handlers[m.name] = h; ctx.analysed(h)
  # spec says which types a controller may send
  by_val = dict((m.value, m) for m in msgs)
  for v in spec['controller_to_switch']:
    m = by_val.get(v)
    good = m is not None and m.controller
    ctx.ob('R-REG', swmod.short + ':rx_message', "spec type %d accepted from controller" % v, good,
           "registered as controller-originated (%s)" % (m.name if m else '?') if good else
           "OpenFlow type %d is controller-to-switch per spec but not registered with controller=True: no handler is installed" % v,
           (m.cls.module, m.cls.node) if m else sw, 'D1')
  # every _rx_ method must correspond to a controller-originated type (else the assert in __init__ fires)
  for name, f in sw.methods.items():
    if name.startswith('_rx_'):
      tname = conv['_rx_'] + name[4:].upper()
      m = [x for x in msgs if x.name == tname]
      if m and not m[0].controller:
        ctx.bad('R-REG', f, "handler for switch-originated type", "%s exists but %s is not controller-originated: __init__'s assertion fails for every switch" % (name, tname), f, 'D1')
  rxs = q.find_method(repo, sw, '_rx_stats_request', 'C13')
  stats_handlers = {}
  for sname, sval in spec['ofp_stats_types'].items():
    h, hname = switchq.handler_for(sw, '_stats_', conv['_stats_'], sname)
    if h is not None: stats_handlers[sname] = h; ctx.analysed(h)
  ctx.floor('stats handlers', len(stats_handlers), 6)

  # flow / aggregate statistics: the request's out_port is a filter unless it is OFPP_NONE (OpenFlow 1.0 5.3.5: "A value of
  # OFPP_NONE indicates no restriction") - evaluated: what the handler hands to the table for a physical port, for the
  # reserved ports and for OFPP_NONE
  P_ = spec['ofp_port']; n_f = 0
  for sname in ('OFPST_FLOW', 'OFPST_AGGREGATE'):
    h = stats_handlers.get(sname)
    if h is None: continue
    gh = q.cfg_of(h); op_ = h.params[1] if len(h.params) > 1 else 'ofp'
    tcall = lambda c: call_name(c) in ('flow_stats', 'aggregate_stats') and isinstance(c.func, ast.Attribute) and norm(c.func.value).endswith('table')
    sites_ = gh.nodes_with_call(tcall)
    if not sites_: ctx.undecided('R-AGREE', h, "out_port filter of %s" % sname, "table query not found", h, 'D4'); continue
    wrong = []; unknown = 0
    for pname, val, want in [('port 3', 3, 3), ('OFPP_NONE', P_['OFPP_NONE'], None)] + [(pn, P_[pn], P_[pn]) for pn in ('OFPP_CONTROLLER', 'OFPP_FLOOD', 'OFPP_ALL', 'OFPP_LOCAL', 'OFPP_IN_PORT', 'OFPP_TABLE') if pn in P_]:
      got = set()
      for p_, e_ in q.paths_under(repo, swmod, gh, q.Env({op_ + '.body.table_id': 0, op_ + '.body.out_port': val}), gh.entry, sites_, sw, limit=40):
        c_ = [c for c in q.node_calls(p_[-1]) if tcall(c)][0]
        a_ = kwarg(c_, 'out_port', 1)
        try: v_ = q.eval_env2(repo, swmod, a_, e_, sw) if a_ is not None else None
        except Exception: v_ = '?'
        got.add('?' if v_ is q.OPAQUE else v_)
      if not got or '?' in got: unknown += 1; continue
      if got != {want}: wrong.append((pname, sorted(got, key=str), want))
    n_f += 1
    if unknown:
      ctx.undecided('R-AGREE', h, "out_port filter of %s" % sname, "not evaluable for %d sample request(s)" % unknown, h, 'D4')
    else:
      ctx.ob('R-AGREE', h, "out_port filter of %s: every port value except OFPP_NONE restricts the reply" % sname, not wrong, "8 sample requests" if not wrong else
             "a %s request with out_port = %s queries the table with out_port %s (should be %s): the reply lists flows that do not output to that port - it does not carry the data the specification requires"
             % (sname, wrong[0][0], wrong[0][1], wrong[0][2]), h, 'D4')
  ctx.floor('flow/aggregate stats filters evaluated', n_f, 2)

  # ---- D2 reply exactly once ----------------------------------------------
  REQ = {}   # message name -> reply type value
  for k, v in spec['request_reply'].items():
    m = by_val.get(int(k))
    if m is None: raise AnalysisError("request type %s not registered" % k)
    REQ[m.name] = v
  ctx.floor('request kinds with a handler', len([n for n in REQ if n in handlers]), 6)
  for mname, h in sorted(handlers.items()):
    g = q.cfg_of(h)
    if mname == 'OFPT_STATS_REQUEST':
      _stats_request(ctx, repo, sw, h, stats_handlers, weight, spec)
      continue
    iv = g.interval(weight)
    if iv is None:
      ctx.undecided('R-EFFECT', h, "reply count", "no normal exit", h, 'D2'); continue
    if mname in REQ:
      good = iv == (1, 1)
      ctx.ob('R-EFFECT', h, "exactly one reply per %s" % mname, good,
             "every path sends exactly one reply/error" if good else
             "reply count over the handler's paths is in [%d,%s]: some path %s" % (iv[0], 'many' if iv[1] >= 2 else iv[1],
               "sends no reply (request left unanswered)" if iv[0] == 0 else "sends more than one reply"), h, 'D2')
    else:
      # no-reply kinds: no *reply message* (errors are allowed): count plain sends of reply classes
      replies = []
      for c in calls_in(h.node):
        if switchq.is_send(c) and c.args:
          replies.append(c)
      # sends that transmit a message whose class is a reply-to-request class
      badsend = []
      for c in replies:
        cl = _constructed_class(h.node, c.args[0])
        r = [m for m in msgs if cl and m.cls.name == cl]
        if r and r[0].value in spec['request_reply'].values(): badsend.append((c, cl))
      ctx.ob('R-EFFECT', h, "%s produces no reply message" % mname, not badsend,
             "no reply-class message is sent" if not badsend else
             "%s needs no reply but the handler sends %s" % (mname, badsend[0][1]), (swmod, badsend[0][0]) if badsend else h, 'D2')

  # ---- D2b nothing the handler evaluates eagerly on the request can definitely raise -------------------------------
  # (an exception before the reply is caught by the connection's read loop and the request stays unanswered).  The
  # request object's class is known from the handler naming convention; methods called on it are followed through the
  # codec module and pox.lib.util, looking for definite bytes/str type errors (R-BYTES).
  from .. import btypes
  lofm = repo.mod('openflow.libopenflow_01'); utilm = repo.mod('lib.util')
  def callees (f, cls_):
    out = []
    for c in calls_in(f.node, nested=True):
      if isinstance(c.func, ast.Attribute) and norm(c.func.value) == 'self' and cls_ is not None:
        m_ = cls_.find_method(c.func.attr)
        if m_ is not None: out.append((m_, cls_))
      elif isinstance(c.func, ast.Name):
        r_ = f.module.lookup(c.func.id)
        if hasattr(r_, 'node') and isinstance(getattr(r_, 'node', None), ast.FunctionDef): out.append((r_, None))
    return out
  def definite_error (f0, cls0):
    seen = set(); work = [(f0, cls0, [f0.qual])]
    while work:
      f, cl, chain = work.pop()
      if f.qual in seen or len(chain) > 6: continue
      seen.add(f.qual)
      sites = btypes.ord_of_bytes_elements(f.node)
      if sites: return chain, f, sites[0]
      for g_, c_ in callees(f, cl): work.append((g_, c_, chain + [g_.qual]))
    return None
  n_eager = 0
  for mname, h in sorted(handlers.items()):
    mcls = [m for m in msgs if m.name == mname][0].cls
    req = h.params[1] if len(h.params) > 1 else None
    if req is None: continue
    for c in calls_in(h.node):
      target = None
      if isinstance(c.func, ast.Attribute) and norm(c.func.value) == req: target = mcls.find_method(c.func.attr)
      elif isinstance(c.func, ast.Name) and c.func.id in ('str', 'repr') and c.args and norm(c.args[0]) == req: target = mcls.find_method('__str__') or mcls.find_method('show')
      if target is None: continue
      n_eager += 1
      hit = definite_error(target, mcls)
      ctx.ob('R-BYTES', h, "`%s` on the request cannot definitely raise before the reply" % norm(c)[:40], hit is None,
             "no definite type error on the call chain" if hit is None else
             "`%s` reaches %s via %s, where `%s` applies ord() to the elements of a bytes object (ints in Python 3): TypeError for any request with a non-empty body - "
             "the handler dies before answering and the request gets no reply" % (norm(c)[:40], hit[1].qual, " -> ".join(hit[0]), norm(hit[2])), (swmod, c), 'D2')
  ctx.stat('eager calls on the request object followed', n_eager)
  # ... and the printing methods (`show`) a handler evaluates eagerly - also those of the sub-objects it prints (`self.match.show()`) -
  # are total on values off the wire: no lookup `TABLE[self.<field>]` in a name table (KeyError for a value the table does not list),
  # and what is concatenated into the text is text: a formatter handed to a field printer returns str on every path
  def definitely_str (e, fnode, depth=0):
    if isinstance(e, ast.Constant): return isinstance(e.value, str)
    if isinstance(e, ast.JoinedStr): return True
    if isinstance(e, ast.IfExp): return definitely_str(e.body, fnode, depth) and definitely_str(e.orelse, fnode, depth)
    if isinstance(e, ast.BinOp) and isinstance(e.op, ast.Mod) and definitely_str(e.left, fnode, depth): return True
    if isinstance(e, ast.BinOp) and isinstance(e.op, ast.Add): return definitely_str(e.left, fnode, depth) or definitely_str(e.right, fnode, depth)
    if isinstance(e, ast.Call):
      nm_ = call_name(e)
      if nm_ in ('str', 'repr', 'hex', 'oct', 'bin', 'format', 'join', 'dpid_to_str', 'dpidToStr', 'hexdump'): return True
      tgt_ = None
      if isinstance(e.func, ast.Name):
        for x_ in ast.walk(fnode):
          if isinstance(x_, ast.FunctionDef) and x_.name == e.func.id and x_ is not fnode: tgt_ = x_
        if tgt_ is None:
          r_ = lofm.lookup(e.func.id)
          if hasattr(r_, 'node') and isinstance(getattr(r_, 'node', None), ast.FunctionDef): tgt_ = r_.node
      if tgt_ is not None and depth < 3:
        rs_ = [r_ for r_ in q.returns_of(tgt_) if r_.value is not None]
        return bool(rs_) and all(definitely_str(r_.value, tgt_, depth + 1) for r_ in rs_)
    return None if isinstance(e, (ast.Name, ast.Attribute, ast.Subscript, ast.Call)) else False
  shown = set(); n_show = 0
  for mname, h in sorted(handlers.items()):
    mcls = [m for m in msgs if m.name == mname][0].cls
    req = h.params[1] if len(h.params) > 1 else None
    if req is None: continue
    if not any(isinstance(c.func, ast.Attribute) and norm(c.func.value) == req and c.func.attr == 'show' for c in calls_in(h.node)): continue
    work = [mcls]
    while work:
      k_ = work.pop()
      sf_ = k_.find_method('show')
      if sf_ is None or sf_.qual in shown: continue
      shown.add(sf_.qual); n_show += 1; ctx.analysed(sf_)
      for x_ in ast.walk(sf_.node):
        # sub-objects printed through their own show(): self.<attr>.show(...)
        if isinstance(x_, ast.Call) and isinstance(x_.func, ast.Attribute) and x_.func.attr == 'show' and isinstance(x_.func.value, ast.Attribute) and norm(x_.func.value.value) == 'self':
          k2_ = lofm.classes.get('ofp_' + x_.func.value.attr)
          if k2_ is not None: work.append(k2_)
        if isinstance(x_, ast.Subscript) and isinstance(x_.ctx, ast.Load) and isinstance(x_.value, ast.Name) and not isinstance(x_.slice, ast.Slice) \
           and any(isinstance(a_, ast.Attribute) and norm(a_.value) == 'self' for a_ in ast.walk(x_.slice)) and not q.reaching_assign(sf_.node, x_.value.id) and x_.value.id not in sf_.params:
          gs2_ = q.cfg_of(sf_); sn_ = q.enclosing_stmt_node(gs2_, x_)
          fs_ = q.fact_strs(gs2_, sn_) if sn_ is not None else []
          guarded = any((' in %s' % x_.value.id) in f_ and 'not in' not in f_ for f_ in fs_) or (sn_ is not None and any(h_.ast.type is None or any(kk_ in norm(h_.ast.type) for kk_ in ('KeyError', 'LookupError', 'Exception')) for h_ in gs2_.handlers_for(sn_)))
          ctx.ob('R-CONTAIN', sf_, "printing a request cannot fail: `%s`" % norm(x_)[:40], guarded, "guarded" if guarded else
                 "%s evaluates `%s.show()` eagerly (as a log argument) before it acts on the request; `%s` raises KeyError for a field value the table does not list - such a request is neither carried out nor answered with an error"
                 % (h.qual, req, norm(x_)[:50]), (lofm, x_), 'D6')
      # formatters passed to a field printer: append(<field>, <formatter>)
      for c_ in [x_ for x_ in ast.walk(sf_.node) if isinstance(x_, ast.Call) and isinstance(x_.func, ast.Name) and len(x_.args) == 2 and isinstance(x_.args[1], ast.Name)]:
        fm_ = c_.args[1].id
        tgt_ = next((x_ for x_ in ast.walk(sf_.node) if isinstance(x_, ast.FunctionDef) and x_.name == fm_), None)
        if tgt_ is None:
          r_ = lofm.lookup(fm_); tgt_ = r_.node if hasattr(r_, 'node') and isinstance(getattr(r_, 'node', None), ast.FunctionDef) else None
        if tgt_ is None: continue
        def alts_ (e_):
          return alts_(e_.body) + alts_(e_.orelse) if isinstance(e_, ast.IfExp) else [e_]
        class _R(object):
          def __init__ (self, v, st): self.value = v; self.lineno = st.lineno; self.col_offset = st.col_offset
        rs_ = [_R(a_, r_) for r_ in q.returns_of(tgt_) if r_.value is not None for a_ in alts_(r_.value)]
        verdicts = [definitely_str(r_.value, sf_.node) for r_ in rs_]
        # only a formatter with at least one definitely-str return and one bare value (a parameter handed back) is a definite mix
        bare = [r_ for r_, v_ in zip(rs_, verdicts) if v_ is None and isinstance(r_.value, ast.Name) and r_.value.id in [a_.arg for a_ in tgt_.args.args]]
        if any(v_ is True for v_ in verdicts) and bare:
          ctx.bad('R-BYTES', sf_, "field formatter `%s` returns text on every path" % fm_,
                  "`%s` returns a string on one path and its argument unchanged (`return %s`) on another; the field printer concatenates the result to text: TypeError for an int field - %s evaluates `%s.show()` eagerly before acting, "
                  "so such a request is neither carried out nor answered" % (fm_, norm(bare[0].value), h.qual, req), (lofm, bare[0]), 'D6')
  ctx.stat('printing methods of requests followed', n_show)
  # send_error quotes the offending request by packing it again, and pack() starts with `assert self._assert()`: a request class whose
  # _validate() rejects a *value* of a wire field (a range test) turns every error reply for such a request into an AssertionError
  # inside the handler - the request is neither answered nor refused.  Validation of decoded requests looks at types and sizes only
  n_val = 0
  for mname, h in sorted(handlers.items()):
    mcls = [m for m in msgs if m.name == mname][0].cls
    vf = mcls.methods.get('_validate'); uf = mcls.find_method('unpack')
    if vf is None or uf is None: continue
    n_val += 1; ctx.analysed(vf)
    wire = set(t_.attr for t_, v_, st_, k_ in q.stores_in(uf.node) if isinstance(t_, ast.Attribute) and norm(t_.value) == 'self')
    gv_ = q.cfg_of(vf)
    for rn_ in [n_ for n_ in gv_.nodes if n_.kind == 'return' and n_.ast.value is not None and not (isinstance(n_.ast.value, ast.Constant) and n_.ast.value.value is None)]:
      for (l_, o_, r_, b_) in q.guard_facts(gv_, rn_):
        if r_ is None or o_ not in ('<', '<=', '>', '>='): continue
        fld = [x_.attr for side in (l_, r_) for x_ in ast.walk(side) if isinstance(x_, ast.Attribute) and norm(x_.value) == 'self' and x_.attr in wire]
        if not fld or any(isinstance(x_, ast.Call) and call_name(x_) == 'len' for side in (l_, r_) for x_ in ast.walk(side)): continue
        ctx.bad('R-AGREE', vf, "a decoded request can be packed again (no value-range rejection of `%s` in _validate)" % fld[0],
                "%s._validate() fails when `%s %s %s`, a value the decoder accepts from the wire; %s quotes the request in its error replies through send_error -> ofp.pack() -> assert self._assert(): for such a request the handler "
                "raises instead of answering - neither a reply nor an error leaves the switch" % (mcls.name, norm(l_), o_, norm(r_), h.qual), (lofm, rn_.ast), 'D6')
  ctx.stat('request classes with their own _validate', n_val)

  # the connection's send() encodes and writes at once: a reply queued as an object and encoded later would reflect
  # state changed by later requests of the same read (and a barrier reply could overtake earlier effects)
  ofcon = swmod.classes.get('OFConnection')
  if ofcon is not None and ofcon.find_method('send') is not None:
    cs_ = ofcon.find_method('send'); ctx.analysed(cs_); gs_ = q.cfg_of(cs_)
    wr = gs_.nodes_with_call(lambda c: call_name(c) == 'send' and isinstance(c.func, ast.Attribute) and 'io_worker' in norm(c.func.value))
    ctx.floor('OFConnection.send: write site', len(wr), 1)
    iv_ = gs_.interval(lambda n: n in wr)
    ctx.ob('R-EFFECT', cs_, "every send() is written to the IO worker before it returns", iv_ is not None and iv_[0] >= 1 and iv_[1] <= 1,
           "io_worker.send on every path, once" if iv_ is not None and iv_[0] >= 1 and iv_[1] <= 1 else
           "some path through OFConnection.send returns without writing (write count %s): the message is parked and encoded later - replies holding live objects (ports, counters) then show state "
           "produced by later requests, and reply order relative to effects is no longer the request order" % (iv_,), cs_, 'D5')
  # ---- D3 correlation ------------------------------------------------------
  for mname, h in sorted(handlers.items()):
    params = h.params
    if len(params) < 2: continue
    req = params[1]
    if mname in REQ:
      want = REQ[mname]
      found = 0
      for c in calls_in(h.node):
        cn = call_name(c)
        r = [m for m in msgs if m.cls.name == cn]
        if not r: continue
        m = r[0]
        if not m.switch: continue
        found += 1
        good = m.value == want
        ctx.ob('R-AGREE', h, "reply class for %s" % mname, good,
               "%s (type %d) is the spec's reply" % (cn, m.value) if good else
               "%s is answered with %s (type %s) but the spec's reply is type %d" % (mname, cn, m.value, want), (swmod, c), 'D3')
        x = kwarg(c, 'xid')
        good = x is not None and norm(x) == req + '.xid'
        if not good:
          # xid may be assigned after construction: <var>.xid = req.xid
          var = _assigned_name(h.node, c)
          if var:
            for t, v, st, k in q.stores_in(h.node):
              if isinstance(t, ast.Attribute) and t.attr == 'xid' and norm(t.value) == var and v is not None and norm(v) == req + '.xid':
                good = True
        ctx.ob('R-AGREE', h, "reply to %s carries the request's xid" % mname, good,
               "xid=%s.xid" % req if good else
               "%s(...) is built with xid=%s instead of %s.xid: the controller cannot correlate the reply" % (cn, norm(x), req),
               (swmod, c), 'D3')
        # the constructed message is what is sent
        var = _assigned_name(h.node, c)
        sent = [s for s in calls_in(h.node) if switchq.is_send(s) and s.args and (norm(s.args[0]) == var or s.args[0] is c)]
        ctx.ob('R-AGREE', h, "the constructed reply is the message sent", bool(sent),
               "self.send(%s)" % var if sent else "reply object %s is constructed but a different object is sent" % var, (swmod, c), 'D3')
        if mname == 'OFPT_ECHO_REQUEST':
          b = kwarg(c, 'body')
          good = b is not None and norm(b) == req + '.body'
          ctx.ob('R-AGREE', h, "echo reply returns the request's payload", good,
                 "body=%s.body" % req if good else "echo reply is built with body=%s, the spec requires the unmodified request payload" % norm(b), (swmod, c), 'D3')
      if not found and mname != 'OFPT_STATS_REQUEST':
        ctx.undecided('R-AGREE', h, "reply class for %s" % mname, "no reply constructor found in the handler", h, 'D3')
  # send_error carries ofp=<request>
  n_err = 0
  scan = list(handlers.values()) + list(stats_handlers.values()) + [f for n, f in sw.methods.items() if n.startswith('_flow_mod_')]
  pa = sw.find_method('_process_actions_for_packet')
  if pa: scan.append(pa)
  seen = set()
  for f in scan:
    if f.qual in seen: continue
    seen.add(f.qual)
    ps = f.params[1:]
    for c in calls_in(f.node):
      if not switchq.is_send_error(c): continue
      n_err += 1
      o = kwarg(c, 'ofp', 2)
      good = o is not None and isinstance(o, ast.Name) and o.id in ps
      ctx.ob('R-AGREE', f, "error carries the offending request (`%s`)" % norm(c)[:60], good,
             "ofp=%s" % norm(o) if good else "send_error is called with ofp=%s: the error carries no / a wrong xid and data" % norm(o), (swmod, c), 'D3')
      # D5 family
      t = kwarg(c, 'type', 0); cd = kwarg(c, 'code', 1)
      _family(ctx, repo, swmod, f, c, t, cd, spec)
      # nothing on the way to the error reply may fail on the very value that is being rejected: a lookup `TABLE[<field of the
      # request>]` in a name table raises KeyError for exactly the unknown values this path exists for (the error is never sent)
      gf_ = q.cfg_of(f); en_ = q.enclosing_stmt_node(gf_, c)
      if en_ is not None:
        for n_ in gf_.nodes:
          if n_.ast is None or n_.kind in ('def', 'branch', 'handler', 'join') or not (n_ is en_ or gf_.dominates(n_, en_, exc=False)): continue
          for x_ in (walk_no_nested(n_.ast) if not isinstance(n_.ast, (ast.If, ast.While, ast.For, ast.Try, ast.With)) else []):
            if not (isinstance(x_, ast.Subscript) and isinstance(x_.ctx, ast.Load) and isinstance(x_.value, ast.Name) and not isinstance(x_.slice, ast.Slice)): continue
            if x_.value.id in f.params or q.reaching_assign(f.node, x_.value.id): continue          # a local / parameter, not a module-level table
            keyed = [a_ for a_ in ast.walk(x_.slice) if isinstance(a_, ast.Attribute) and isinstance(a_.value, ast.Name) and a_.value.id in ps]
            if not keyed: continue
            fs_ = q.fact_strs(gf_, n_)
            guarded = any((' in %s' % x_.value.id) in f_ and 'not in' not in f_ for f_ in fs_) or any(h_.ast.type is None or any(k_ in norm(h_.ast.type) for k_ in ('KeyError', 'LookupError', 'Exception')) for h_ in gf_.handlers_for(n_))
            ctx.ob('R-CONTAIN', f, "the lookup `%s` on the way to the error reply cannot fail" % norm(x_)[:40], guarded, "guarded" if guarded else
                   "`%s` is evaluated before `%s` with a key taken from the request: for a value the table does not list - which is what this error path is for - it raises KeyError, the handler fails and no error "
                   "(nor any reply) is sent for the request" % (norm(x_)[:50], norm(c)[:40]), (swmod, x_), 'D6')
  ctx.floor('send_error sites', n_err, 6)
  # send_error itself: xid from ofp, one send
  se = q.find_method(repo, sw, 'send_error', 'C13')
  ctx.analysed(se)
  g = q.cfg_of(se)
  sends = g.nodes_with_call(switchq.is_send)
  iv = g.interval(lambda n: n in sends)
  ctx.ob('R-EFFECT', se, "send_error transmits exactly one message", iv == (1, 1), "send count %s" % (iv,), se, 'D2')
  # decided by evaluation: with ofp.xid = 4242 the object handed to send() has xid 4242 on every path
  okx = bool(sends)
  seen_vals = []
  for sn in sends:
    c = [c for c in q.node_calls(sn) if switchq.is_send(c)][0]
    if not c.args: okx = False; continue
    e_ = ast.Attribute(value=c.args[0], attr='xid', ctx=ast.Load())
    vals = q.values_at(repo, swmod, g, q.Env({'ofp': '<request>', 'ofp.xid': 4242}, [((lambda x: isinstance(x, ast.Call) and call_name(x) == 'pack'), b'<packed>')]), sn, e_, sw)
    seen_vals.append(sorted(map(str, vals)))
    if vals != {4242}: okx = None if (okx is not False and all(v_ in (4242, '?') for v_ in vals)) else False
  ctx.ob('R-AGREE', se, "error message takes the xid of the offending request", okx,
         "with ofp.xid = 4242 the sent error has xid 4242" if okx else "with ofp.xid = 4242 the error handed to send() has xid %s: the controller cannot pair the error with its request" % seen_vals, se, 'D3')
  # ... and its data are the request's own bytes: the request re-serialised (ofp.pack()), or bytes kept on the request object
  # by the byte connection - those must then be cut to the message (the receive buffer also holds what follows it)
  srcs = []
  for t, v, st, k in q.stores_in(se.node):
    if isinstance(t, ast.Attribute) and t.attr == 'data' and v is not None: srcs.append(v)
  for c in calls_in(se.node):
    if call_name(c) == 'ofp_error' and kwarg(c, 'data') is not None:
      v = kwarg(c, 'data')
      if isinstance(v, ast.Name):
        for d_, st_, k_ in q.reaching_assign(se.node, v.id):
          if d_ is not None: srcs.append(d_)
      else: srcs.append(v)
  kept = set()
  ofpp = se.params[3] if len(se.params) > 3 and se.params[3] == 'ofp' else 'ofp'
  for v in srcs:
    for x in ast.walk(v):
      if isinstance(x, ast.Attribute) and norm(x.value) == ofpp and x.attr not in ('pack', 'xid') and isinstance(x.ctx, ast.Load): kept.add(x.attr)
      if isinstance(x, ast.Call) and call_name(x) == 'getattr' and len(x.args) >= 2 and norm(x.args[0]) == ofpp and isinstance(x.args[1], ast.Constant): kept.add(x.args[1].value)
  for attr in sorted(kept):
    whole = []; cut = 0
    for f_ in [m_ for c_ in swmod.classes.values() for m_ in c_.methods.values()]:
      gf = None
      for t, v, st, k in q.stores_in(f_.node):
        if not (isinstance(t, ast.Attribute) and t.attr == attr and isinstance(t.value, ast.Name) and t.value.id != 'self') or v is None: continue
        gf = gf or q.cfg_of(f_)
        vs = [v]
        if isinstance(v, ast.Name):
          vs = [d_ for d_, st_, k_ in q.reaching_assign(f_.node, v.id) if d_ is not None] or [v]
        for vv in vs:
          if isinstance(vv, ast.Call) and call_name(vv) in ('peek', 'peek_receive_buf', 'recv', 'read') : whole.append((f_, st, vv))
          elif isinstance(vv, ast.Subscript) and isinstance(vv.slice, ast.Slice): cut += 1
    if whole:
      f_, st, vv = whole[0]
      ctx.bad('R-AGREE', se, "error data taken from `%s.%s` is the offending request only" % (ofpp, attr),
              "send_error echoes `%s.%s`, and %s stores there `%s` - everything in the receive buffer, not the one message: an error for a request that arrived together with later bytes carries those bytes too "
              "(and with enough of them the error's length overflows and the request gets no answer)" % (ofpp, attr, f_.qual, norm(st)[:50]), (swmod, st), 'D3')
    else:
      ctx.ob('R-AGREE', se, "error data taken from `%s.%s` is the offending request only" % (ofpp, attr), True if cut else None, "stored as a slice of the buffer" if cut else "no store of this attribute found", se, 'D3')
  # errors in OFConnection._error_handler
  ofc = repo.cls(switchq.SW, 'OFConnection')
  eh = ofc.find_method('_error_handler')
  if eh is not None:
    ctx.analysed(eh)
    for c in calls_in(eh.node):
      if call_name(c) == 'ofp_error':
        _family(ctx, repo, swmod, eh, c, kwarg(c, 'type'), kwarg(c, 'code'), spec)

  # error replies generated by the byte connection are built from the offending
  # message: _error_handler peeks the receive buffer for xid/data, so it must run
  # before that message is consumed
  rd = ofc.find_method('read')
  if eh is not None and rd is not None:
    ctx.analysed(rd)
    peeks = [c for c in calls_in(eh.node) if call_name(c) == 'peek']
    g = q.cfg_of(rd)
    ehs = g.nodes_with_call(lambda c: call_name(c) == '_error_handler')
    cons = g.nodes_with_call(lambda c: call_name(c) == 'consume_receive_buf')
    heads = [h for (st, h, a) in g.loop_nodes]
    ctx.floor('byte-connection error sites', len(ehs), 3)
    # constant-argument specialisation: which `reason` values lead to a peek
    eg = q.cfg_of(eh)
    peek_reasons = set(); unknown_peek = False
    for pn in eg.nodes_with_call(lambda c: call_name(c) == 'peek'):
      rs = [norm(r).split('.')[-1] for l, o, r, b in q.guard_facts(eg, pn) if r is not None and o == '==' and norm(l) == eh.params[1]]
      if rs: peek_reasons.update(rs)
      else: unknown_peek = True
    if peeks:
      for e in ehs:
        c0 = [c for c in q.node_calls(e) if call_name(c) == '_error_handler'][0]
        reason = norm(c0.args[0]).split('.')[-1] if c0.args else None
        if not unknown_peek and reason not in peek_reasons:
          ctx.ok('R-ORDER', rd, "error for `%s` is built while the offending message is still in the buffer" % norm(e.ast)[:60],
                 "_error_handler does not read the buffer for reason %s" % reason, (rd.module, e.ast), 'D3')
          continue
        stale = [c for c in cons if e in g.reachable(c, avoid=heads)]
        ctx.ob('R-ORDER', rd, "error for `%s` is built while the offending message is still in the buffer" % norm(e.ast)[:60], not stale,
               "no consume precedes the error handler in the same iteration" if not stale else
               "consume_receive_buf (line %s) runs before _error_handler, which takes the error's xid and data from "
               "io_worker.peek(): the error carries the *next* message's xid/bytes (or none)" % stale[0].line,
               (rd.module, e.ast), 'D3')

  # the request travels with the work: a helper that takes the request (`ofp`, used for the xid of error replies) gets the
  # caller's request whenever the caller has one
  n_thr = 0
  for m_ in sw.methods.values():
    if 'ofp' not in m_.params: continue
    for c in calls_in(m_.node):
      if not (isinstance(c.func, ast.Attribute) and norm(c.func.value) == 'self'): continue
      cal = sw.find_method(call_name(c))
      if cal is None or 'ofp' not in cal.params or any(isinstance(a, ast.Starred) for a in c.args) or any(k.arg is None for k in c.keywords): continue
      i = cal.params.index('ofp') - 1
      a = c.args[i] if i < len(c.args) else None
      for k in c.keywords:
        if k.arg == 'ofp': a = k.value
      n_thr += 1
      good = a is not None and norm(a) == 'ofp'
      ctx.ob('R-AGREE', m_, "`%s` receives the request being served" % norm(c)[:50], good, "ofp=ofp" if good else
             "%s has the request in `ofp` but calls %s with ofp=%s: an error raised while the helper works (bad action, bad port) is sent with xid 0 and without the request's bytes - "
             "the controller cannot match it to its request" % (m_.name, cal.name, norm(a) if a is not None else 'omitted (default None)'), (swmod, c), 'D3')
  ctx.floor('request hand-over sites', n_thr, 2)
  # a flow-mod that is acceptable gets no error: replacing an entry in a full table is acceptable
  switchq.capacity_after_removal(ctx, repo, sw, 'D2')
  # ---- D4 synchronous ------------------------------------------------------
  for f in scan + [sw.find_method('rx_message'), se, sw.find_method('send')]:
    if f is None: continue
    gen = q.is_generator(f.node)
    dcalls = [c for c in calls_in(f.node, nested=True) if call_name(c) in DEFER_CALLS and call_name(c) not in ('start',)]
    good = not gen and not dcalls
    ctx.ob('R-ORDER', f, "handler runs synchronously", good,
           "not a generator, no deferral" if good else
           ("handler is a generator: its body (and reply) runs later, out of request order" if gen else
            "handler defers work with %s(): a reply/effect may be overtaken by later messages (barrier ordering)" % call_name(dcalls[0])),
           f, 'D4')

  # ---- D6 request-keyed lookups -------------------------------------------
  for f in list(handlers.values()) + list(stats_handlers.values()):
    ps = f.params[1:2]
    if not ps: continue
    taint = switchq.tainted_locals(f.node, ps)
    g = q.cfg_of(f)
    for n in walk_no_nested(f.node):
      if isinstance(n, ast.Subscript) and isinstance(n.ctx, ast.Load) and q.is_self_attr(n.value):
        idx = n.slice
        if not (q.names_in(idx) & taint): continue
        d = norm(n.value); key = norm(idx)
        cn = q.enclosing_stmt_node(g, n)
        if cn is None: continue
        facts = q.fact_strs(g, cn)
        guarded = ("%s in %s" % (key, d)) in facts
        if not guarded:
          # inside a try with a handler for KeyError / catch-all in this function
          hs_ = [h for h in g.handlers_for(cn) if h.kind == 'handler']
          guarded = bool(hs_) and (not g.raises_out(cn) or any(h.ast.type is not None and any(nm in norm(h.ast.type) for nm in ('KeyError', 'LookupError', 'Exception')) for h in hs_))
        ctx.ob('R-DOM', f, "lookup %s[%s] keyed by the request" % (d, key), guarded,
               "guarded by membership test / try" if guarded else
               "%s[%s] is indexed with a value taken from the request without a membership test: an unknown key raises "
               "KeyError out of the handler - the request gets no reply at all (facts: %s)" % (d, key, facts),
               (swmod, n), 'D6')

  # ---- D7 definiteness -----------------------------------------------------
  dset = scan + [se, sw.find_method('rx_message'), sw.find_method('send'), eh]
  for f in dset:
    if f is None: continue
    for nm, node in defs.undefined_names(repo, f):
      ctx.bad('R-DEF', f, "undefined name `%s`" % nm, "name `%s` is not defined in this scope, the module, its imports or builtins: NameError on this path instead of the reply" % nm, (f.module, node), 'D7')
    for nm, node, path in defs.use_before_def(f):
      ctx.bad('R-DEF', f, "local `%s` used before assignment" % nm, "a feasible path reaches this use of `%s` with no prior assignment (lines %s)" % (nm, path), (f.module, node), 'D7', path=path)
    ctx.ok('R-DEF', f, "names defined", "scanned", f, 'D7')
  # thorough: overrides of send() must accept the connection= keyword send_error passes
  if ctx.tier == 'thorough':
    base_send = sw.find_method('send')
    for sub in repo.subclasses(sw):
      s = sub.methods.get('send')
      if s is None: continue
      for c in calls_in(se.node):
        if switchq.is_send(c):
          good = defs.arity_ok(s, c)
          ctx.ob('R-DEF', s, "override of send() accepts send_error's call `%s`" % norm(c), good,
                 "compatible" if good else "%s.send%s cannot bind the call %s made by send_error: every error reply of this switch raises TypeError" % (sub.name, tuple(s.params), norm(c)), s, 'D7')
  # ---- D9 statistics are answered from the table as it is now: whatever the table remembers about earlier queries is reset by every change
  from .. import caches
  ftm_ = repo.mod('openflow.flow_table')
  caches.check(ctx, repo, [ftm_.classes['FlowTable']] if ftm_ is not None and 'FlowTable' in ftm_.classes else [], 'D9', "a flow / aggregate statistics request is answered with flows that no longer match (or without flows that now do)")
  # ---- D8 a request the decoder gives up on is an invalid request: it is refused with an error, the connection is kept --------------
  # (libopenflow's unpackers assert / underrun when the lengths inside a message do not add up - a get-config or barrier request
  # whose header says 12.  An exception that leaves read() makes the I/O worker close the connection: "a dropped connection".)
  from .. import framing
  rf = repo.func('datapaths.switch:OFConnection.read'); ctx.analysed(rf)
  L = framing.find_loop(repo, rf); g = L.g
  ctx.floor('switch read loop: decode site', len(L.decode), 1)
  for n, c in L.decode:
    hs_ = g.handlers_for(n)
    wide = [h_ for h_ in hs_ if h_.ast.type is None or any(nm_ in ('Exception', 'BaseException') for nm_ in ([norm(e_) for e_ in h_.ast.type.elts] if isinstance(h_.ast.type, ast.Tuple) else [norm(h_.ast.type)]))]
    good = bool(wide) and not g.raises_out(n)
    ctx.ob('R-CONTAIN', rf, "a failing decode of a request does not leave the read loop", good, "caught by `%s`" % wide[0].text(40) if good else
           "`%s` is not inside a try that catches the decoder's AssertionError / UnderrunError / struct.error: a request whose lengths do not add up (a get-config request with length 12 in its header) "
           "raises out of read(), the I/O worker closes the connection - the invalid request gets a dropped connection instead of OFPET_BAD_REQUEST" % norm(c)[:50], (rf.module, c), 'D8')
    if not good: continue
    def hookN (call, env=None): return (True, None) if call_name(call) == '_error_handler' else (False, None)
    for h_ in wide:
      ps_ = q.paths_under(repo, rf.module, g, q.Env({L.wlen: 12}, [], hookN), h_, [L.head, L.after, g.exit, g.raise_exit], rf.cls, limit=200, track_start=True)
      if not ps_ or len(ps_) >= 200:
        ctx.undecided('R-EFFECT', rf, "an undecodable request is refused with an error", "paths from the handler could not be enumerated", (rf.module, h_.ast), 'D8'); continue
      silent = [p_ for p_, e_ in ps_ if not any(any(call_name(c_) in ('_error_handler', 'send_error', 'close') for c_ in q.node_calls(x_)) for x_ in p_)]
      again = [p_ for p_, e_ in ps_ if p_[-1] is L.head and not any(x_ in [a_[0] for a_ in L.advance] for x_ in p_)]
      ctx.ob('R-EFFECT', rf, "an undecodable request is refused with an error and skipped", not silent and not again,
             "%d path(s) from the handler, all through the error handler and a consume" % len(ps_) if not silent and not again else
             ("after the decoder failed a path goes on without calling the error handler: the request is neither answered nor refused" if silent else
              "after the decoder failed a path returns to the loop head without consuming the message: it is decoded again, forever"), (rf.module, h_.ast), 'D8')
  # ---- mechanisms this property shares with others: their checks' rules about these functions are obligations here too
  ctx.include('C02', ['OFConnection.read'], 'requests reach the handlers through the switch-side read loop')

def _stats_request (ctx, repo, sw, h, stats_handlers, weight, spec):
  swmod = sw.module
  g = q.cfg_of(h)
  # locate the dynamic handler call: <var> = handler(...)
  dyn = None
  for t, v, st, k in q.stores_in(h.node):
    if isinstance(v, ast.Call) and isinstance(v.func, ast.Name) and isinstance(t, ast.Name):
      d = q.single_def(h.node, v.func.id)
      if d is not None and 'stats_handlers' in norm(d):
        dyn = (t.id, v, st, v.func.id)
  if dyn is None:
    ctx.undecided('R-EFFECT', h, "stats dispatch", "dynamic stats handler call not recognised", h, 'D2'); return
  body, call, st, hv = dyn
  dn = q.enclosing_stmt_node(g, st)
  # (a) unknown type: handler None -> exactly one BAD_STAT error and return before the dynamic call
  facts_at_call = q.fact_strs(g, dn)
  good = ("%s is not None" % hv) in facts_at_call
  ctx.ob('R-DOM', h, "stats handler is called only when one exists", good,
         "call dominated by `%s is not None`" % hv if good else "the stats handler variable may be None at the call (facts %s)" % facts_at_call, (swmod, st), 'D1')
  # error path: region where handler is None
  none_br = [b for b in g.nodes if b.kind == 'branch' and norm(b.label[0]) == '%s is None' % hv and b.label[1] is True]
  if none_br:
    iv = g.interval(weight, start=none_br[0])
    good = iv == (1, 1)
    errs = [c for c in calls_in(h.node) if switchq.is_send_error(c)]
    code_ok = any(norm(kwarg(c, 'code', 1)) == 'OFPBRC_BAD_STAT' and norm(kwarg(c, 'type', 0)) == 'OFPET_BAD_REQUEST' for c in errs)
    ctx.ob('R-EFFECT', h, "unsupported stats type answered with exactly one error", good and code_ok,
           "one BAD_REQUEST/BAD_STAT error then return" if good and code_ok else
           "unknown stats type path: reply count %s, BAD_STAT error present: %s" % (iv, code_ok), h, 'D2')
  else:
    ctx.undecided('R-EFFECT', h, "unsupported stats type answered with exactly one error", "no `handler is None` branch found", h, 'D2')
  # (b) after the call: reply iff body is not None
  sends = [n for n in g.nodes_with_call(switchq.is_send)]
  after = g.reachable(dn)
  sends_after = [s for s in sends if s in after]
  goodg = bool(sends_after) and all(("%s is not None" % body) in q.fact_strs(g, s) for s in sends_after)
  iv_t = iv_f = None
  tb = [b for b in g.nodes if b.kind == 'branch' and norm(b.label[0]) in ('%s is not None' % body, '%s is None' % body)]
  for b in tb:
    iv = g.interval(weight, start=b)
    notnone = b.label[1] if norm(b.label[0]).endswith('is not None') else (not b.label[1])
    if notnone: iv_t = iv
    else: iv_f = iv
  good = goodg and iv_t == (1, 1) and iv_f == (0, 0)
  ctx.ob('R-EFFECT', h, "stats reply sent iff the handler returned a body", good,
         "send guarded by `%s is not None`; exactly one send on that branch, none on the other" % body if good else
         "after the stats handler returns, reply counts are %s (body) / %s (no body); sends guarded: %s" % (iv_t, iv_f, goodg), h, 'D2')
  # reply construction
  for c in calls_in(h.node):
    if call_name(c) == 'ofp_stats_reply':
      req = h.params[1]
      for kw_, want in (('xid', req + '.xid'), ('type', req + '.type'), ('body', body)):
        v = kwarg(c, kw_)
        good = v is not None and norm(v) == want
        if not good and v is not None and kw_ in ('xid', 'type'):
          # through a local: decided by evaluation with distinct tokens for the request's fields
          cn_ = q.enclosing_stmt_node(g, c)
          tok = {req + '.xid': '<request xid>', req + '.type': '<request type>'}
          good = q.values_at(repo, swmod, g, q.Env(tok), cn_, v, sw) == {tok[want]}
        ctx.ob('R-AGREE', h, "stats reply %s" % kw_, good, "%s=%s" % (kw_, want) if good else
               "ofp_stats_reply is built with %s=%s, expected %s" % (kw_, norm(v), want), (swmod, c), 'D3')
  # (c) each stats handler: value-returning paths send nothing, None-returning paths send exactly one error
  for sname, f in sorted(stats_handlers.items()):
    fg = q.cfg_of(f)
    rets = switchq.returns_classified(f.node)
    ret_nodes = {}
    for r, kind in rets:
      n = q.enclosing_stmt_node(fg, r)
      if n is not None: ret_nodes[n] = kind
    for n, kind in ret_nodes.items():
      iv = fg.interval(weight, stop=n)
      if iv is None: continue
      if kind == 'value':
        good = iv == (0, 0)
        why = "a path that returns a body has already sent %s message(s): the request is answered twice" % ('>=1' if iv[1] else 0)
      else:
        good = iv == (1, 1)
        why = "a path that returns None (no body) sent [%d,%d] errors: the request gets %s" % (iv[0], iv[1], "no answer" if iv[0] == 0 else "several answers")
      ctx.ob('R-EFFECT', f, "%s: `%s`" % (sname, norm(n.ast)[:50]), good,
             "reply count before this return is %s" % (iv,) if good else why, (f.module, n.ast), 'D2')
      # body shape: only the list-bodied statistics (flow, table, port, queue) may answer with a list; aggregate and
      # description replies carry exactly one fixed-size structure
      if kind == 'value' and ('OFPST_' + sname if not sname.startswith('OFPST_') else sname) not in spec['stats_reply_is_list']:
        v_ = n.ast.value
        is_list = isinstance(v_, (ast.List, ast.ListComp, ast.Tuple))
        ctx.ob('R-AGREE', f, "%s reply body is a single structure (`%s`)" % (sname, norm(n.ast)[:40]), not is_list,
               "not a list" if not is_list else
               "this path answers a %s request with the list `%s`: the reply body is then empty / a sequence, but the specification requires exactly one fixed-size reply structure - "
               "the controller's decoder underruns on it" % (sname, norm(v_)), (f.module, n.ast), 'D3')
    # implicit None (fall off the end)
    iv = fg.interval(weight, avoid=set(ret_nodes))
    if iv is not None:
      good = iv == (1, 1)
      ctx.ob('R-EFFECT', f, "%s: falling off the end (returns None)" % sname, good,
             "exactly one error was sent before" if good else
             "the handler can end without a return value after sending [%d,%d] messages: _rx_stats_request then sends no reply - the request gets %s" % (iv[0], iv[1], "no answer" if iv[0] == 0 else "several answers"),
             f, 'D2')

def _family (ctx, repo, swmod, f, c, t, cd, spec):
  if t is None or cd is None: return
  if isinstance(cd, ast.Name) and not norm(cd).isupper():
    # the code is carried in a local: judge every constant it can hold at the call
    g_ = q.cfg_of(f); n_ = q.enclosing_stmt_node(g_, c)
    pv = q.provenance(g_, n_, cd.id) if n_ is not None else []
    vals = [val for d_, kind, val in pv if kind == 'assign' and isinstance(val, (ast.Name, ast.Attribute)) and norm(val).split('.')[-1].isupper()]
    if pv and len(vals) == len(pv):
      for v_ in vals: _family(ctx, repo, swmod, f, c, t, v_, spec)
      return
    ctx.undecided('R-AGREE', f, "error family of `%s`" % norm(c)[:50], "the error code `%s` is not a constant and its origins are not all constants" % cd.id, (swmod, c), 'D5'); return
  tn, cn = norm(t), norm(cd)
  fam = spec['error_code_families'].get(tn)
  if fam is None:
    ctx.undecided('R-AGREE', f, "error family of `%s`" % norm(c)[:50], "error type %s is not a constant of the spec table" % tn, (swmod, c), 'D5'); return
  good = cn in fam
  tv = ofreg.const_value(repo, swmod, tn); cv = ofreg.const_value(repo, swmod, cn)
  if good and (tv != spec['ofp_error_type'][tn] or cv != fam[cn]):
    ctx.bad('R-AGREE', f, "error constant values %s/%s" % (tn, cn), "%s=%s, %s=%s in the code; spec says %s and %s" % (tn, tv, cn, cv, spec['ofp_error_type'][tn], fam[cn]), (swmod, c), 'D5')
    return
  ctx.ob('R-AGREE', f, "error code %s under %s" % (cn, tn), good,
         "code belongs to the type's family" if good else
         "error code %s does not belong to error type %s (its codes are %s): the controller decodes a different error" % (cn, tn, ", ".join(sorted(fam))), (swmod, c), 'D5')

def _constructed_class (fnode, e):
  if isinstance(e, ast.Call): return call_name(e)
  if isinstance(e, ast.Name):
    d = q.single_def(fnode, e.id)
    if isinstance(d, ast.Call): return call_name(d)
  return None

def _assigned_name (fnode, call):
  for t, v, st, k in q.stores_in(fnode):
    if v is call and isinstance(t, ast.Name): return t.id
  return None
