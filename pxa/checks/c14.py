"""C14 - packet headers survive build -> bytes -> parse (partial property, structural part).

 D1 R-LAYOUT  for every protocol class with a struct-based parse()/hdr() pair the fixed header has the same byte
              layout on both sides: same total size, every named field at the same offset with the same width
              and the same struct code (signedness)
 D2 R-AGREE   bit-fields: what hdr() packs from the fields is what parse() extracts - decided by constant
              evaluation of the pack / extract expressions over a sample domain derived from the extraction masks
 D3 R-ORDER   derived fields (lengths, checksums) are recomputed in hdr() before packing; the checksum is computed
              over a header with 0 in the checksum slot, at the same slot index as the real checksum
 D4 R-AGREE   pseudo-header skip words passed to checksum() equal (pseudo-header size + checksum offset)/2
 D5 R-BYTES   checksum() and the hdr()/parse() paths mix no str with bytes; checksum() folds the carry twice and
              pads an odd trailing byte
 D6 R-DOM     option walkers that have one-byte options admit a single remaining byte
"""
import ast, struct
from .. import q, defs, layout, btypes, progress
from ..model import AnalysisError, calls_in, call_name, norm, kwarg, walk_no_nested

EXPLAIN = ("R-LAYOUT parse vs hdr fixed-header byte layouts (offset, width, struct code per named field) for every struct-based "
           "protocol class; R-AGREE bit-field pack/extract expressions inverted on a sample domain by constant evaluation; R-ORDER "
           "derived fields recomputed before packing, checksum computed over a zeroed slot at the right index; R-AGREE pseudo-header "
           "skip words from format arithmetic; R-BYTES and carry-fold structure of checksum(); option-walker admits one-byte options. "
           "Decides these necessary conditions, not numeric checksum results or value round trips.")
PK = 'lib.packet'

def _fmt_layout (fmt):
  """[(offset, width, code)] for value fields"""
  order = fmt[0] if fmt and fmt[0] in '@=<>!' else ''
  out = []; pos = 0
  for code, w in layout.fmt_fields(fmt):
    if code != 'x': out.append((pos, w, code))
    pos += w
  return out, struct.calcsize(fmt)

def _name (e):
  if isinstance(e, ast.Attribute) and isinstance(e.value, ast.Name) and e.value.id == 'self': return e.attr
  return None

def _parse_items (repo, cls, f):
  """fixed header fields read by parse(): [(offset, width, code, name|None, target_ast)] for constant-offset struct reads"""
  out = []
  mod = cls.module
  for st in [n for n in ast.walk(f.node) if isinstance(n, ast.Assign) and isinstance(n.value, ast.Call)]:
    c = st.value
    if call_name(c) not in ('unpack', 'unpack_from') or not c.args: continue
    if not (isinstance(c.func, ast.Attribute) and norm(c.func.value) == 'struct'): continue
    fmt = repo.try_const(mod, c.args[0], cls)
    if not isinstance(fmt, str): continue
    base = None
    if call_name(c) == 'unpack' and len(c.args) == 2:
      a = c.args[1]
      if isinstance(a, ast.Subscript) and isinstance(a.slice, ast.Slice):
        lo = a.slice.lower
        base = 0 if lo is None else repo.try_const(mod, lo, cls)
      elif isinstance(a, ast.Name): base = 0
    elif call_name(c) == 'unpack_from':
      base = repo.try_const(mod, c.args[2], cls) if len(c.args) > 2 else 0
    if not isinstance(base, int): continue
    tg = st.targets[0]
    elts = list(tg.elts) if isinstance(tg, (ast.Tuple, ast.List)) else [tg]
    fields, size = _fmt_layout(fmt)
    if len(elts) != len(fields): continue
    for (off, w, code), t in zip(fields, elts):
      out.append((base + off, w, code, _name(t), t, st))
  # raw slices converted by address classes: self.dst = EthAddr(raw[:6])
  for st in [n for n in ast.walk(f.node) if isinstance(n, ast.Assign) and isinstance(n.value, ast.Call)]:
    c = st.value
    if call_name(c) in ('EthAddr', 'IPAddr', 'IPAddr6') and c.args and isinstance(c.args[0], ast.Subscript) and isinstance(c.args[0].slice, ast.Slice) and norm(c.args[0].value) == 'raw':
      sl = c.args[0].slice
      lo = 0 if sl.lower is None else repo.try_const(mod, sl.lower, cls); hi = repo.try_const(mod, sl.upper, cls) if sl.upper is not None else None
      nm = _name(st.targets[0])
      if isinstance(lo, int) and isinstance(hi, int) and nm: out.append((lo, hi - lo, 's', nm, st.targets[0], st))
  return sorted(out, key=lambda x: x[0])

def _hdr_items (repo, cls, f):
  """fields written by the struct.pack whose result hdr() returns first: [(offset, width, code, name|None, arg_ast)], total"""
  mod = cls.module
  rets = [r for r in q.returns_of(f.node) if r.value is not None]
  packs = [c for c in calls_in(f.node) if call_name(c) == 'pack' and isinstance(c.func, ast.Attribute) and norm(c.func.value) == 'struct' and c.args]
  if not packs: return None, None, None
  # choose the pack call that produces the returned header: the one mentioned in (or assigned to a name mentioned first in) a return value
  def leading (e):
    while isinstance(e, ast.BinOp) and isinstance(e.op, ast.Add): e = e.left
    return e
  def terms (e):
    if isinstance(e, ast.BinOp) and isinstance(e.op, ast.Add): return terms(e.left) + terms(e.right)
    return [e]
  def as_pack (e):
    if isinstance(e, ast.Call) and e in packs: return e
    if isinstance(e, ast.Name):
      defs_ = [v for v, st, k in q.reaching_assign(f.node, e.id) if k == 'assign']
      if len(defs_) == 1 and defs_[0] is not None:
        ts = terms(defs_[0])
        if len(ts) == 1 and isinstance(ts[0], ast.Call) and ts[0] in packs: return ts[0]
    return None
  seq = []
  for r in rets:
    ts = terms(r.value)
    # a returned name defined as a concatenation: expand once
    if len(ts) >= 1 and isinstance(ts[0], ast.Name) and as_pack(ts[0]) is None:
      defs_ = [v for v, st, k in q.reaching_assign(f.node, ts[0].id) if k == 'assign']
      if len(defs_) == 1 and defs_[0] is not None: ts = terms(defs_[0]) + ts[1:]
    cur = []
    for t_ in ts:
      pc = as_pack(t_)
      if pc is None: break
      cur.append(pc)
    if cur and len(cur) >= len(seq): seq = cur
  if not seq: seq = [packs[-1]]
  out = []; base = 0
  for pc in seq:
    fmt = repo.try_const(mod, pc.args[0], cls)
    if not isinstance(fmt, str): return None, None, None
    if out and fmt[:1] not in '!><=@' + ''.join([]): pass
    fields, size = _fmt_layout(fmt)
    args = list(pc.args[1:])
    if len(args) != len(fields): return None, None, None
    out += [(base + off, w, code, _name(a), a) for (off, w, code), a in zip(fields, args)]
    base += size
  return out, base, seq[0]

def run (ctx):
  ctx.explanation = EXPLAIN
  ctx.assumptions = ["struct format semantics of CPython", "parse() reads the fixed header with constant offsets (others are undecided)"]
  repo = ctx.repo
  mods = [m for n, m in sorted(repo.modules.items()) if n.startswith('pox.lib.packet.')]
  n_pairs = 0; n_bf = 0
  hook = None
  for mod in mods:
    for cls in mod.classes.values():
      pf = cls.methods.get('parse'); hf = cls.methods.get('hdr')
      if hf is None and pf is not None and 'pack' in cls.methods and mod.name.endswith('.lldp'): hf = cls.methods.get('pack')      # TLV classes: parse()/pack() pairs
      if pf is None or hf is None: continue
      P = _parse_items(repo, cls, pf)
      H, hsize, hcall = _hdr_items(repo, cls, hf)
      if not P or not H:
        ctx.undecided('R-LAYOUT', cls.qual, "parse/hdr fixed header layout", "no constant-offset struct read / header pack found", cls, 'D1'); continue
      ctx.analysed(pf); ctx.analysed(hf); n_pairs += 1
      # restrict parse items to the fixed header (offsets below the packed header size)
      Pf = [x for x in P if x[0] < hsize]
      pmax = max(o + w for o, w, c, n, t, s in Pf) if Pf else 0
      pn = dict((n, (o, w, c)) for o, w, c, n, t, s in Pf if n)
      hn = dict((n, (o, w, c)) for o, w, c, n, a in H if n)
      common = sorted(set(pn) & set(hn), key=lambda k: pn[k][0])
      bad = False
      for n in common:
        good = pn[n][:2] == hn[n][:2]
        if not good: bad = True
        ctx.ob('R-LAYOUT', cls.qual, "field `%s` sits at the same bytes in parse() and hdr()" % n, good,
               "offset %d, %d byte(s)" % pn[n][:2] if good else
               "parse() reads `%s` at offset %d (%d bytes) but hdr() writes it at offset %d (%d bytes): a built packet parses into different field values" % (n, pn[n][0], pn[n][1], hn[n][0], hn[n][1]), (mod, hcall), 'D1')
        if good:
          cg = pn[n][2].lower() == hn[n][2].lower() and (pn[n][2] == hn[n][2] or pn[n][2] in 'sp' or hn[n][2] in 'sp')
          ctx.ob('R-AGREE', cls.qual, "field `%s` uses the same struct code on both sides" % n, cg,
                 "code %s" % pn[n][2] if cg else "parse() reads `%s` as '%s' but hdr() packs it as '%s': values with the top bit set parse fine but cannot be re-serialised (struct.error)" % (n, pn[n][2], hn[n][2]), (mod, hcall), 'D1')
      if not common:
        ctx.undecided('R-LAYOUT', cls.qual, "named fields at equal offsets", "no field is named on both sides", cls, 'D1')
      # size: the parse-side fixed reads must not extend beyond / fall short of the header written (when parse reads one block)
      blocks = set(id(s) for o, w, c, n, t, s in Pf)
      if len(blocks) == 1 and all(x in Pf for x in P[:len(Pf)]):
        good = pmax == hsize or pmax < hsize and any(o + w == pmax for o, w, c, n, a in H)
        ctx.ob('R-LAYOUT', cls.qual, "parse() and hdr() agree on the fixed header size", pmax == hsize, "%d bytes" % hsize if pmax == hsize else
               "parse() reads a %d byte header, hdr() writes %d bytes" % (pmax, hsize), (mod, hcall), 'D1') if pmax == hsize or len(H) == len(Pf) else None
      # ---- D2 bit-fields -------------------------------------------------------------------------
      # item boundaries: parse() and the serialiser cut the fixed header at the same places (a 16-bit composite read as
      # two bytes - or the reverse - silently drops the bits that straddle the byte boundary)
      # (only when parse() reads each header byte with one statement: version-dependent alternative formats are not compared)
      alt = any(sa is not sb and oa < ob + wb and ob < oa + wa for (oa, wa, ca, na, ta, sa) in Pf for (ob, wb, cb, nb, tb, sb) in Pf)
      pb = sorted(set((o, w) for o, w, c_, n_, t_, s_ in Pf if c_ != 's')) if not alt else []
      hb = sorted(set((o, w) for o, w, c_, n_, a_ in H if c_ not in ('s', 'x')))
      common_end = min(max([o + w for o, w in pb] or [0]), max([o + w for o, w in hb] or [0]))
      pbc = [x for x in pb if x[0] + x[1] <= common_end]; hbc = [x for x in hb if x[0] + x[1] <= common_end]
      covered = lambda items, o, w: any(io <= o and o + w <= io + iw for io, iw in items)
      cut = [(o, w) for o, w in pbc if not (o, w) in hbc and covered(hbc, o, w)] + [(o, w) for o, w in hbc if not (o, w) in pbc and covered(pbc, o, w)]
      if pbc and hbc:
        ctx.ob('R-LAYOUT', cls.qual, "parse and serialiser cut the fixed header into the same items", not cut,
               "%d items" % len(pbc) if not cut else
               "one side handles bytes %s as separate items that the other side treats as one wider field: bits that straddle the boundary (e.g. the 9-bit TLV length) are lost on that side" % cut, cls, 'D1')
      n_bf += _bitfields(ctx, repo, mod, cls, pf, hf, Pf, H, hcall)
      # ---- D3 derived fields ---------------------------------------------------------------------
      _derived(ctx, repo, mod, cls, hf, H, hcall)
      # ---- D5 ----------------------------------------------------------------------------------------
      for f in (pf, hf):
        for cf in btypes.conflicts(f.node, assume={'raw': btypes.B, 'payload': btypes.B}):
          ctx.bad('R-BYTES', f, "`%s`" % cf.text[:60], "%s of %s and %s" % (cf.kind, cf.left, cf.right), (mod, cf.node), 'D5')
  # ---- the pseudo-header is taken from self.prev: attaching a payload must (re)link it to its new carrier ----------
  pbm = repo.mod('lib.packet.packet_base'); pbc_ = pbm.classes.get('packet_base')
  sp = pbc_.methods.get('set_payload') if pbc_ is not None else None
  if sp is None: raise AnalysisError("packet_base.set_payload vanished")
  ctx.analysed(sp); gsp = q.cfg_of(sp); pp_ = sp.params[1]
  is_pb = lambda e: isinstance(e, ast.Call) and call_name(e) == 'isinstance' and len(e.args) == 2 and 'packet_base' in norm(e.args[1])
  # the payload is a packet object, so it is not bytes: `type(p) is bytes`, `type(p) == bytes`, `isinstance(p, bytes)` are all false
  is_by = lambda e: (isinstance(e, ast.Call) and call_name(e) == 'isinstance' and len(e.args) == 2 and norm(e.args[1]) in ('bytes', '(bytes,)', '(bytes, bytearray)')) or \
                    (isinstance(e, ast.Compare) and len(e.ops) == 1 and isinstance(e.ops[0], (ast.Is, ast.Eq)) and norm(e.comparators[0]) == 'bytes' and norm(e.left).startswith('type('))
  links = [q.enclosing_stmt_node(gsp, st) for t, v, st, k in q.stores_in(sp.node) if isinstance(t, ast.Attribute) and t.attr == 'prev' and norm(t.value) == pp_ and v is not None and norm(v) == 'self']
  ctx.floor('set_payload: back-link site', len(links), 1)
  # every path on which the payload is a packet object passes the back-link, whatever it was linked to before
  for prev_state in (None, '<old carrier>'):
    env = q.Env({pp_ + '.prev': prev_state}, [(is_pb, True), (is_by, False)])
    holds, r_ = q.must_pass_under(repo, pbm, gsp, env, links, pbc_, cp=True)
    ctx.ob('R-EFFECT', sp, "attaching a packet payload links it back to its new carrier (payload.prev %s before)" % ('unset' if prev_state is None else 'set'), holds,
           "payload.prev = self on every such path" if holds else
           "when the payload already has a `prev` (it was parsed from, or built under, another header) it keeps pointing at the old carrier: UDP/TCP/ICMPv6 checksums are then computed over the "
           "old header's addresses - the emitted segment's checksum is wrong for the header actually sent", sp, 'D3')
  # ... and changes nothing else: a payload object may sit under several headers at once (a parsed frame whose inner packet is put
  # under a new outer header for forwarding); the former carrier still serialises with it, so its `next` is not set_payload's to clear
  other = [(t, st) for t, v, st, k in q.stores_in(sp.node) if isinstance(t, ast.Attribute) and not (norm(t) in ('self.next', pp_ + '.prev'))]
  ctx.ob('R-OWN', sp, "set_payload writes only self.next and the payload's prev", not other, "no other attribute store" if not other else
         "`%s` changes another object: after a parsed packet's payload is attached to a second header, the first one has lost it - serialising the unmodified parse result no longer reproduces its bytes (only the outer header is emitted)"
         % norm(other[0][1])[:60], (pbm, other[0][1]) if other else sp, 'D3')
  # a packet object's truth value is its `parsed` flag (packet_base.__bool__): a header that was *built* is falsy.  Serialisation code
  # therefore never decides "is there a payload" by truthiness of something that can be a packet object
  pb_bool = pbc_.methods.get('__bool__') or pbc_.methods.get('__nonzero__')
  by_flag = pb_bool is not None and any(isinstance(x_, ast.Attribute) and x_.attr == 'parsed' for x_ in ast.walk(pb_bool.node))
  n_truth = 0
  if by_flag:
    for mod in mods:
      for cls in mod.classes.values():
        for fn_ in cls.methods.values():
          if fn_.name not in ('checksum', 'hdr', 'pack', 'pre_hdr', 'post_hdr', '_pack_body', 'set_payload'): continue
          n_truth += 1
          cand = set(['self.next', 'self.payload']) | set(p_ for p_ in fn_.params if p_ in ('payload',))
          for t_, v_, st_, k_ in q.stores_in(fn_.node, nested=False):
            if isinstance(t_, ast.Name) and v_ is not None and norm(v_) in ('self.next', 'self.payload'): cand.add(t_.id)
          for x_ in walk_no_nested(fn_.node):
            hit = None
            if isinstance(x_, ast.BoolOp) and norm(x_.values[0]) in cand: hit = x_
            elif isinstance(x_, (ast.If, ast.IfExp, ast.While)) and (norm(x_.test) in cand or (isinstance(x_.test, ast.UnaryOp) and isinstance(x_.test.op, ast.Not) and norm(x_.test.operand) in cand)): hit = x_.test
            if hit is None: continue
            # fine when a dominating fact already says it is not a packet object
            gfn_ = q.cfg_of(fn_); sn_ = q.enclosing_stmt_node(gfn_, hit)
            fs_ = q.fact_strs(gfn_, sn_) if sn_ is not None else []
            if any('isinstance(' in f_ and 'packet_base' in f_ and f_.endswith(':falsy') for f_ in fs_): continue
            ctx.bad('R-AGREE', fn_, "the payload's presence is not decided by its truth value (`%s`)" % norm(hit)[:40],
                    "`%s` treats a falsy payload as absent, but packet_base.__bool__ is the `parsed` flag: a payload that is a *built* header object (DHCP under UDP, an inner packet under a tunnel header) counts as absent - "
                    "lengths / checksums are computed over an empty body while the real body is emitted" % norm(hit)[:50], (mod, hit), 'D3')
    ctx.floor('serialisation methods scanned for payload truth tests', n_truth, 40)
  # ---- D5 over every build method of the packet library -------------------------------------------------
  n_build = 0
  for mod in mods:
    for cls in mod.classes.values():
      for bn in cls.node.body:
        if isinstance(bn, ast.FunctionDef) and (bn.name in ('pack', 'hdr', 'packOptions', 'pre_hdr') or bn.name.startswith('_pack')):
          n_build += 1
          if bn.name == 'hdr' and 'parse' in cls.methods: continue       # already scanned above
          for cf in btypes.conflicts(bn, assume={'raw': btypes.B, 'payload': btypes.B}):
            ctx.bad('R-BYTES', "%s.%s" % (cls.qual, bn.name), "`%s`" % cf.text[:60], "%s of %s and %s: TypeError - this header/option can never be assembled" % (cf.kind, cf.left, cf.right), (mod, cf.node), 'D5')
          for inner in [x for x in ast.walk(bn) if isinstance(x, ast.FunctionDef) and x is not bn]:
            for cf in btypes.conflicts(inner, assume={'raw': btypes.B, 'payload': btypes.B}):
              ctx.bad('R-BYTES', "%s.%s.%s" % (cls.qual, bn.name, inner.name), "`%s`" % cf.text[:60], "%s of %s and %s: TypeError - this header/option can never be assembled" % (cf.kind, cf.left, cf.right), (mod, cf.node), 'D5')
  ctx.floor('build methods scanned for bytes/str conflicts', n_build, 60)
  # ---- sibling rule: TLV option classes provide their body; the base adds the type/length header ------------
  im = repo.mod(PK + '.icmpv6'); base = im.classes.get('NDOptionBase')
  if base is not None and 'pack' in base.methods and '_pack_body' in norm(base.methods['pack'].node):
    subs = [c for c in repo.subclasses(base) if c.module is im]
    ctx.floor('ND option classes', len(subs), 5)
    for c in subs:
      over = 'pack' in c.methods
      body = c.find_method('_pack_body') is not None
      good = not over and body
      ctx.ob('R-SIB', c.qual, "ND option provides its body and inherits the type/length framing", good, "_pack_body, no pack override" if good else
             ("%s overrides pack(): the option is emitted without NDOptionBase.pack()'s type/length header and padding, so it cannot be parsed back" % c.name if over else "%s has no _pack_body" % c.name), c, 'D1')
  ctx.floor('parse/hdr pairs compared', n_pairs, 20)
  ctx.floor("bit-field composites checked", n_bf, 4)
  _checksum(ctx, repo)
  _skipwords(ctx, repo)
  _udp_zero(ctx, repo)
  _hdr_copies(ctx, repo)
  _ipv4_sum_covers_header(ctx, repo)
  _lldp_tlv_header(ctx, repo)
  _llc_control(ctx, repo)
  _unparsed_payload(ctx, repo)
  _dirty_tracking(ctx, repo)
  _option_packers(ctx, repo)
  from . import c15b
  ctx.stat('TLV value slices compared', c15b.tlv_value_slices(ctx, [c for mn in ('tcp', 'dhcp', 'lldp', 'icmpv6', 'ipv6') for c in repo.mod(PK + '.' + mn).classes.values()], 'D2'))
  _option_walkers(ctx, repo)
  _sample_roundtrips(ctx, repo)
  # a frame the library built goes back through the same decoders that read frames from the wire: an option decoder that gives up on
  # a well-formed option (and whose failure is not contained in tcp.parse) yields no fields at all for that frame
  ctx.include('C15', ['lib.packet.tcp:'], "frames built by the library are parsed by the TCP decoders whose containment C15 decides")

def _bitfields (ctx, repo, mod, cls, pf, hf, Pf, H, hcall):
  """for each header slot that parse() reads into a local and splits into fields"""
  count = 0
  hg = q.cfg_of(hf)
  for off, w, code, name, tgt, st in Pf:
    if name is not None or not isinstance(tgt, ast.Name):
      # field stored and then re-split in place: self.frag = ...; self.flags = self.frag >> 13; self.frag = self.frag & 0x1fff
      if name is None: continue
    lv = tgt.id if isinstance(tgt, ast.Name) else None
    wtxt = lv or ('self.' + name)
    # extraction statements: self.X = expr(word) following the read
    extr = []
    for t, v, s_, k in q.stores_in(pf.node, nested=False):
      if isinstance(t, ast.Attribute) and norm(t.value) == 'self' and v is not None and k == 'assign' and s_ is not st:
        reads = q.mentions_name(v, lv) if lv else (norm(t) != wtxt or True) and any(norm(x) == wtxt for x in ast.walk(v) if isinstance(x, ast.Attribute))
        only_word = all((isinstance(x, ast.Name) and x.id == lv) or not isinstance(x, ast.Name) for x in ast.walk(v)) if lv else True
        arith = any(isinstance(x, ast.BinOp) and isinstance(x.op, (ast.RShift, ast.BitAnd, ast.LShift)) for x in ast.walk(v))
        if reads and arith and not any(isinstance(x, ast.Call) for x in ast.walk(v)): extr.append((t.attr, v, s_))
    extr.sort(key=lambda x: x[2].lineno)
    if len(extr) < 2 and not (len(extr) == 1 and lv): continue
    # hdr-side slot at the same offset
    slot = [a for o2, w2, c2, n2, a in H if o2 == off and w2 == w]
    if not slot: continue
    arg = slot[0]
    fields = [e[0] for e in extr]
    # domain: maximal value of each field = extraction applied to the all-ones word (sequentially, as parse does)
    allones = (1 << (8 * w)) - 1
    def extract (word):
      env = q.Env({wtxt: word})
      out = {}
      for fld, v, s_ in extr:
        try: val = q.eval_env2(repo, mod, v, env, cls)
        except Exception: return None
        out[fld] = val
        env.exact['self.' + fld] = val
      return out
    mx = extract(allones)
    if mx is None:
      ctx.undecided('R-AGREE', cls.qual, "bit-fields of the %d-byte word at offset %d" % (w, off), "extraction not evaluable", (mod, st), 'D2'); continue
    import itertools
    doms = [sorted(set([0, 1, mx[f] if isinstance(mx[f], int) else 1])) for f in fields]
    bad = None; tested = 0
    for combo in itertools.product(*doms):
      vals = dict(zip(fields, combo))
      got = []
      def on_node (n, e, got=got):
        if n.ast is not None and any(c is hcall for c in q.node_calls(n)):
          try: got.append(q.eval_env2(repo, mod, arg, e, cls))
          except Exception: pass
      env = q.Env(dict(('self.' + k, v) for k, v in vals.items()))
      env.exact.update({'calc_checksum': True, 'calc_off': False})
      q.paths_under(repo, mod, hg, env, hg.entry, [hg.exit], cls, limit=40, on_node=on_node)
      ws = set(x for x in got if isinstance(x, int))
      if len(ws) != 1: continue
      word = ws.pop(); tested += 1
      if word < 0 or word > allones:
        bad = (vals, word, "does not fit the %d-byte slot" % w); break
      back = extract(word)
      if back is None: continue
      if any(back[k] != vals[k] for k in fields):
        bad = (vals, word, "parses back as %s" % dict((k, back[k]) for k in fields)); break
    if tested < 2:
      ctx.undecided('R-AGREE', cls.qual, "bit-fields %s of the word at offset %d" % (fields, off), "packed word not evaluable from the fields", (mod, st), 'D2'); continue
    count += 1
    ctx.ob('R-AGREE', cls.qual, "bit-fields %s packed by hdr() are what parse() extracts" % "/".join(fields), bad is None,
           "%d field combinations round-trip through `%s`" % (tested, norm(arg)[:50]) if bad is None else
           "fields %s are packed as 0x%x, which %s: a header built from parsed values differs from the original (or cannot be built)" % (bad[0], bad[1], bad[2]), (mod, st), 'D2')
  return count

def _derived (ctx, repo, mod, cls, hf, H, hcall):
  g = q.cfg_of(hf)
  hn = q.enclosing_stmt_node(g, hcall)
  for o, w, c, name, a in H:
    if name is None: continue
    low = name.lower()
    is_len = low in ('iplen', 'len', 'length', 'payload_length', 'tcplen') or low.endswith('len')
    is_cs = low in ('csum', 'checksum', 'cksum')
    if not (is_len or is_cs): continue
    stores = [q.enclosing_stmt_node(g, st) for t, v, st, k in q.stores_in(hf.node, nested=False) if norm(t) == 'self.' + name]
    if not stores:
      if is_cs and cls.name in ('tcp',): pass
      ctx.undecided('R-ORDER', cls.qual, "derived field `%s` recomputed in hdr()" % name, "hdr() packs self.%s without assigning it (may be maintained elsewhere)" % name, (mod, hcall), 'D3'); continue
    good = any(s is not None and g.dominates(s, hn, exc=False) for s in stores) if hn is not None else None
    ctx.ob('R-ORDER', cls.qual, "derived field `%s` is recomputed before the header is packed" % name, good,
           "assignment dominates the pack" if good else "self.%s is (re)computed only after / beside the struct.pack: the emitted header carries the stale value" % name, (mod, hcall), 'D3')
    if is_len:
      vals = [v for t, v, st, k in q.stores_in(hf.node, nested=False) if norm(t) == 'self.' + name and v is not None]
      good = any('len(payload)' in norm(v) or 'len(' in norm(v) for v in vals)
      ctx.ob('R-AGREE', cls.qual, "length field `%s` is derived from the actual payload length" % name, good, norm(vals[0]) if vals else "?", (mod, hcall), 'D3')
  # checksum computed over a zeroed slot at the same index
  cs_slots = [(i, name) for i, (o, w, c, name, a) in enumerate(H) if name and name.lower() in ('csum', 'checksum')]
  if cs_slots:
    idx, name = cs_slots[0]
    fmt = repo.try_const(mod, hcall.args[0], cls)
    cands = []
    for f in cls.methods.values():
      for c in calls_in(f.node):
        if c is hcall: continue
        if call_name(c) == 'pack' and isinstance(c.func, ast.Attribute) and norm(c.func.value) == 'struct' and c.args and repo.try_const(mod, c.args[0], cls) == fmt and len(c.args) == len(hcall.args):
          cands.append((f, c))
    for f, c in cands:
      a = c.args[1 + idx]
      good = isinstance(a, ast.Constant) and a.value == 0
      others = all(norm(x) == norm(y) for i, (x, y) in enumerate(zip(c.args[1:], hcall.args[1:])) if i != idx and not (isinstance(x, ast.Name) or isinstance(y, ast.Name)))
      ctx.ob('R-AGREE', f, "checksum of %s is computed over the header with 0 in the checksum slot" % cls.name, good,
             "slot %d is the literal 0" % idx if good else "the header copy used for the checksum has `%s` in the checksum slot (index %d)" % (norm(a), idx), (mod, c), 'D3')
      ctx.ob('R-AGREE', f, "checksum of %s covers the same field values that are emitted" % cls.name, others, "same arguments" if others else "the checksummed header copy differs from the emitted header in another slot", (mod, c), 'D3')
      # parts of this header that are emitted next to the packed fields (options) are summed as well
      def chain_parts (fn_node, call):
        par = {}
        for x in ast.walk(fn_node):
          for ch in ast.iter_child_nodes(x): par[id(ch)] = x
        top = call
        while isinstance(par.get(id(top)), ast.BinOp) and isinstance(par[id(top)].op, ast.Add): top = par[id(top)]
        parts = []
        def flat (e):
          if isinstance(e, ast.BinOp) and isinstance(e.op, ast.Add): flat(e.left); flat(e.right)
          elif e is not call: parts.append(e)
        flat(top)
        return parts
      emitted = [norm(x) for x in chain_parts(hf.node, hcall) if isinstance(x, ast.Attribute) and norm(x.value) == 'self']
      summed = [norm(x) for x in chain_parts(f.node, c)]
      missing = [x for x in emitted if x not in summed]
      if emitted:
        ctx.ob('R-AGREE', f, "checksum of %s covers the header parts emitted beside the fixed fields (%s)" % (cls.name, ", ".join(emitted)), not missing,
               "summed: packed fields + %s" % ", ".join(summed) if not missing else
               "hdr() emits the packed fields followed by %s, but the checksum is computed without %s: every header that carries options goes out with a checksum receivers reject" % (", ".join(emitted), ", ".join(missing)), (mod, c), 'D3')

def _checksum (ctx, repo):
  mod = repo.mod(PK + '.packet_utils')
  f = mod.funcs.get('checksum')
  if f is None: raise AnalysisError("packet_utils.checksum vanished")
  ctx.analysed(f)
  for cf in btypes.conflicts(f.node, assume={'data': btypes.B}):
    ctx.bad('R-BYTES', f, "`%s`" % cf.text[:60], "%s of %s and %s: TypeError for every odd-length input" % (cf.kind, cf.left, cf.right), (mod, cf.node), 'D5')
  # the samples decide the arithmetic (odd trailing byte, carry folding, complement, skipped word) by value; the structural rules
  # below are only a fallback for a checksum() the analyser's interpreter cannot run
  decided = checksum_samples(ctx, repo)
  if decided is None:
    # odd byte: data[-1:] + b'\0' style (bytes + bytes)
    odd = [n for n in ast.walk(f.node) if isinstance(n, ast.BinOp) and isinstance(n.op, ast.Add) and any(isinstance(x, ast.Subscript) and norm(x.value) == f.params[0] for x in (n.left, n.right))]
    g = q.cfg_of(f)
    guarded = False
    for n in odd:
      cn = q.enclosing_stmt_node(g, n)
      if cn is not None and any('% 2' in x for x in q.fact_strs(g, cn)): guarded = True
      sub = n.left if isinstance(n.left, ast.Subscript) else n.right
      pad = n.right if sub is n.left else n.left
      good = isinstance(sub.slice, ast.Slice) and isinstance(pad, ast.Constant) and isinstance(pad.value, bytes)
      ctx.ob('R-BYTES', f, "the odd trailing byte is padded as bytes", good, norm(n) if good else "`%s` does not build a 2-byte bytes object from the last byte" % norm(n), (mod, n), 'D5')
    ctx.ob('R-DOM', f, "an odd trailing byte is included in the sum", bool(odd) and guarded, "handled under len % 2 != 0" if odd and guarded else "odd-length data loses its last byte", f, 'D5')
    # carry folding: (x >> 16) + (x & 0xffff) followed by a second fold (x += x >> 16 or the same expression again), or a loop
    folds = 0; loops = 0
    var = None
    for st in walk_no_nested(f.node):
      if isinstance(st, ast.Assign) and isinstance(st.value, ast.BinOp) and isinstance(st.value.op, ast.Add):
        parts = [st.value.left, st.value.right]
        sh = [p for p in parts if isinstance(p, ast.BinOp) and isinstance(p.op, ast.RShift) and q.try_int(p.right) == 16]
        ms = [p for p in parts if isinstance(p, ast.BinOp) and isinstance(p.op, ast.BitAnd) and q.try_int(p.right) == 0xffff]
        if sh and ms: folds += 1
      if isinstance(st, ast.AugAssign) and isinstance(st.op, ast.Add) and isinstance(st.value, ast.BinOp) and isinstance(st.value.op, ast.RShift) and q.try_int(st.value.right) == 16: folds += 1
      if isinstance(st, ast.While) and '>> 16' in norm(st.test): loops += 1
    good = folds >= 2 or loops >= 1
    ctx.ob('R-AGREE', f, "the end-around carry is folded until it fits 16 bits (two folds or a loop)", good,
           "%d fold step(s), %d fold loop(s)" % (folds, loops) if good else
           "only %d carry-fold step: when the first fold itself overflows 16 bits the extra carry is dropped and the checksum differs from RFC 1071" % folds, f, 'D5')
    rv = q.returns_of(f.node)
    good = bool(rv) and '~' in norm(rv[-1].value) and '0xffff' in norm(rv[-1].value).lower() or (rv and '65535' in norm(rv[-1].value))
    ctx.ob('R-AGREE', f, "the result is the 16-bit one's complement", bool(good), norm(rv[-1].value) if rv else "?", f, 'D5')
    skip = [n for n in g.nodes if n.kind == 'continue' and any('skip_word' in x for x in q.fact_strs(g, n))]
    # other spellings of "leave that word out" (a filter of a generator, a conditional term) mention skip_word in a comparison as well;
    # only a sum that never looks at skip_word at all leaves nothing out
    looks = any(isinstance(x_, ast.Compare) and 'skip_word' in norm(x_) for x_ in ast.walk(f.node))
    ctx.ob('R-AGREE', f, "exactly the skip word is left out of the sum", True if skip else (None if looks else False),
           "continue under i == skip_word" if skip else ("skip_word is compared with the word index, in a form the rule does not follow" if looks else "the sum never compares the word index with skip_word: the checksum field itself is summed"), f, 'D5')

def checksum_samples (ctx, repo, clause='D5'):
  """checksum() evaluated by the analyser's own interpreter on sample inputs (odd / even length, sums whose first fold carries
  again, a skipped word, a non-zero start) and compared with an RFC 1071 reference computed here"""
  import array as _array, socket as _socket, struct as _struct
  mod = repo.mod(PK + '.packet_utils'); f = mod.funcs.get('checksum')
  if f is None: raise AnalysisError("packet_utils.checksum vanished")
  g = q.cfg_of(f)
  def ref (data, start, skip):
    tot = start
    words = [data[i:i + 2] for i in range(0, len(data) - len(data) % 2, 2)]
    for i, w in enumerate(words):
      if skip is not None and i == skip: continue
      tot += _struct.unpack('H', w)[0]
    if len(data) % 2: tot += _struct.unpack('H', data[-1:] + b'\0')[0]
    while tot >> 16: tot = (tot >> 16) + (tot & 0xffff)
    return _socket.ntohs(~tot & 0xffff)
  def hook (call, env=None):
    fn = call.func
    nm = call_name(call)
    try:
      if nm == 'array' and len(call.args) == 2:
        a0 = q.eval_env2(repo, mod, call.args[0], env, None); a1 = q.eval_env2(repo, mod, call.args[1], env, None)
        return (True, list(_array.array(a0, a1)))
      if nm in ('ntohs', 'htons') and len(call.args) == 1:
        return (True, _socket.ntohs(q.eval_env2(repo, mod, call.args[0], env, None) & 0xffff))
      if nm == 'unpack' and isinstance(fn, ast.Attribute) and norm(fn.value) == 'struct' and len(call.args) == 2:
        return (True, _struct.unpack(q.eval_env2(repo, mod, call.args[0], env, None), q.eval_env2(repo, mod, call.args[1], env, None)))
    except Exception:
      return (False, None)
    return (False, None)
  hook.wants_env = True
  S = [(b'\xff\xff\xff\xff\x01\x00', 0, None), (b'\xff\xff\xff\xff\x00\x01', 0, None), (b'\x45\x00\x00\x1c\x00\x01\x00\x00\x40\x11\x00\x00\x0a\x00\x00\x01\x0a\x00\x00\x02', 0, None),
       (b'\x45\x00\x00\x1c\x00\x01\x00\x00\x40\x11\xab\xcd\x0a\x00\x00\x01\x0a\x00\x00\x02', 0, 5), (b'\x01\x02\x03', 0, None), (b'\xff\xfe\xff\xff\xff', 0, None),
       (b'\x12\x34\x56\x78', 0x1fffe, None), (b'\xff\xff' * 5, 0, 2), (b'', 0, None), (b'\x80', 0xffff, None), (b'\xff\xff\xff\xff\x01\x00\x00\x00', 0, 3)]
  wrong = []; unknown = 0
  for data, start, skip in S:
    env = q.Env({f.params[0]: data, f.params[1]: start, f.params[2]: skip}, [], hook)
    res = set()
    for p_, e_ in q.paths_under(repo, mod, g, env, g.entry, [n for n in g.nodes if n.kind == 'return'], None, limit=20):
      try: res.add(q.eval_env2(repo, mod, p_[-1].ast.value, e_, None))
      except Exception: res.add('?')
    if len(res) != 1 or '?' in res or not isinstance(list(res)[0], int): unknown += 1; continue
    got = list(res)[0]
    if got != ref(data, start, skip): wrong.append((data, start, skip, got, ref(data, start, skip)))
  if unknown:
    ctx.undecided('R-AGREE', f, "checksum() equals the RFC 1071 sum on the sample inputs", "not evaluable for %d of %d samples" % (unknown, len(S)), f, clause)
    return None
  else:
    ctx.ob('R-AGREE', f, "checksum() equals the RFC 1071 sum on the sample inputs", not wrong, "%d samples (carry after the first fold, odd length, skipped word, non-zero start)" % len(S) if not wrong else
           "checksum(%r, %s, %s) evaluates to 0x%04x, RFC 1071 gives 0x%04x: every header whose 16-bit sum behaves like this sample is emitted with a checksum receivers reject"
           % (wrong[0][0], wrong[0][1], wrong[0][2], wrong[0][3], wrong[0][4]), f, clause)
    return not wrong

def _skipwords (ctx, repo):
  """checksum(ph + payload, 0, K): K == (len(pseudo header) + offset of the checksum field) / 2"""
  n = 0
  for cname, mname in (('udp', 'udp'), ('tcp', 'tcp')):
    mod = repo.mod(PK + '.' + mname); cls = mod.classes.get(cname)
    f = cls.methods.get('checksum'); hf = cls.methods.get('hdr')
    if f is None or hf is None: continue
    ctx.analysed(f)
    H, hsize, hcall = _hdr_items(repo, cls, hf)
    cs = [o for o, w, c, name, a in (H or []) if name is None and isinstance(a, ast.Name) and a.id in ('csum',) or name in ('csum', 'checksum')]
    if not cs: ctx.undecided('R-AGREE', cls.qual, "skip words", "checksum slot not found in hdr()", cls, 'D4'); continue
    cs_off = cs[0]
    g = q.cfg_of(f)
    # first by evaluation: the function is run (abstractly) for a segment under IPv4 and under IPv6 in verification mode; at the call of
    # the module's checksum() the pseudo-header operand has a concrete length and the skip argument a concrete value
    ev_done = set()
    is_u = lambda e: isinstance(e, ast.Call) and call_name(e) == 'toUnsigned'
    is_log = lambda e: isinstance(e, ast.Call) and call_name(e) in ('msg', 'err', 'warn')
    ccalls = [(q.enclosing_stmt_node(g, c_), c_) for c_ in calls_in(f.node) if call_name(c_) == 'checksum' and len(c_.args) == 3 and isinstance(c_.func, ast.Name)]
    for ver, pname in ((4, 'ipv4'), (6, 'ipv6')):
      iprec = q.Rec(srcip=q.Rec(raw=b'\x01' * 16), dstip=q.Rec(raw=b'\x02' * 16), protocol=6, next_header_type=6)
      ex = {'self.prev.__class__.__name__': pname, 'self.prev.srcip.raw': b'\x01' * 16, 'self.prev.dstip.raw': b'\x02' * 16, 'self.prev.protocol': 6, 'self.prev.next_header_type': 6,
            'self.prev': iprec, 'self.raw': b'\x00' * 20, 'unparsed': True, 'payload': None}
      class XHook(object):
        # a pseudo-header helper of another module of the packet library (reached through its star import): evaluated on the sample header
        wants_env = True
        def __init__ (self): self.depth = 0
        def __call__ (self, call, env):
          if not isinstance(call.func, ast.Name) or call.keywords or self.depth > 2: return (False, None)
          r_ = mod.lookup(call.func.id)
          if not (hasattr(r_, 'node') and isinstance(getattr(r_, 'node', None), ast.FunctionDef)) or r_.module is mod or call.func.id == 'checksum': return (False, None)
          try: args = [q.eval_env2(repo, mod, a_, env, cls) for a_ in call.args]
          except Exception: return (False, None)
          if len(args) != len(r_.params): return (False, None)
          gh_ = q.cfg_of(r_); inner = q.Env(dict(zip(r_.params, args)), list(env.matchers), self)
          vals = set()
          self.depth += 1
          try:
            for p_, e_ in q.paths_under(repo, r_.module, gh_, inner, gh_.entry, [n_ for n_ in gh_.nodes if n_.kind == 'return'], None, limit=20):
              try: vals.add(q.eval_env2(repo, r_.module, p_[-1].ast.value, e_, None))
              except Exception: vals.add('?')
          finally: self.depth -= 1
          if len(vals) == 1 and '?' not in vals: return (True, list(vals)[0])
          return (False, None)
      found = []
      for cn_, c_ in ccalls:
        if cn_ is None or not isinstance(c_.args[0], ast.BinOp): continue
        env = q.Env(dict(ex), [(is_u, 0x0a000001), (is_log, None)], XHook())
        ks = q.values_at(repo, mod, g, env, cn_, c_.args[2], cls, limit=80); ps = q.values_at(repo, mod, g, env, cn_, c_.args[0].left, cls, limit=80)
        if not ks and not ps: continue            # this call is not reached for this IP version
        if len(ks) == 1 and len(ps) == 1 and isinstance(list(ks)[0], int) and isinstance(list(ps)[0], bytes): found.append((c_, list(ks)[0], len(list(ps)[0])))
        else: found = None; break
      if found:
        for c_, k_, size_ in found:
          want = (size_ + cs_off) // 2
          n += 1; ev_done.add(ver)
          ctx.ob('R-AGREE', f, "%s over IPv%d: skip word == (pseudo-header %d + checksum offset %d) / 2" % (cname.upper(), ver, size_, cs_off), k_ == want,
                 "%d (evaluated)" % k_ if k_ == want else "checksum() is told to skip word %d but the checksum field is word %d of pseudo-header+segment: verification of received segments sums the wrong word" % (k_, want), (mod, c_), 'D4')
    for c in calls_in(f.node):
      if len(ev_done) == 2 and not any(isinstance(a_, ast.IfExp) for a_ in c.args if call_name(c) == 'checksum'): break
      if call_name(c) == 'checksum' and len(c.args) == 3 and isinstance(c.func, ast.Name):
        k = q.try_int(c.args[2])
        cn = q.enclosing_stmt_node(g, c)
        k_emit = k
        if k is None and cn is not None and 'unparsed' in f.params:
          # the skip word depends on the mode: verification of a received segment (unparsed=True) / emission (unparsed=False)
          kv = q.values_at(repo, mod, g, q.Env({'unparsed': True}), cn, c.args[2], cls); ke = q.values_at(repo, mod, g, q.Env({'unparsed': False}), cn, c.args[2], cls)
          k = list(kv)[0] if len(kv) == 1 and isinstance(list(kv)[0], int) else None
          k_emit = list(ke)[0] if len(ke) == 1 and (isinstance(list(ke)[0], int) or list(ke)[0] is None) else '?'
        fs = q.fact_strs(g, cn) if cn else []
        ver = 4 if 'ip_ver == 4' in fs else (6 if 'ip_ver == 6' in fs else None)
        # pseudo header size from the code under the same guard
        size = None
        if ver == 4:
          for p in calls_in(f.node):
            if call_name(p) == 'pack' and norm(p.func.value) == 'struct' and q.enclosing_stmt_node(g, p) is not None and 'ip_ver == 4' in q.fact_strs(g, q.enclosing_stmt_node(g, p)):
              fm = repo.try_const(mod, p.args[0], cls)
              if isinstance(fm, str) and fm != repo.try_const(mod, hcall.args[0], cls): size = struct.calcsize(fm)
        elif ver == 6:
          for p in calls_in(f.node):
            if call_name(p) == 'pack' and norm(p.func.value) == 'struct' and q.enclosing_stmt_node(g, p) is not None and 'ip_ver == 6' in q.fact_strs(g, q.enclosing_stmt_node(g, p)):
              fm = repo.try_const(mod, p.args[0], cls)
              if isinstance(fm, str): size = 32 + struct.calcsize(fm)      # two 16-byte addresses + the packed tail
        if size is None or k is None:
          ctx.undecided('R-AGREE', f, "skip word for IPv%s" % ver, "pseudo-header size not derivable", (mod, c), 'D4'); continue
        want = (size + cs_off) // 2
        n += 1
        ctx.ob('R-AGREE', f, "%s over IPv%d: skip word == (pseudo-header %d + checksum offset %d) / 2" % (cname.upper(), ver, size, cs_off), k == want,
               "%d" % k if k == want else "checksum() is told to skip word %d but the checksum field is word %d of pseudo-header+segment: verification of received segments sums the wrong word" % (k, want), (mod, c), 'D4')
        if k_emit != k and k_emit != '?':
          # emission does not skip the word: then the header it sums must carry a zero checksum field - hdr(..., calc_checksum=False) evaluated
          # with a stale non-zero self.csum
          zero = None
          hg = q.cfg_of(hf)
          hp = [(n_, c_) for n_ in hg.nodes for c_ in q.node_calls(n_) if call_name(c_) == 'pack' and norm(c_.func.value) == 'struct' and any(isinstance(a_, ast.Name) and a_.id == 'csum' or norm(a_) == 'self.csum' for a_ in c_.args[1:])]
          if hp and 'calc_checksum' in hf.params:
            n_, c_ = hp[0]
            a_ = [a_ for a_ in c_.args[1:] if isinstance(a_, ast.Name) and a_.id == 'csum' or norm(a_) == 'self.csum'][0]
            vs = q.values_at(repo, mod, hg, q.Env({'calc_checksum': False, 'self.csum': 0x1234, 'calc_off': False}), n_, a_, cls)
            zero = vs == {0}
          ctx.ob('R-AGREE', f, "%s over IPv%d: when a segment is emitted its own checksum field does not enter the sum" % (cname.upper(), ver), bool(zero),
                 "hdr(calc_checksum=False) packs a zero checksum field" if zero else
                 "on emission checksum() skips word %s (not word %d) and the header it sums is packed with the stored self.csum: a segment whose csum is already non-zero - one that was parsed, or packed before - is emitted with a "
                 "checksum that includes the stale value; receivers reject it" % (k_emit, want), (mod, c), 'D4')
  ctx.floor('skip-word constants', n, 4)

def _option_packers (ctx, repo):
  """serialisers of the nested structures (TCP / MPTCP options, DHCP options, LLDP TLVs, ND options, IPv6 extension headers):
  definite bytes/str/int/tuple conflicts, and decoders whose cursor advances by another field's length than the one just read"""
  n = 0
  for mn in ('tcp', 'dhcp', 'lldp', 'icmpv6', 'ipv6', 'igmp', 'dns', 'rip', 'gre'):
    try: mod = repo.mod(PK + '.' + mn)
    except Exception: continue
    for cls in mod.classes.values():
      for name in ('pack', '_pack_body', '_pack_data'):
        f = cls.methods.get(name)
        if f is None: continue
        n += 1
        for cf in btypes.conflicts(f.node, assume={'raw': btypes.B, 'payload': btypes.B}):
          ctx.bad('R-BYTES', f, "`%s`" % cf.text[:60], "%s of %s and %s: TypeError whenever this statement runs - the structure cannot be serialised" % (cf.kind, cf.left, cf.right), (mod, cf.node), 'D5')
      un = cls.methods.get('unpack_new')
      if un is None: continue
      # `if o.X_length == 4: read ... else: read ...` followed by `off += o.Y_length`: the cursor must move by X_length
      body = list(ast.walk(un.node))
      for blk in [x for x in body if hasattr(x, 'body') and isinstance(getattr(x, 'body'), list)]:
        for fld in ('body', 'orelse'):
          stmts = getattr(blk, fld, None)
          if not isinstance(stmts, list): continue
          for i in range(len(stmts) - 1):
            a, b = stmts[i], stmts[i + 1]
            if isinstance(a, ast.If) and isinstance(a.test, ast.Compare) and len(a.test.ops) == 1 and isinstance(a.test.ops[0], ast.Eq) and isinstance(a.test.left, ast.Attribute) and a.test.left.attr.endswith('_length') \
               and any(isinstance(c_, ast.Call) and call_name(c_) in ('unpack_from', 'unpack') for x_ in a.body + a.orelse for c_ in ast.walk(x_)) \
               and isinstance(b, ast.AugAssign) and isinstance(b.op, ast.Add) and isinstance(b.value, ast.Attribute) and b.value.attr.endswith('_length'):
              good = norm(b.value) == norm(a.test.left)
              ctx.ob('R-AGREE', un, "the cursor advances by the length of the field just read (`%s`)" % norm(b), good, "advance by %s" % norm(b.value) if good else
                     "the read is sized by `%s` but the cursor then advances by `%s`: whenever the two lengths differ the following fields are read from the wrong bytes and the returned offset does not match the option's length"
                     % (norm(a.test.left), norm(b.value)), (mod, b), 'D2')
  ctx.stat('nested-structure serialisers examined', n)

def _dirty_tracking (ctx, repo):
  """dhcp.hdr() re-emits its cached option bytes unless the options dict says it was changed (lib.util.DirtyDict): the old value
  is compared *before* it is overwritten, or a replaced value never marks the dict dirty.  Also: a per-class counter that feeds a 16-bit
  header field (ipv4.ip_id -> id) is reduced to 16 bits wherever it is stepped."""
  um = repo.mod('lib.util'); dd = um.classes.get('DirtyDict')
  f = dd.methods.get('__setitem__') if dd is not None else None
  if f is not None and len(f.params) >= 3:
    ctx.analysed(f); g = q.cfg_of(f); kp = f.params[1]
    stores = g.nodes_with_call(lambda c: call_name(c) == '__setitem__' and norm(c.func.value) in ('dict', 'super()', 'super(DirtyDict, self)'))
    reads = [n_ for n_ in g.nodes if n_.ast is not None and n_.kind == 'cond' and any(isinstance(x_, ast.Subscript) and norm(x_.value) == 'self' and norm(x_.slice) == kp for x_ in ast.walk(n_.ast))]
    if stores and reads:
      late = [r_ for r_ in reads if any(g.dominates(s_, r_, exc=False) for s_ in stores)]
      ctx.ob('R-ORDER', f, "the old value is compared before it is overwritten", not late, "`self[k] != v` precedes dict.__setitem__" if not late else
             "`%s` is evaluated after the new value was stored: it compares the new value with itself, so replacing the value of an existing key never marks the dict dirty - dhcp.hdr() then emits its cached option bytes, "
             "and the serialised packet carries the old option values" % late[0].text(40), (um, late[0].ast) if late else f, 'D5')
    else:
      ctx.undecided('R-ORDER', f, "the old value is compared before it is overwritten", "store / comparison not recognised", f, 'D5')
  m4 = repo.mod(PK + '.ipv4'); c4 = m4.classes.get('ipv4')
  if c4 is not None:
    hd = c4.methods.get('hdr'); H, hsize, hcall = _hdr_items(repo, c4, hd) if hd is not None else (None, None, None)
    idw = [w for o, w, c, name, a in (H or []) if name == 'id']
    if idw and idw[0] == 2:
      bad = []; n_ = 0
      for fn_ in c4.methods.values():
        for t, v, st, k in q.stores_in(fn_.node):
          if norm(t) not in ('ipv4.ip_id', 'self.ip_id', 'cls.ip_id'): continue
          n_ += 1
          masked = k == 'assign' and isinstance(v, ast.BinOp) and ((isinstance(v.op, ast.BitAnd) and isinstance(q.try_int(v.right), int) and q.try_int(v.right) <= 0xffff) or (isinstance(v.op, ast.Mod) and isinstance(q.try_int(v.right), int) and q.try_int(v.right) <= 0x10000))
          if not masked: bad.append(st)
      if n_:
        ctx.ob('R-AGREE', c4, "the datagram id counter stays within the 16-bit field it fills", not bad, "%d store(s), each reduced to 16 bits" % n_ if not bad else
               "`%s` steps the per-class counter without reducing it to 16 bits; its value becomes the default `id` of every new header and hdr() packs it with a 2-byte code: once the counter passes 0xffff no freshly built IPv4 packet "
               "can be serialised (struct.error)" % norm(bad[0])[:50], (m4, bad[0]) if bad else c4, 'D5')

def _unparsed_payload (ctx, repo):
  """IPv4 / IPv6: a next-layer object that could not parse its bytes is replaced by those bytes (confirmed on the reference tree
  for exactly these two parsers; icmp.parse, for one, keeps no raw copy, so an unparsed icmp object re-packs as an invented header)"""
  for mname, cname in (('ipv4', 'ipv4'), ('ipv6', 'ipv6')):
    mod = repo.mod(PK + '.' + mname); cls = mod.classes.get(cname)
    f = cls.methods.get('parse') if cls is not None else None
    if f is None: continue
    g = q.cfg_of(f)
    ctor = []; fallback = []; other_fb = []
    for t, v, st, k in q.stores_in(f.node, nested=False):
      if not (isinstance(t, ast.Attribute) and t.attr == 'next' and norm(t.value) == 'self') or v is None: continue
      n = q.enclosing_stmt_node(g, st)
      if isinstance(v, ast.Call) and (kwarg(v, 'raw') is not None or kwarg(v, 'prev') is not None): ctor.append(n)
      elif n is not None and any('.parsed:falsy' in x and 'self.next' in x for x in q.fact_strs(g, n)):
        v2 = v
        if isinstance(v2, ast.Name):
          d_ = q.single_def(f.node, v2.id)
          if d_ is not None: v2 = d_
        if isinstance(v2, ast.Subscript) and isinstance(v2.slice, ast.Slice): fallback.append(n)
        else: other_fb.append(n)
    if not ctor:
      ctx.undecided('R-EFFECT', f, "an unparsed next-layer object is replaced by its bytes", "no next-layer constructor found in parse()", f, 'D2'); continue
    good = bool(fallback) and all(any(fb in g.reachable(c_, exc=False) for fb in fallback) for c_ in ctor if c_ is not None)
    if not good and other_fb: good = None      # something is stored when the next layer did not parse, but not recognisably the bytes
    # ... for *every* object that did not parse: no further condition on the object decides whether it is replaced
    extra = [x for fb in fallback for x in q.fact_strs(g, fb) if 'self.next' in x and '.parsed' not in x and not x.startswith('isinstance(self.next') and 'self.next:' not in x]
    if good and extra:
      ctx.bad('R-EFFECT', f, "every next-layer object that did not parse is replaced by its bytes (no further condition)",
              "the replacement only happens when also `%s`: an object that did not parse but fails that test stays in place, and re-serialising builds a fresh header for it - e.g. a UDP datagram shorter than its 8-byte header "
              "comes back 8 bytes longer, with the IPv4 total length changed" % extra[0], (mod, fallback[0].ast), 'D2')
    ctx.ob('R-EFFECT', f, "an unparsed next-layer object is replaced by its bytes", good, "self.next = raw[...] under `not self.next.parsed` after every constructor" if good else
           "%s.parse keeps a next-layer object that did not parse: packet_base.pack() re-emits such an object from its `raw` copy, which icmp.parse (for one) never stores - an IPv4 datagram with a truncated ICMP header is re-serialised with an invented 4-byte header, longer than it was received"
           % cname, f, 'D2')

def _llc_control (ctx, repo):
  """LLC: the control field is one octet (U format) or two (I / S format).  parse() decides from the received octet, hdr()
  when re-emitting; both evaluated on one frame per format-bit combination: hdr() must emit as many control octets as parse()
  consumed, or everything behind the control field shifts."""
  mod = repo.mod(PK + '.llc'); cls = mod.classes.get('llc') if mod is not None else None
  pf = cls.methods.get('parse') if cls is not None else None; hf = cls.methods.get('hdr') if cls is not None else None
  if pf is None or hf is None: return
  ctx.analysed(pf); ctx.analysed(hf)
  gp = q.cfg_of(pf); gh = q.cfg_of(hf)
  wrong = []; unknown = 0; n = 0
  for c0 in (0x03, 0x13, 0x00, 0x02, 0x01, 0x05, 0x09, 0xf3, 0xaf, 0x7f):
    raw = bytes([0x42, 0x42, c0, 0x00, 1, 2, 3, 4, 5, 6])
    msgm = lambda e: isinstance(e, ast.Call) and call_name(e) in ('msg', 'warn', 'err')
    ends = q.paths_under(repo, mod, gp, q.Env({pf.params[1]: raw, 'self.MIN_LEN': 3, 'self.oui': None, 'isinstance(raw, bytes)': True}, [(msgm, None)]), gp.entry, [gp.exit], cls, limit=40)
    states = set()
    for p_, e_ in ends:
      L = e_.exact.get('self.length'); C = e_.exact.get('self.control')
      states.add((L, C) if isinstance(L, int) and isinstance(C, int) else '?')
    if len(states) != 1 or '?' in states: unknown += 1; continue
    L, C = list(states)[0]
    outs = set()
    for p_, e_ in q.paths_under(repo, mod, gh, q.Env({'self.dsap': 0x42, 'self.ssap': 0x42, 'self.control': C, 'self.length': L, 'self.has_snap': False, 'self.oui': None}), gh.entry, [x for x in gh.nodes if x.kind == 'return'], cls, limit=40):
      try: v_ = q.eval_env2(repo, mod, p_[-1].ast.value, e_, cls)
      except Exception: v_ = '?'
      outs.add(v_ if isinstance(v_, bytes) else '?')
    if len(outs) != 1 or '?' in outs: unknown += 1; continue
    n += 1
    out = list(outs)[0]
    if out != raw[:L]: wrong.append((c0, L, out))
  if unknown and not wrong:
    ctx.undecided('R-AGREE', cls.qual, "LLC control field: hdr() re-emits what parse() consumed", "not evaluable for %d sample frame(s)" % unknown, hf, 'D1')
  else:
    ctx.ob('R-AGREE', cls.qual, "LLC control field: hdr() re-emits what parse() consumed", not wrong, "%d control octets (U, I and S formats)" % n if not wrong else
           "a frame whose first control octet is 0x%02x: parse() consumes a %d-octet header, hdr() emits %s (%d octets) - the payload (and a SNAP OUI / ethertype) behind the control field shifts, the frame "
           "grows or shrinks on every parse-then-serialise pass" % (wrong[0][0], wrong[0][1], wrong[0][2].hex(), len(wrong[0][2])), hf, 'D1')

def _lldp_tlv_header (ctx, repo):
  """LLDP TLV header: 7 bits of type and 9 bits of length.  The two readers (lldp.next_tlv, simple_tlv.parse) evaluated on a
  TLV of type 5 with a 300-byte value (the ninth length bit set) followed by ten more bytes"""
  mod = repo.mod(PK + '.lldp')
  lc = mod.classes.get('lldp'); st = mod.classes.get('simple_tlv')
  raw = struct.pack('!H', (5 << 9) | 300) + b'z' * 300
  if st is not None and st.methods.get('parse') is not None:
    f = st.methods['parse']; ctx.analysed(f); g = q.cfg_of(f)
    seen = []
    def hook (call, env=None):
      if call_name(call) == '_parse_data' and call.args:
        try: seen.append(len(q.eval_env2(repo, mod, call.args[0], env, st)))
        except Exception: seen.append('?')
        return (True, None)
      return (False, None)
    hook.wants_env = True; hook.effects = True
    types_ = set()
    for p_, e_ in q.paths_under(repo, mod, g, q.Env({f.params[1]: raw, 'self.tlv_type': None}, [], hook), g.entry, [g.exit], st, limit=30):
      types_.add(e_.exact.get('self.tlv_type', '?'))
    if not seen or '?' in seen or '?' in types_ or not types_:
      ctx.undecided('R-AGREE', f, "simple_tlv.parse reads 7 bits of type and 9 bits of length", "not evaluable on the sample TLV (%s / %s)" % (seen[:2], sorted(map(str, types_))), f, 'D2')
    else:
      good = set(seen) == {300} and types_ == {5}
      ctx.ob('R-AGREE', f, "simple_tlv.parse reads 7 bits of type and 9 bits of length", good, "type 5, 300 value bytes" if good else
             "for a TLV of type 5 with a 300-byte value the parser hands %s byte(s) to _parse_data and records type %s: the ninth length bit is lost, the value is cut short and parsing continues in the middle of it"
             % (sorted(set(seen)), sorted(types_)), f, 'D2')
  if lc is not None and lc.methods.get('next_tlv') is not None:
    f = lc.methods['next_tlv']; ctx.analysed(f); g = q.cfg_of(f)
    ms = [((lambda e: isinstance(e, ast.Compare) and len(e.ops) == 1 and isinstance(e.ops[0], (ast.In, ast.NotIn)) and 'tlv_parsers' in norm(e.comparators[0])), False)]
    def hook2 (call, env=None):
      if call_name(call) in ('unknown_tlv', 'msg') or isinstance(call.func, ast.Subscript): return (True, q.Rec(name='tlv'))
      if call_name(call) == 'get' and 'tlv_parsers' in norm(call.func.value): return (True, None)
      return (False, None)
    hook2.wants_env = True
    rets = set()
    for p_, e_ in q.paths_under(repo, mod, g, q.Env({f.params[1]: raw + b'Q' * 10}, ms, hook2), g.entry, [n for n in g.nodes if n.kind == 'return'], lc, limit=40):
      try: rets.add(q.eval_env2(repo, mod, p_[-1].ast.value, e_, lc) if p_[-1].ast.value is not None else None)
      except Exception: rets.add('?')
    if not rets or '?' in rets:
      ctx.undecided('R-AGREE', f, "lldp.next_tlv advances by 2 + the 9-bit length", "not evaluable on the sample TLV (%s)" % sorted(map(str, rets)), f, 'D2')
    else:
      ctx.ob('R-AGREE', f, "lldp.next_tlv advances by 2 + the 9-bit length", rets == {302}, "302" if rets == {302} else
             "for a TLV with a 300-byte value next_tlv returns %s instead of 302: the next TLV is read from the middle of this one's value" % sorted(map(str, rets)), f, 'D2')

def _hdr_copies (ctx, repo):
  """a checksum method that re-creates its own header with self.hdr(...) must get the header that is emitted, except for the
  checksum itself: any other switch of hdr() keeps the value packet_base.pack() uses (its default)"""
  n = 0
  for mname in ('tcp', 'udp', 'icmp', 'icmpv6', 'igmp', 'ipv4'):
    try: mod = repo.mod(PK + '.' + mname)
    except Exception: continue
    for cls in mod.classes.values():
      f = cls.methods.get('checksum'); hf = cls.methods.get('hdr')
      if f is None or hf is None: continue
      a = hf.node.args
      defaults = dict(zip([x.arg for x in a.args][len(a.args) - len(a.defaults):], a.defaults))
      for c in calls_in(f.node):
        if not (call_name(c) == 'hdr' and isinstance(c.func, ast.Attribute) and norm(c.func.value) == 'self'): continue
        n += 1
        given = {}
        for i, x in enumerate(c.args):
          if i + 1 < len(hf.params): given[hf.params[i + 1]] = x
        for k in c.keywords:
          if k.arg: given[k.arg] = k.value
        off = [(k_, v_) for k_, v_ in given.items() if k_ in defaults and 'checksum' not in k_ and 'csum' not in k_ and norm(v_) != norm(defaults[k_])]
        ctx.ob('R-AGREE', f, "the header copy that is checksummed is built like the emitted one (`%s`)" % norm(c)[:60], not off, "only the checksum computation is switched off" if not off else
               "the copy is built with %s (emission uses the default %s): the derived field this switch controls is recomputed in the emitted header but not in the checksummed copy, so the two differ whenever it changes (e.g. the data offset with TCP options)"
               % (", ".join("%s=%s" % (k_, norm(v_)) for k_, v_ in off), ", ".join(norm(defaults[k_]) for k_, v_ in off)), (mod, c), 'D3')
  ctx.stat('checksum methods rebuilding their header through hdr()', n)

def _ipv4_sum_covers_header (ctx, repo):
  """IPv4: the header checksum covers the whole header - options included.  Structurally: every attribute of self that hdr() puts
  into the bytes it returns (other than the checksum itself) is also read by what checksum() sums."""
  try: mod = repo.mod(PK + '.ipv4')
  except Exception: return
  cls = mod.classes.get('ipv4')
  f = cls.methods.get('checksum') if cls else None; hf = cls.methods.get('hdr') if cls else None
  if f is None or hf is None: return
  def attrs (fn, exprs):
    out = set()
    for e in exprs:
      for x in ast.walk(e):
        if isinstance(x, ast.Attribute) and norm(x.value) == 'self' and isinstance(x.ctx, ast.Load) and x.attr not in cls.methods: out.add(x.attr)
        # a local that was computed from attributes counts through its definition
        if isinstance(x, ast.Name) and isinstance(x.ctx, ast.Load):
          for v_, st_, k_ in q.reaching_assign(fn.node, x.id):
            if v_ is not None and v_ is not e:
              for y in ast.walk(v_):
                if isinstance(y, ast.Attribute) and norm(y.value) == 'self' and isinstance(y.ctx, ast.Load) and y.attr not in cls.methods: out.add(y.attr)
    return out
  hr = [r.value for r in q.returns_of(hf.node) if r.value is not None]
  sums = [c.args[0] for c in calls_in(f.node) if call_name(c) == 'checksum' and not (isinstance(c.func, ast.Attribute) and norm(c.func.value) == 'self') and c.args]
  if not hr or not sums:
    ctx.undecided('R-AGREE', f, "the IPv4 header checksum covers every byte hdr() emits", "return of hdr() / summed expression not found", f, 'D3'); return
  emitted = attrs(hf, hr) - {'csum'}; summed = attrs(f, sums)
  missing = sorted(emitted - summed)
  ctx.ob('R-AGREE', f, "the IPv4 header checksum covers every byte hdr() emits", not missing, "%d attributes emitted, all summed" % len(emitted) if not missing else
         "hdr() emits self.%s but checksum() does not sum it: a header that carries it (IHL > 5: options) goes out with a checksum computed over the fixed 20 bytes only - every router drops the packet" % ", self.".join(missing), f, 'D3')

def _udp_zero (ctx, repo):
  """UDP: a computed checksum of zero goes on the wire as 0xffff (zero means 'no checksum', and is illegal over IPv6);
  decided by evaluating udp.checksum() with the sum routine answering 0 and 0x1234"""
  mod = repo.mod(PK + '.udp'); cls = mod.classes.get('udp')
  f = cls.methods.get('checksum') if cls is not None else None
  if f is None: return
  g = q.cfg_of(f)
  for ipname in ('ipv4', 'ipv6'):
    res = {}
    for sumv in (0, 0x1234):
      def hook (call, env=None, sumv=sumv):
        if isinstance(call.func, ast.Name) and call.func.id == 'checksum': return (True, sumv)
        return (False, None)
      env = q.Env({'self.prev.__class__.__name__': ipname, f.params[1] if len(f.params) > 1 else 'unparsed': True}, [], hook)
      vals = set()
      after = set()
      for n in g.nodes_with_call(lambda c: isinstance(c.func, ast.Name) and c.func.id == 'checksum'): after |= g.reachable(n, exc=False) | {n}
      rets = [n for n in g.nodes if n.kind == 'return' and n in after]
      for p_, e_ in q.paths_under(repo, mod, g, env, g.entry, rets, cls, limit=40):
        try: vals.add(q.eval_env2(repo, mod, p_[-1].ast.value, e_, cls))
        except Exception: vals.add('?')
      res[sumv] = vals
    if not res[0] or '?' in res[0] or '?' in res[0x1234]:
      ctx.undecided('R-AGREE', f, "UDP over %s: a zero sum is sent as 0xffff" % ipname, "result not evaluable (%s)" % res, f, 'D4')
    else:
      good = res[0] == {0xffff} and res[0x1234] == {0x1234}
      ctx.ob('R-AGREE', f, "UDP over %s: a zero sum is sent as 0xffff, any other sum unchanged" % ipname, good, "0 -> 0xffff, 0x1234 -> 0x1234" if good else
             "when the one's complement sum comes out as 0 the method returns %s (and %s for 0x1234): a datagram whose checksum computes to zero is sent as 'no checksum' - receivers skip validation over IPv4 and drop it over IPv6"
             % (sorted(res[0]), sorted(res[0x1234])), f, 'D4')

def _option_walkers (ctx, repo):
  """loops that advance by 1 for one-byte options must run while a single byte remains"""
  mod = repo.mod(PK + '.tcp'); cls = mod.classes.get('tcp')
  f = cls.methods.get('parse_options') if cls else None
  if f is None: raise AnalysisError("tcp.parse_options vanished")
  ctx.analysed(f)
  g = q.cfg_of(f)
  n = 0
  for (st, h, a) in g.loop_nodes:
    if not isinstance(st, ast.While): continue
    paths = q.paths_under(repo, mod, g, q.Env(), h, [h], cls, limit=100)
    one = False
    for path, fe in paths:
      for s in progress.steps_on_path(f.node, path):
        if s.kind == 'add' and (q.try_int(s.size) if not isinstance(s.size, int) else s.size) == 1: one = True
    if not one: continue
    n += 1
    need = None
    tests = [(st.test, True)]
    if isinstance(st.test, ast.Constant):
      # `while True:` - the loop runs while the tests guarding its breaks are false
      tests = []
      for bn in g.nodes:
        if bn.kind == 'break' and any(m is a for m, l_ in bn.succ):
          gs = [(t_, pol) for t_, pol, b_ in g.guards(bn) if not isinstance(t_, (ast.For, ast.AsyncFor)) and g.dominates(h, b_)]
          if len(gs) == 1: tests.append((gs[0][0], not gs[0][1]))
      tests = tests[:1]
    for l, o, r in [f_ for t_, pol in tests for f_ in q.facts_of(t_, pol)]:
      if r is None: continue
      lb, lk = q.linear(l, None); rb, rk = q.linear(r, None)
      # cursor + lk  OP  end + rk   ->  remaining = end - cursor  >= ?
      if o == '<': need = lk - rk + 1
      elif o == '<=': need = lk - rk
      elif o == '>': need = rk - lk + 1
      elif o == '>=': need = rk - lk
    good = need is not None and need <= 1
    ctx.ob('R-DOM', f, "the option walker runs while a single byte is left (one-byte options: NOP / EOL)", good,
           "`while %s` needs %s byte(s) remaining" % (norm(st.test), need) if good else
           "`while %s` needs %s bytes remaining although one-byte options exist: a NOP in the last header byte is never parsed and the re-serialised header differs" % (norm(st.test), need), (mod, st), 'D6')
  ctx.floor('option walkers with one-byte options', n, 1)


def _sample_roundtrips (ctx, repo):
  """Small fixed headers, by evaluation of both directions on sample field values: hdr() evaluated to concrete bytes, parse() evaluated
  on those bytes, the fields compared - including the boundary values a presence flag depends on (a field that is 0 is not a field
  that is absent) and the extremes of bit-fields packed together."""
  SAMPLES = [('vxlan', 'vxlan', [{'vni': None}, {'vni': 0}, {'vni': 5}, {'vni': 0xabcdef}]),
             ('mpls', 'mpls', [{'label': 0, 'tc': 0, 's': 1, 'ttl': 0}, {'label': 0xfffff, 'tc': 7, 's': 1, 'ttl': 255}, {'label': 0x12345, 'tc': 5, 's': 1, 'ttl': 64}, {'label': 16, 'tc': 1, 's': 1, 'ttl': 1}]),
             ('vlan', 'vlan', [{'pcp': 0, 'cfi': 0, 'id': 0, 'eth_type': 0x88b5}, {'pcp': 7, 'cfi': 1, 'id': 0xfff, 'eth_type': 0x88b5}, {'pcp': 5, 'cfi': 0, 'id': 0x123, 'eth_type': 0x88b5}])]
  n_dec = 0
  for mn, cn, samples in SAMPLES:
    mod = repo.mod(PK + '.' + mn); cls = mod.classes.get(cn) if mod is not None else None
    hf = cls.methods.get('hdr') if cls is not None else None; pf = cls.methods.get('parse') if cls is not None else None
    if hf is None or pf is None: continue
    ctx.analysed(hf); ctx.analysed(pf)
    consts = {}
    for k_, v_ in cls.assigns.items():
      try:
        c_ = repo.try_const(mod, v_, cls)
        if isinstance(c_, int): consts['self.' + k_] = c_; consts['%s.%s' % (cn, k_)] = c_
      except Exception: pass
    gh, gp = q.cfg_of(hf), q.cfg_of(pf)
    is_log = lambda e: isinstance(e, ast.Call) and call_name(e) in ('msg', 'err', 'warn')
    pure = q.PureCallHook(repo, mod)
    def hook (call, env=None):
      if isinstance(call.func, ast.Name) and call.func.id == 'isinstance': return (True, True)
      if isinstance(call.func, ast.Name) and (call.func.id in ('ethernet', cn) or call.func.id in mod.classes): return (True, 'NEXT')
      if isinstance(call.func, ast.Attribute) and call.func.attr in ('parse_next', 'set_payload'): return (True, 'NEXT')
      return pure(call, env) if getattr(pure, 'wants_env', False) else pure(call)
    hook.wants_env = True
    wrong = []; unknown = False
    for smp in samples:
      outs = set()
      for p_, e_ in q.paths_under(repo, mod, gh, q.Env(dict(consts, **dict(('self.' + k_, v_) for k_, v_ in smp.items())), [], pure), gh.entry, [n for n in gh.nodes if n.kind == 'return'], cls, limit=20):
        try: outs.add(q.eval_env2(repo, mod, p_[-1].ast.value, e_, cls))
        except Exception: outs.add('?')
      if len(outs) != 1 or not isinstance(list(outs)[0], bytes): unknown = True; continue
      raw = list(outs)[0] + b'\0' * 14
      back = []
      for p_, e_ in q.paths_under(repo, mod, gp, q.Env(dict(consts, **{pf.params[1]: raw}), [(is_log, None)], hook), gp.entry, [gp.exit], cls, limit=20):
        back.append(dict((k_, e_.exact.get('self.' + k_, '?')) for k_ in smp))
      if len(back) != 1 or '?' in back[0].values(): unknown = True; continue
      n_dec += 1
      if back[0] != smp: wrong.append((smp, list(outs)[0], back[0]))
    flds = sorted(samples[0])
    if unknown and not wrong:
      ctx.undecided('R-AGREE', hf, "%s fields %s survive hdr() -> parse() on sample values" % (cn, flds), "not evaluable for every sample", hf, 'D2'); continue
    ctx.ob('R-AGREE', hf, "%s fields %s survive hdr() -> parse() on %d sample headers" % (cn, flds, len(samples)), not wrong, "evaluated both directions" if not wrong else
           "%r is emitted as %r, which parse() reads back as %r: the header fields do not survive build -> bytes -> parse (lengths and checksums stay valid, nothing raises)" % wrong[0], hf, 'D2')
  ctx.stat('sample round trips decided', n_dec)
