"""C15 - parsing untrusted frames never fails (partial property, structural part).

Interprocedural exception-escape analysis over pox/lib/packet, rooted at ethernet.parse:

 D1 R-DOM     every struct read / constant index on frame bytes is either proven in range by dominating length
              guards (calcsize / slice bounds vs guarded len) or contained by a try that catches it on every call
              chain from the root
 D2 R-CONTAIN explicit raises and asserts on wire values inside parse chains are caught inside the chain
 D3 R-AGREE   slice width handed to struct.unpack equals calcsize(fmt)
 D4 R-AGREE   printing / re-serialising: parse() and hdr() use the same struct code per field (a value that parsed
              must pack); __str__ goes through packet_base's catch-all
 D5 R-PROGRESS parser loops driven by frame bytes advance
"""
import ast, struct
from .. import q, defs, btypes, progress
from ..model import AnalysisError, Cls, Func, ModRef, calls_in, call_name, norm, kwarg, walk_no_nested
from . import c14

EXPLAIN = ("Interprocedural exception-escape analysis rooted at ethernet.parse over every parse / unpack_new / _parse_data reachable "
           "through constructors, parse_next and protocol dispatch: raising primitives (struct reads, constant indices, explicit "
           "raises, wire-value asserts, class-vs-module attribute misuse) must be guarded by dominating length tests (format "
           "arithmetic) or caught by a try on every chain; slice widths equal calcsize; parse/hdr struct codes agree; __str__ "
           "contained; parser loops progress; output side (c15b E1-E8): own __str__ methods, parser/serialiser tuple arity, attributes hdr() reads after an early "
           "return of parse(), checksum asserts, RecursionError containment of self-nesting headers, TLV value slices, remaining-length accounting. "
           "Decides these necessary conditions, not totality of parsing.")
PK = 'pox.lib.packet'

class Site(object):
  def __init__ (self, func, node, kind, exc, need, what): self.func = func; self.node = node; self.kind = kind; self.exc = exc; self.need = need; self.what = what

def _catches (handler, exc):
  if handler.type is None: return True
  t = handler.type
  names = []
  for e in (t.elts if isinstance(t, ast.Tuple) else [t]):
    names.append(e.id if isinstance(e, ast.Name) else (e.attr if isinstance(e, ast.Attribute) else None))
  if 'Exception' in names or 'BaseException' in names: return True
  if exc is None: return False
  HIER = {'error': ('error',), 'TruncatedException': ('TruncatedException', 'RuntimeError'), 'RuntimeError': ('RuntimeError',), 'AssertionError': ('AssertionError',),
          'IndexError': ('IndexError', 'LookupError'), 'AttributeError': ('AttributeError',), 'UnderrunError': ('UnderrunError', 'RuntimeError'), 'ValueError': ('ValueError',), 'KeyError': ('KeyError', 'LookupError'), 'TypeError': ('TypeError',)}
  return any(n in HIER.get(exc, (exc,)) for n in names)

def _contained_locally (g, node, exc):
  """is an exception `exc` raised by CFG node caught inside this function (some enclosing try catches it)?"""
  for t in reversed(g.try_of.get(node, ())):
    if any(_catches(h, exc) for h in t.handlers): return True
  return False

def _lenvars (f, buf):
  """expressions whose value is <= len(buf): len(buf), len(alias) for aliases that are buf or a prefix slice of buf,
  and locals defined as such"""
  aliases = set([buf])
  for t, v, st, k in q.stores_in(f.node, nested=False):
    if v is None or k != 'assign': continue
    if norm(v) == buf or (isinstance(v, ast.Subscript) and isinstance(v.slice, ast.Slice) and v.slice.lower is None and norm(v.value) == buf):
      others = [vv for tt, vv, ss, kk in q.stores_in(f.node, nested=False) if norm(tt) == norm(t) and vv is not None]
      if all(norm(o) == buf or (isinstance(o, ast.Subscript) and isinstance(o.slice, ast.Slice) and o.slice.lower is None and norm(o.value) == buf) for o in others):
        aliases.add(norm(t))
  out = set('len(%s)' % a for a in aliases)
  for t, v, st, k in q.stores_in(f.node, nested=False):
    if isinstance(t, ast.Name) and v is not None and norm(v) in set(out): out.add(t.id)
  return out

def _prove_len (repo, f, g, node, buf, need_expr, limit=250):
  """Does every feasible path from the entry to `node` establish len(buf) >= need (need_expr evaluated with constant
  propagation along the path)?  Returns ('proved'|'violated'|'undecided', detail)."""
  lenvars = _lenvars(f, buf)
  mod = f.module; cls = f.cls
  paths = q.paths_under(repo, mod, g, q.Env(), g.entry, [node], cls, limit=limit)
  if not paths: return 'undecided', "no path enumerated"
  if len(paths) >= limit: return 'undecided', "more than %d paths to the site" % limit
  worst = None
  def contradictory (path):
    # the same side-effect-free test taken both ways with nothing it reads written in between (a guard `if A and short: return`
    # followed by `if A: read`): not a path of the program
    seen = {}
    for i, n in enumerate(path):
      a = n.ast
      if n.kind == 'branch' and not isinstance(n.label[0], (ast.For, ast.AsyncFor)) and not any(isinstance(x, ast.Call) for x in ast.walk(n.label[0])):
        k = norm(n.label[0])
        if k in seen and seen[k] != n.label[1]: return True
        seen[k] = n.label[1]
      elif a is not None and isinstance(a, (ast.Assign, ast.AugAssign, ast.AnnAssign, ast.Delete, ast.For)):
        tg = []
        for t in (a.targets if isinstance(a, (ast.Assign, ast.Delete)) else [a.target]):
          tg += [norm(x) for x in ast.walk(t) if isinstance(x, (ast.Name, ast.Attribute, ast.Subscript))]
        for k in list(seen):
          if any(t and t in k for t in tg): del seen[k]
      elif a is not None and n.kind not in ('branch',) and any(isinstance(x, ast.Call) for x in ast.walk(a) if not isinstance(a, (ast.If, ast.While))):
        # a call may change attributes: forget tests that read attributes
        for k in list(seen):
          if '.' in k: del seen[k]
    return False
  for path, fe in paths:
    if contradictory(path): continue
    have = 0; env_at = None
    for n, env in q.replay(repo, mod, path, q.Env(), cls):
      if n is node: env_at = env; break
      if n.kind == 'branch' and not isinstance(n.label[0], (ast.For, ast.AsyncFor)):
        for (l, o, r) in q.facts_of(n.label[0], n.label[1]):
          if r is None: continue
          for (a, op, c) in ((l, o, r), (r, q.flip(o), l)):
            if op is None or norm(a) not in lenvars: continue
            try: k = q.eval_env2(repo, mod, c, env, cls)
            except Exception: continue
            if not isinstance(k, int) or isinstance(k, bool): continue
            if op == '>=': have = max(have, k)
            elif op == '>': have = max(have, k + 1)
            elif op == '==': have = max(have, k)
    if env_at is None: continue
    try: need = q.eval_env2(repo, mod, need_expr, env_at, cls)
    except Exception: need = None
    if not isinstance(need, int): return 'undecided', "needed length `%s` is not constant on some path" % norm(need_expr)
    if need > have:
      lines = []
      for n in path:
        if n.line and (not lines or lines[-1] != n.line): lines.append(n.line)
      worst = (need, have, lines)
  if worst is None: return 'proved', "every path establishes the needed length"
  return 'violated', "on the path through lines %s the read needs %d byte(s) of `%s` but the guards on that path only establish %d" % (worst[2][-8:], worst[0], buf, worst[1])

def _is_dict_table (repo, f, e):
  """is expression `e` (cls.X / self.X / Class.X / module-level X) bound to a dict display, a dict comprehension or dict(...)?"""
  v = None
  if isinstance(e, ast.Attribute) and isinstance(e.value, ast.Name) and f.cls is not None:
    k = f.cls if e.value.id in ('self', 'cls') else f.module.lookup(e.value.id)
    if isinstance(k, Cls):
      c_, v = k.find_assign(e.attr)
  elif isinstance(e, ast.Name) and not q.reaching_assign(f.node, e.id) and e.id not in f.params:
    r = f.module.lookup(e.id)
    if isinstance(r, tuple) and r[0] == 'const': v = r[2]
  if v is None: return False
  return isinstance(v, (ast.Dict, ast.DictComp)) or (isinstance(v, ast.Call) and call_name(v) == 'dict')

def _sites (repo, f):
  """raising sites local to function f (already filtered by length proofs, not by try): (sites, undecided, cfg)"""
  out = []; und = []
  g = q.cfg_of(f)
  mod = f.module
  params = f.params
  bufs = set(p for p in params if p in ('raw', 'data', 'buf', 'arr', 'array', 'packed', 'barr'))
  for t, v, st, k in q.stores_in(f.node, nested=False):
    if isinstance(t, ast.Name) and v is not None and isinstance(v, ast.Name) and v.id in bufs: bufs.add(t.id)
  # a local byte sequence that a loop walks by index (`while i < len(body): ... body[i+1]`): reads beyond the tested position are decided
  # symbolically - the loop test `i < len(X)` establishes len(X) >= i+1, so `X[i+k]` with k >= 1 needs a stronger guard
  walked = set()
  for st_, h_, a_ in g.loop_nodes:
    if isinstance(st_, ast.While):
      for x_ in ast.walk(st_.test):
        if isinstance(x_, ast.Call) and call_name(x_) == 'len' and len(x_.args) == 1 and isinstance(x_.args[0], ast.Name) and x_.args[0].id not in bufs: walked.add(x_.args[0].id)
  for n in g.nodes:
    a = n.ast
    if a is None or n.kind in ('def', 'branch', 'handler', 'for', 'join') or not walked: continue
    for x in (walk_no_nested(a) if not isinstance(a, (ast.With, ast.If, ast.While, ast.For, ast.Try)) else []):
      if not (isinstance(x, ast.Subscript) and isinstance(x.ctx, ast.Load) and isinstance(x.value, ast.Name) and x.value.id in walked and not isinstance(x.slice, ast.Slice)): continue
      idx = q.lin_terms(x.slice)
      if idx is None or len(idx[0]) != 1 or list(idx[0].values()) != [1] or idx[1] < 1: continue
      iv = list(idx[0])[0]; L = 'len(%s)' % x.value.id
      target = ({L: 1, iv: -1}, -idx[1] - 1)                       # len(X) - i - k - 1 >= 0
      facts = [q.fact_as_ge0(l_, o_, r_) for (l_, o_, r_, b_) in q.guard_facts(g, n) if r_ is not None]
      rel = [f_ for f_ in facts if f_ is not None and set(f_[0]) == {L, iv}]
      if not rel or any(q.implies_ge0(f_, target) for f_ in rel): continue
      if _contained_locally(g, n, 'IndexError'): continue
      best = max(f_[1] for f_ in rel if f_[0] == target[0]) if any(f_[0] == target[0] for f_ in rel) else None
      if best is None: continue
      out.append(Site(f, n, 'index', 'IndexError', None, "index `%s`: the guards establish len(%s) >= %s%+d, the read needs len(%s) >= %s%+d" % (norm(x), x.value.id, iv, -best, x.value.id, iv, idx[1] + 1)))
  def plus (e, k):
    return ast.BinOp(left=e, op=ast.Add(), right=ast.Constant(value=k)) if k else e
  for n in g.nodes:
    a = n.ast
    if a is None or n.kind in ('def', 'branch', 'handler', 'for', 'join'): continue
    if n.kind == 'raise_stmt':
      ex = a.exc
      if ex is None: continue            # bare re-raise inside a handler: accounted by the original site
      nm = call_name(ex) if isinstance(ex, ast.Call) else (ex.id if isinstance(ex, ast.Name) else (ex.attr if isinstance(ex, ast.Attribute) else None))
      out.append(Site(f, n, 'raise', nm, None, "raise %s" % nm)); continue
    if n.kind == 'cond' and isinstance(n.stmt, ast.Assert):
      t = norm(n.ast)
      if t.startswith('isinstance(') or 'assert_type' in t: continue
      if _assert_cannot_fail(f, g, n): continue
      out.append(Site(f, n, 'assert', 'AssertionError', None, "assert %s" % t[:50])); continue
    srcs = [a] if not isinstance(a, ast.With) else [i.context_expr for i in a.items]
    for s in srcs:
      for x in ([s] if isinstance(s, ast.Call) else []) + [y for y in walk_no_nested(s)]:
        if isinstance(x, ast.Call) and call_name(x) in ('unpack', 'unpack_from') and isinstance(x.func, ast.Attribute) and norm(x.func.value) == 'struct' and len(x.args) >= 2:
          fmt = repo.try_const(mod, x.args[0], f.cls)
          if not isinstance(fmt, str): continue
          size = struct.calcsize(fmt)
          arg = x.args[1]
          buf = None; need = None
          if call_name(x) == 'unpack':
            if isinstance(arg, ast.Subscript) and isinstance(arg.slice, ast.Slice) and isinstance(arg.value, ast.Name):
              buf = arg.value.id
              lo = arg.slice.lower or ast.Constant(value=0); hi = arg.slice.upper
              need = hi if hi is not None else plus(lo, size)
              if hi is not None:
                w = q.linear(ast.BinOp(left=hi, op=ast.Sub(), right=lo), f.node)
                lb, lk = q.linear(lo, None); hb, hk = q.linear(hi, None)
                width = (hk - lk) if lb == hb else None
                if width is None:
                  a_ = repo.try_const(mod, lo, f.cls); b_ = repo.try_const(mod, hi, f.cls)
                  if isinstance(a_, int) and isinstance(b_, int): width = b_ - a_
                if width is not None and width != size:
                  out.append(Site(f, n, 'width', 'error', None, "struct.unpack(%r) is given a %d-byte slice but the format needs %d" % (fmt, width, size))); continue
            elif isinstance(arg, ast.Name): buf = arg.id; need = ast.Constant(value=size)
            else: continue          # bytes built on the spot (e.g. padded tail): not a frame-length question
          else:
            if isinstance(arg, ast.Name):
              buf = arg.id
              off = x.args[2] if len(x.args) > 2 else ast.Constant(value=0)
              need = plus(off, size)
            else: continue
          if buf is None or buf not in bufs and buf != 'raw': 
            if buf is None: continue
          verdict, why = _prove_len(repo, f, g, n, buf, need)
          what = "struct read `%s`" % norm(x)[:60]
          if verdict == 'proved': continue
          if verdict == 'undecided':
            # not provable.  If nothing that dominates the read even looks at the buffer's length (here or, for a
            # helper, at its call sites - checked by the caller of _sites) it is a candidate for a plain violation
            lv = _lenvars(f, buf)
            looks = any(any(v_ in txt for v_ in lv) or 'len(' in txt for txt in q.fact_strs(g, n))
            sx = Site(f, n, 'struct', 'error', None, what + ": " + why)
            sx.unguarded = not looks
            und.append(sx); continue
          out.append(Site(f, n, 'struct', 'error', None, what + ": " + why))
        elif isinstance(x, ast.Subscript) and isinstance(x.ctx, ast.Load) and not isinstance(x.slice, (ast.Slice, ast.Constant)) and _is_dict_table(repo, f, x.value):
          # a lookup table (dict) indexed with a value that is not a constant: a key the table does not list raises KeyError
          fs_ = q.fact_strs(g, n)
          if any((' in %s' % norm(x.value)) in f_ and 'not in' not in f_ for f_ in fs_): continue
          out.append(Site(f, n, 'key', 'KeyError', None, "table lookup `%s` with a key taken from the frame" % norm(x)[:50]))
        elif isinstance(x, ast.Subscript) and isinstance(x.ctx, ast.Load) and isinstance(x.value, ast.Name) and x.value.id in bufs and not isinstance(x.slice, ast.Slice):
          if isinstance(x.slice, ast.UnaryOp): continue
          verdict, why = _prove_len(repo, f, g, n, x.value.id, plus(x.slice, 1))
          what = "index `%s`" % norm(x)
          if verdict == 'proved': continue
          if verdict == 'undecided': und.append(Site(f, n, 'index', 'IndexError', None, what + ": " + why)); continue
          out.append(Site(f, n, 'index', 'IndexError', None, what + ": " + why))
  # an element read from a fixed slice of the frame kept in a field or local (`self.magic = raw[236:240]` ... `self.magic[i]`):
  # a slice never raises, it is just shorter - the element read needs the frame to reach that far
  slices = {}
  for t, v, st, k in q.stores_in(f.node, nested=False):
    if k != 'assign' or v is None or not (isinstance(v, ast.Subscript) and isinstance(v.slice, ast.Slice) and isinstance(v.value, ast.Name) and v.value.id in bufs): continue
    lo = repo.try_const(mod, v.slice.lower, f.cls) if v.slice.lower is not None else 0
    hi = repo.try_const(mod, v.slice.upper, f.cls) if v.slice.upper is not None else None
    if isinstance(lo, int) and (hi is None or isinstance(hi, int)) and isinstance(t, (ast.Name, ast.Attribute)):
      key = norm(t)
      slices[key] = None if key in slices else (v.value.id, lo, hi)        # a name bound to two different slices is not tracked
  slices = dict((k_, v_) for k_, v_ in slices.items() if v_ is not None)
  if slices:
    for n in g.nodes:
      a = n.ast
      if a is None or n.kind in ('def', 'branch', 'handler', 'for', 'join'): continue
      for x in walk_no_nested(a) if not isinstance(a, ast.With) else []:
        if not (isinstance(x, ast.Subscript) and isinstance(x.ctx, ast.Load) and not isinstance(x.slice, ast.Slice) and norm(x.value) in slices): continue
        # other stores to the same target would make the binding ambiguous
        if len([1 for t, v, st, k in q.stores_in(f.node, nested=False) if norm(t) == norm(x.value)]) != 1: continue
        buf, lo, hi = slices[norm(x.value)]
        idx = repo.try_const(mod, x.slice, f.cls)
        if not isinstance(idx, int) and isinstance(x.slice, ast.Name):
          # loop variable of an enclosing `for i in range(N)`
          for st_, h_, af_ in g.loop_nodes:
            if isinstance(st_, ast.For) and isinstance(st_.target, ast.Name) and st_.target.id == x.slice.id and isinstance(st_.iter, ast.Call) and call_name(st_.iter) == 'range' and len(st_.iter.args) == 1 \
               and any(y is x for b_ in st_.body for y in ast.walk(b_)):
              nmax = repo.try_const(mod, st_.iter.args[0], f.cls)
              if isinstance(nmax, int) and nmax > 0: idx = nmax - 1
        if not isinstance(idx, int) or idx < 0: continue
        if _contained_locally(g, n, 'IndexError'): continue
        verdict, why = _prove_len(repo, f, g, n, buf, ast.Constant(value=lo + idx + 1))
        what = "index `%s` (with `%s = %s[%s:%s]`)" % (norm(x), norm(x.value), buf, lo, hi if hi is not None else '')
        if verdict == 'proved': continue
        if verdict == 'undecided': und.append(Site(f, n, 'index', 'IndexError', None, what + ": " + why)); continue
        out.append(Site(f, n, 'index', 'IndexError', None, what + ": " + why))
  return out, und, g

_UMAX = {'B': 255, 'H': 65535, 'I': 2 ** 32 - 1, 'L': 2 ** 32 - 1, 'Q': 2 ** 64 - 1}
def _value_range (f, e, depth=0):
  """(lo, hi) of an integer expression made of unsigned struct fields, shifts and masks; None when not of that shape"""
  if depth > 4: return None
  if isinstance(e, ast.Constant) and isinstance(e.value, int) and not isinstance(e.value, bool): return (e.value, e.value)
  if isinstance(e, ast.BinOp) and isinstance(e.op, ast.RShift):
    a = _value_range(f, e.left, depth + 1); b = _value_range(f, e.right, depth + 1)
    if a and b and b[0] == b[1] and a[0] >= 0 and b[0] >= 0: return (a[0] >> b[0], a[1] >> b[0])
    return None
  if isinstance(e, ast.BinOp) and isinstance(e.op, ast.BitAnd):
    a = _value_range(f, e.left, depth + 1); b = _value_range(f, e.right, depth + 1)
    for x, y in ((a, b), (b, a)):
      if y and y[0] == y[1] and y[0] >= 0: return (0, min(x[1], y[0]) if x and x[0] >= 0 else y[0])
    return None
  if isinstance(e, ast.Subscript) and isinstance(e.slice, ast.Constant) and isinstance(e.slice.value, int) and isinstance(e.value, ast.Call) and call_name(e.value) in ('unpack', 'unpack_from') \
     and e.value.args and isinstance(e.value.args[0], ast.Constant) and isinstance(e.value.args[0].value, str):
    import re as _re
    codes = []
    for cnt_, ch_ in _re.findall(r'(\d*)([a-zA-Z?])', e.value.args[0].value.lstrip('@=<>!')):
      codes += [ch_] if ch_ in 'sp' else ([] if ch_ == 'x' else [ch_] * (int(cnt_) if cnt_ else 1))
    if 0 <= e.slice.value < len(codes) and codes[e.slice.value] in _UMAX: return (0, _UMAX[codes[e.slice.value]])
    return None
  if isinstance(e, ast.BinOp) and isinstance(e.op, ast.Sub):
    # a - b >= 0 when a dominating fact is not needed: only the trivial len(x) - const form is left to the guard rule
    return None
  if isinstance(e, (ast.Name, ast.Attribute)):
    key = norm(e)
    defs_ = [(t_, v_, st_, k_) for t_, v_, st_, k_ in q.stores_in(f.node, nested=False) if norm(t_) == key]
    if not defs_ or (isinstance(e, ast.Attribute) and norm(e.value) != 'self'): return None
    lo = hi = None
    for t_, v_, st_, k_ in defs_:
      if k_ != 'assign' or v_ is None: return None
      tgt = st_.targets[0] if isinstance(st_, ast.Assign) else None
      r = None
      if isinstance(tgt, (ast.Tuple, ast.List)) and isinstance(v_, ast.Call) and call_name(v_) in ('unpack', 'unpack_from') and v_.args and isinstance(v_.args[0], ast.Constant) and isinstance(v_.args[0].value, str):
        import re as _re
        codes = []
        for cnt_, ch_ in _re.findall(r'(\d*)([a-zA-Z?])', v_.args[0].value.lstrip('@=<>!')):
          codes += [ch_] if ch_ in 'sp' else ([] if ch_ == 'x' else [ch_] * (int(cnt_) if cnt_ else 1))
        idx = [i_ for i_, x_ in enumerate(tgt.elts) if norm(x_) == key]
        if idx and len(codes) == len(tgt.elts) and codes[idx[0]] in _UMAX: r = (0, _UMAX[codes[idx[0]]])
      elif isinstance(tgt, (ast.Name, ast.Attribute)):
        r = _value_range(f, v_, depth + 1)
      if r is None: return None
      lo = r[0] if lo is None else min(lo, r[0]); hi = r[1] if hi is None else max(hi, r[1])
    return (lo, hi)
  return None

def _assert_cannot_fail (f, g, n):
  """an assertion that restates what is already known at that point: a dominating guard implies it, or it bounds an unsigned struct
  field / a shift or mask of one by its type's range"""
  t = n.ast
  if not (isinstance(t, ast.Compare) and len(t.ops) == 1): return False
  op = {ast.Lt: '<', ast.LtE: '<=', ast.Gt: '>', ast.GtE: '>=', ast.Eq: '=='}.get(type(t.ops[0]))
  if op is None: return False
  l, r = t.left, t.comparators[0]
  al = {}
  def canon (e):      # ClassName.MIN_LEN and self.MIN_LEN name the same constant inside the class
    tx = norm(e)
    return tx
  def subst (e):      # a value stored just before: self.payload_len = frame_len - min_len
    if isinstance(e, (ast.Name, ast.Attribute)):
      ds_ = [v_ for t_, v_, st_, k_ in q.stores_in(f.node, nested=False) if norm(t_) == norm(e) and k_ == 'assign' and v_ is not None]
      if len(ds_) == 1 and isinstance(ds_[0], ast.BinOp) and q.lin_terms(ds_[0]) is not None: return ds_[0]
    return e
  target = q.fact_as_ge0(subst(l), op, subst(r))
  if target is not None:
    tks = dict((k.replace('self.', '').split('.')[-1] if k.endswith('MIN_LEN') else k, v) for k, v in target[0].items())
    for (fl, fo, fr, fb) in q.guard_facts(g, n, exc=False):
      if fr is None: continue
      ff = q.fact_as_ge0(fl, fo, fr)
      if ff is None: continue
      fks = dict((k.replace('self.', '').split('.')[-1] if k.endswith('MIN_LEN') else k, v) for k, v in ff[0].items())
      if fks == tks and target[1] >= ff[1]: return True
  ra, rb = _value_range(f, l), _value_range(f, r)
  if ra and rb:
    if op == '<=': return ra[1] <= rb[0]
    if op == '<': return ra[1] < rb[0]
    if op == '>=': return ra[0] >= rb[1]
    if op == '>': return ra[0] > rb[1]
  return False

def run (ctx):
  ctx.explanation = EXPLAIN
  ctx.assumptions = ["constructors of packet classes call parse(raw) when raw is given (packet_base convention, checked per class)",
                     "only struct reads, constant/variable indexing of the frame buffer, explicit raises, asserts and class-vs-module attribute misuse are modelled as raising primitives"]
  repo = ctx.repo
  mods = dict((n, m) for n, m in repo.modules.items() if n.startswith(PK + '.') or n == PK)
  eth = repo.cls('lib.packet.ethernet', 'ethernet')
  root = q.find_method(repo, eth, 'parse', 'C15')
  # ---- function universe and call resolution -------------------------------------------------------
  funcs = {}
  for m in mods.values():
    for c in m.classes.values():
      for f in c.methods.values(): funcs[f.qual] = f
    for f in m.funcs.values(): funcs[f.qual] = f
  def cls_parse_targets (c):
    """functions run by constructing packet class c with raw bytes"""
    out = []
    init = c.find_method('__init__')
    p = c.find_method('parse')
    if p is not None and (init is None or any(call_name(x) == 'parse' for x in calls_in(init.node))): out.append(p)
    return out
  # ethernet.type_parsers registrations
  tp = []; tp_fallback = []
  einit = eth.methods.get('__init__')
  for em_ in eth.methods.values():
    for t, v, st, k in q.stores_in(em_.node):
      if isinstance(t, ast.Subscript) and 'type_parsers' in norm(t.value) and isinstance(v, ast.Name):
        r = _resolve_local_import(repo, em_, v.id)
        if isinstance(r, Cls): tp.append(r)
      if isinstance(t, ast.Attribute) and t.attr == '_llc' and isinstance(v, ast.Name):
        r = _resolve_local_import(repo, em_, v.id)
        if isinstance(r, Cls): tp.append(r); tp_fallback.append(r)
    # the table filled in one go: type_parsers.update({TYPE: cls, ...})
    for c_ in calls_in(em_.node):
      if call_name(c_) == 'update' and isinstance(c_.func, ast.Attribute) and 'type_parsers' in norm(c_.func.value) and c_.args and isinstance(c_.args[0], ast.Dict):
        for v in c_.args[0].values:
          if isinstance(v, ast.Name):
            r = _resolve_local_import(repo, em_, v.id)
            if isinstance(r, Cls): tp.append(r)
  ctx.floor('ethertype parsers registered', len(set(c.name for c in tp)), 7)
  def table_classes (f, name):
    """classes a local `name` can hold when it is bound from a lookup in a table of classes (`T.get(k[, D])`, `T[k]`, a class
    name, `None`): the dict literal's values, or - for a module-level registry filled elsewhere (decorators) - every class of
    the module (an over-approximation: more functions analysed).  None when `name` is not bound that way."""
    defs_ = [(v_, st_, k_) for v_, st_, k_ in q.reaching_assign(f.node, name) if k_ == 'assign']
    if not defs_ or name in f.params and name not in ('cls',): return None
    out = []; table = False
    for v_, st_, k_ in defs_:
      if v_ is None: return None
      if isinstance(v_, ast.Constant) and v_.value is None: continue
      if isinstance(v_, ast.Name):
        r_ = f.module.lookup(v_.id) or _resolve_local_import(repo, f, v_.id)
        if isinstance(r_, Cls): out.append(r_); continue
        return None
      tb_ = None; extra_ = []
      if isinstance(v_, ast.Call) and call_name(v_) == 'get' and isinstance(v_.func, ast.Attribute): tb_ = v_.func.value; extra_ = v_.args[1:2]
      elif isinstance(v_, ast.Subscript) and not isinstance(v_.slice, ast.Slice): tb_ = v_.value
      if tb_ is None: return None
      for d_ in extra_:
        r_ = f.module.lookup(d_.id) if isinstance(d_, ast.Name) else None
        if isinstance(r_, Cls): out.append(r_)
      lit_ = tb_ if isinstance(tb_, ast.Dict) else None
      if lit_ is None and isinstance(tb_, ast.Name):
        r_ = f.module.lookup(tb_.id)
        if isinstance(r_, tuple) and r_[0] == 'const' and isinstance(r_[2], ast.Dict): lit_ = r_[2]
        elif r_ is None: return None
      if lit_ is not None and lit_.values:
        got_ = [f.module.lookup(x_.id) for x_ in lit_.values if isinstance(x_, ast.Name)]
        if not got_ or not all(isinstance(x_, Cls) for x_ in got_): return None
        out += got_; table = True
      elif lit_ is not None or isinstance(tb_, (ast.Name, ast.Attribute)):
        # a registry that starts empty: filled by registrations elsewhere in the module
        if not any(isinstance(t_, ast.Subscript) and norm(t_.value) == norm(tb_) and isinstance(v2_, ast.Name) for fn_ in ast.walk(f.module.tree) if isinstance(fn_, ast.FunctionDef)
                   for t_, v2_, s2_, k2_ in q.stores_in(fn_, nested=True)): return None
        out += list(f.module.classes.values()); table = True
      else: return None
    return out if table else None
  def resolve_call (f, c):
    """list of Func possibly invoked by call c inside f"""
    fn = c.func; out = []
    if isinstance(fn, ast.Name):
      r = f.module.lookup(fn.id) or _resolve_local_import(repo, f, fn.id)
      if isinstance(r, Cls): out += cls_parse_targets(r)
      elif isinstance(r, Func): out.append(r)
      elif r is None and fn.id == 'cls' and f.cls is not None and f.is_classmethod and f.params and f.params[0] == 'cls' and any(kw_.arg == 'raw' for kw_ in c.keywords):
        # `cls(raw=...)` in a classmethod of a mixin / base: constructs whichever subclass it was called on
        for sub in [f.cls] + list(repo.subclasses(f.cls)):
          if sub.module.name.startswith(PK): out += cls_parse_targets(sub)
    elif isinstance(fn, ast.Attribute) and isinstance(fn.value, ast.Name) and fn.value.id != 'self' and table_classes(f, fn.value.id) is not None:
      for k_ in table_classes(f, fn.value.id):
        t = k_.find_method(fn.attr)
        if t is not None and t not in out: out.append(t)
    elif isinstance(fn, ast.Attribute):
      base = fn.value
      if isinstance(base, ast.Name) and base.id in ('self', 'cls') and f.cls is not None:
        t = f.cls.find_method(fn.attr)
        if t is not None: out.append(t)
        for sub in repo.subclasses(f.cls):
          if fn.attr in sub.methods and sub.module.name.startswith(PK): out.append(sub.methods[fn.attr])
      else:
        r = f.module.resolve_expr(base) if isinstance(base, (ast.Name, ast.Attribute)) else None
        if r is None and isinstance(base, ast.Name): r = _resolve_local_import(repo, f, base.id)
        if isinstance(r, Cls):
          if fn.attr == 'parse_next' and r.name == 'ethernet':
            t = r.find_method('parse_next')
            if t: out.append(t)
          else:
            t = r.find_method(fn.attr)
            if t is not None: out.append(t)
            elif fn.attr in r.inner: out += cls_parse_targets(r.inner[fn.attr])
        elif isinstance(r, ModRef) and r.module is not None:
          rr = r.module.lookup(fn.attr)
          if isinstance(rr, Cls): out += cls_parse_targets(rr)
          elif isinstance(rr, Func): out.append(rr)
    return [x for x in out if x.module.name.startswith(PK)]
  # parse_next dispatches to the registered parsers
  pn = eth.find_method('parse_next')
  # ---- escape sets (fixpoint) --------------------------------------------------------------------------
  local = {}; cfgs = {}; edges = {}; undecided = {}
  def analyse (f):
    if f.qual in local: return
    sites, und, g = _sites(repo, f)
    local[f.qual] = sites; cfgs[f.qual] = g; edges[f.qual] = []; undecided[f.qual] = und
    ctx.analysed(f)
    for n in g.nodes:
      for c in q.node_calls(n):
        tg = resolve_call(f, c)
        if f is pn and isinstance(c.func, ast.Name) and c.func.id == 'parser':
          for k in tp: tg += cls_parse_targets(k)
        if f is pn and norm(c.func) == 'ethernet._llc':
          for k in tp:
            if k.name == 'llc': tg += cls_parse_targets(k)
        for t in tg:
          edges[f.qual].append((n, c, t))
          analyse(t)
    # class-vs-module misuse: `from . import X` inside a function where pox.lib.packet rebinds X to the class, then X.X(...)
    for imp in [x for x in ast.walk(f.node) if isinstance(x, ast.ImportFrom) and x.level >= 1 and (x.module is None)]:
      for al in imp.names:
        pkg = repo.modules.get(PK)
        r = pkg.lookup(al.name) if pkg else None
        if isinstance(r, Cls):
          nm = al.asname or al.name
          for x in ast.walk(f.node):
            if isinstance(x, ast.Attribute) and isinstance(x.value, ast.Name) and x.value.id == nm and isinstance(x.ctx, ast.Load):
              has = x.attr in r.methods or x.attr in r.assigns or r.find_method(x.attr) is not None or r.find_assign(x.attr)[0] is not None
              if not has:
                cn = q.enclosing_stmt_node(g, x)
                local[f.qual].append(Site(f, cn, 'attr', 'AttributeError', None,
                  "`from . import %s` binds the *class* %s (pox.lib.packet re-exports it over the module), so `%s.%s` is an AttributeError" % (al.name, r.name, nm, x.attr)))
  analyse(root)
  # reads that could not be proven and that no dominating test - in the function or at any of its call sites - relates
  # to the buffer's length at all: these are plain unguarded reads, not proof failures
  callers = {}
  for cq, es in edges.items():
    for n_, c_, t_ in es: callers.setdefault(t_.qual, []).append((cq, n_))
  n_prom = 0
  for qual, und in list(undecided.items()):
    keep = []
    for s_ in und:
      if getattr(s_, 'unguarded', False):
        cl = callers.get(qual, [])
        looked = False
        for cq, n_ in cl:
          cf_ = funcs.get(cq)
          # the expression handed over as the buffer, and what in the caller bounds its length
          lvs = set()
          for c_ in q.node_calls(n_):
            for a_ in list(c_.args) + [k_.value for k_ in c_.keywords]:
              b_ = a_
              while isinstance(b_, ast.Subscript): b_ = b_.value
              bt = norm(b_)
              lvs.add('len(%s)' % bt)
              if cf_ is not None and isinstance(b_, ast.Name): lvs |= _lenvars(cf_, bt)
          if any(any(v_ in t_ for v_ in lvs) for t_ in q.fact_strs(cfgs[cq], n_)): looked = True
        if not looked:
          s_.what = s_.what.split(': ')[0] + ": no test that dominates this read (here or at its %d call site(s)) relates to the length of the buffer" % len(cl)
          local[qual].append(s_); n_prom += 1; continue
      keep.append(s_)
    undecided[qual] = keep
  ctx.stat('unguarded_reads_promoted', n_prom)
  ctx.floor('functions on parse chains', len(local), 50)
  n_sites = sum(len(v) for v in local.values())
  ctx.stat('raising_sites_before_containment', n_sites)
  esc = dict((k, {}) for k in local)      # qual -> {site id: (site, chain)}
  changed = True; rounds = 0
  while changed and rounds < 50:
    changed = False; rounds += 1
    for qual, sites in local.items():
      g = cfgs[qual]
      cur = esc[qual]
      for s in sites:
        if s.node is None or not _contained_locally(g, s.node, s.exc):
          if id(s) not in cur: cur[id(s)] = (s, [qual]); changed = True
      for n, c, t in edges[qual]:
        for sid, (s, chain) in list(esc.get(t.qual, {}).items()):
          if _contained_locally(g, n, s.exc): continue
          if sid not in cur and len(chain) < 12: cur[sid] = (s, [qual] + chain); changed = True
  # ---- verdicts --------------------------------------------------------------------------------------------
  escaped = esc[root.qual]
  seen = set()
  for sid, (s, chain) in escaped.items():
    key = (s.func.qual, s.what)
    if key in seen: continue
    seen.add(key)
    rule = {'struct': 'R-DOM', 'index': 'R-DOM', 'width': 'R-AGREE', 'raise': 'R-CONTAIN', 'assert': 'R-CONTAIN', 'attr': 'R-DEF', 'key': 'R-CONTAIN'}[s.kind]
    clause = {'struct': 'D1', 'index': 'D1', 'width': 'D3', 'raise': 'D2', 'assert': 'D2', 'attr': 'D2', 'key': 'D2'}[s.kind]
    ctx.bad(rule, s.func, s.what[:100],
            "%s; nothing on the call chain %s catches %s: a frame that reaches this point makes ethernet.parse (and PacketIn.parsed in an event handler) raise" % (s.what, " -> ".join(x.split(':')[-1] for x in chain), s.exc),
            (s.func.module, s.node.ast if s.node is not None and s.node.ast is not None else s.func.node), clause, path=chain)
  for qual, und in undecided.items():
    g = cfgs[qual]
    for s_ in und:
      if _contained_locally(g, s_.node, s_.exc): continue
      ctx.undecided('R-DOM', s_.func, s_.what[:110], "length not provable by the path-sensitive prover (not an alarm)", (s_.func.module, s_.node.ast), 'D1')
  n_contained = 0
  for qual, sites in local.items():
    for s in sites:
      if id(s) in escaped: continue
      n_contained += 1
      if n_contained <= 400:
        ctx.ok({'struct': 'R-DOM', 'index': 'R-DOM', 'width': 'R-AGREE', 'raise': 'R-CONTAIN', 'assert': 'R-CONTAIN', 'attr': 'R-DEF', 'key': 'R-CONTAIN'}[s.kind], s.func,
               s.what[:100], "contained by a try on every chain from ethernet.parse", (s.func.module, s.node.ast if s.node is not None and s.node.ast is not None else s.func.node), 'D1')
  ctx.stat('sites_contained', n_contained); ctx.stat('sites_escaping', len(seen))
  # guarded struct reads (proved by guards) are not sites; count them for the evidence
  n_guarded = 0; n_reads = 0
  for qual in local:
    f = funcs.get(qual)
    if f is None: continue
    for x in ast.walk(f.node):
      if isinstance(x, ast.Call) and call_name(x) in ('unpack', 'unpack_from') and isinstance(x.func, ast.Attribute) and norm(x.func.value) == 'struct': n_reads += 1
  n_guarded = n_reads - sum(1 for v in local.values() for s in v if s.kind in ('struct', 'width'))
  ctx.stat('struct_reads_on_chains', n_reads); ctx.stat('struct_reads_proved_by_guards', n_guarded)
  ctx.floor('struct reads on parse chains', n_reads, 40)
  ctx.floor('struct reads proved in range by guards', n_guarded, 25)
  ctx.ob('R-CONTAIN', root, "no raising primitive escapes ethernet.parse", not seen, "%d raising sites on %d functions, all guarded or contained" % (n_sites, len(local)) if not seen else "%d site(s) escape" % len(seen), root, 'D1')
  # ---- D1b Python-3 bytes discipline and format strings on the parse chains -------------------------------------
  # (a) ord() applied to an element of a bytes object (indexing bytes yields an int: TypeError)
  n_ord = 0
  for qual in sorted(local):
    f = funcs.get(qual)
    if f is None: continue
    cls_ = f.cls
    # which names hold frame bytes here: raw, slices of raw, parameters that every call site in the class feeds with such
    # values, attributes assigned from them anywhere in the class
    battrs = set()
    if cls_ is not None:
      for m_ in cls_.methods.values():
        for t, v, st, k in q.stores_in(m_.node):
          if isinstance(t, ast.Attribute) and norm(t.value) == 'self' and v is not None and isinstance(v, ast.Subscript) and isinstance(v.slice, ast.Slice) and norm(v.value) in ('raw', 'self.raw'): battrs.add(t.attr)
    def is_bytes_expr (e, fn, depth=0):
      if isinstance(e, ast.Name) and e.id == 'raw': return True
      if isinstance(e, ast.Subscript) and isinstance(e.slice, ast.Slice): return is_bytes_expr(e.value, fn, depth)
      if isinstance(e, ast.Attribute) and norm(e.value) == 'self' and e.attr in battrs | {'raw'}: return True
      if isinstance(e, ast.Name) and depth < 3:
        if e.id in fn.params and cls_ is not None:
          sites_ = [c for m_ in cls_.methods.values() for c in calls_in(m_.node) if isinstance(c.func, ast.Attribute) and c.func.attr == fn.name and norm(c.func.value) == 'self']
          idx = fn.params.index(e.id) - 1
          if sites_ and all(len(c.args) > idx >= 0 and is_bytes_expr(c.args[idx], [m_ for m_ in cls_.methods.values() if any(x is c for x in ast.walk(m_.node))][0], depth + 1) for c in sites_): return True
        ds = [v for v, st, k in q.reaching_assign(fn.node, e.id)]
        if ds and all(v is not None and is_bytes_expr(v, fn, depth + 1) for v in ds): return True
      return False
    for x in walk_no_nested(f.node):
      if isinstance(x, ast.Call) and isinstance(x.func, ast.Name) and x.func.id == 'ord' and len(x.args) == 1:
        a_ = x.args[0]
        if isinstance(a_, ast.Subscript) and not isinstance(a_.slice, ast.Slice) and is_bytes_expr(a_.value, f):
          n_ord += 1
          ctx.bad('R-BYTES', f, "`%s`" % norm(x), "`%s` is an element of a bytes object, i.e. already an int in Python 3: ord() raises TypeError for every frame that reaches this statement" % norm(a_), (f.module, x), 'D1')
  ctx.stat('ord_on_bytes_elements', n_ord)
  # (b) %-format arity: a literal format applied to a literal tuple of the wrong size raises TypeError whenever the
  #     statement runs (typically a warning on a rarely taken guard path)
  import re as _re
  n_fmt = 0
  for qual in sorted(local):
    f = funcs.get(qual)
    if f is None: continue
    for x in ast.walk(f.node):
      if isinstance(x, ast.BinOp) and isinstance(x.op, ast.Mod) and isinstance(x.left, ast.Constant) and isinstance(x.left.value, str) and isinstance(x.right, ast.Tuple):
        spec_n = len(_re.findall(r'%(?!%)(?:\([^)]*\))?[#0\- +]*(?:\*|\d+)?(?:\.(?:\*|\d+))?[hlL]?[diouxXeEfFgGcrsab]', x.left.value.replace('%%', '')))
        if '%(' in x.left.value: continue
        n_fmt += 1
        if spec_n != len(x.right.elts):
          ctx.bad('R-DEF', f, "format `%s` is applied to %d value(s)" % (x.left.value[:40], len(x.right.elts)),
                  "the literal has %d conversion(s) but the tuple has %d element(s) - (`%%` binds tighter than `+`, so only this literal is formatted): TypeError as soon as this statement runs; "
                  "on a parse path that turns a malformed frame into an exception" % (spec_n, len(x.right.elts)), (f.module, x), 'D1')
  ctx.stat('literal_formats_checked', n_fmt)
  # (c) the length handed to the IPv6 extension-header decoders is what is left after the fixed header
  ip6 = repo.cls('lib.packet.ipv6', 'ipv6'); ip6p = ip6.methods.get('parse')
  if ip6p is not None:
    g6 = q.cfg_of(ip6p)
    for t, v, st, k in q.stores_in(ip6p.node, nested=False):
      if isinstance(t, ast.Name) and v is not None and 'len(raw)' in norm(v) and k == 'assign':
        n6 = q.enclosing_stmt_node(g6, st)
        if n6 is None or not any(('%s >' % t.id) in f_ or ('< %s' % t.id) in f_ for f_ in q.fact_strs(g6, n6)): continue
        b_, k_ = q.linear(ast.BinOp(left=v, op=ast.Sub(), right=ast.Call(func=ast.Name(id='len', ctx=ast.Load()), args=[ast.Name(id='raw', ctx=ast.Load())], keywords=[])), ip6p.node)
        good = norm(v) in ('len(raw) - offset', 'len(raw) - 40', 'len(raw) - self.MIN_LEN', 'len(raw) - ipv6.MIN_LEN', 'dlen - offset')
        ctx.ob('R-AGREE', ip6p, "the available length is clamped to the bytes left after the fixed header (`%s`)" % norm(st)[:50], good, norm(st) if good else
               "`%s` clamps to the whole buffer although %s bytes of it are the fixed header: extension-header decoders are told more data is available than the buffer holds and read past its end" % (norm(st), 'offset'), (ip6.module, st), 'D1')
  # (d) a protocol class that prints itself with its own __str__ (bypassing packet_base's catch-all) must not apply a
  #     numeric conversion to a field that is still None when parse() gave up early
  for m in mods.values():
    for cls in m.classes.values():
      sf = cls.methods.get('__str__'); init = cls.methods.get('__init__'); pf = cls.methods.get('parse')
      if sf is None or init is None or pf is None: continue
      none_fields = set(t.attr for t, v, st, k in q.stores_in(init.node) if isinstance(t, ast.Attribute) and norm(t.value) == 'self' and isinstance(v, ast.Constant) and v.value is None)
      early = [r for r in q.returns_of(pf.node)]
      if not none_fields or not early: continue
      gs_ = q.cfg_of(sf)
      for x in ast.walk(sf.node):
        if isinstance(x, ast.BinOp) and isinstance(x.op, ast.Mod) and isinstance(x.left, ast.Constant) and isinstance(x.left.value, str):
          specs = _re.findall(r'%(?!%)[#0\- +]*(?:\d+)?(?:\.\d+)?([diouxXeEfFgGcrsab])', x.left.value)
          args = x.right.elts if isinstance(x.right, ast.Tuple) else [x.right]
          if len(specs) != len(args): continue
          for sp_, a_ in zip(specs, args):
            if sp_ in 'diouxXeEfFgGc' and isinstance(a_, ast.Attribute) and norm(a_.value) == 'self' and a_.attr in none_fields:
              nx = q.enclosing_stmt_node(gs_, x)
              fs = q.fact_strs(gs_, nx) if nx is not None else []
              guarded = any(('self.%s is not None' % a_.attr) in f_ or 'self.parsed:truthy' in f_ or f_.startswith('isinstance(self.%s, ' % a_.attr) and f_.endswith(':truthy') or f_ == 'self.%s:truthy' % a_.attr
                            or (f_.startswith('self.%s is None' % a_.attr) is False and ('self.%s is None' % a_.attr) in f_ and False) for f_ in fs)
              # an `elif` after `if self.X is None ...` also excludes None
              guarded = guarded or any(isinstance(t_, ast.Compare) and not pol_ and isinstance(t_.ops[0], ast.Is) and norm(t_.left) == 'self.%s' % a_.attr and norm(t_.comparators[0]) == 'None' for t_, pol_, b_ in (gs_.guards(nx) if nx is not None else []))
              # is the field assigned before every early return of parse()?  (then it cannot be None once parse ran)
              ctx.ob('R-DEF', sf, "`%%%s` of self.%s is not reached while the field is still None" % (sp_, a_.attr), guarded,
                     "guarded" if guarded else
                     "%s.__str__ formats self.%s with %%%s; __init__ sets it to None and parse() can return before assigning it (truncated frame): str()/dump() of the parse result raises TypeError" % (cls.name, a_.attr, sp_), (m, x), 'D4')
  # (d') the same through one call: __str__ hands a still-None field to a helper that formats its argument numerically
  def numeric_params (fn):
    """parameters of fn that reach a numeric % conversion without a None test"""
    out = set(); gf_ = q.cfg_of(fn)
    for x in ast.walk(fn.node):
      if isinstance(x, ast.BinOp) and isinstance(x.op, ast.Mod) and isinstance(x.left, ast.Constant) and isinstance(x.left.value, str):
        specs = _re.findall(r'%(?!%)[#0\- +]*(?:\d+)?(?:\.\d+)?([diouxXeEfFgGcrsab])', x.left.value)
        args = x.right.elts if isinstance(x.right, ast.Tuple) else [x.right]
        if len(specs) != len(args): continue
        for sp_, a_ in zip(specs, args):
          if sp_ in 'diouxXeEfFgGc' and isinstance(a_, ast.Name) and a_.id in fn.params:
            nx = q.enclosing_stmt_node(gf_, x)
            fs = q.fact_strs(gf_, nx) if nx is not None else []
            if not any(f_ in ('%s is not None' % a_.id, '%s:truthy' % a_.id) or (f_.startswith('isinstance(%s, ' % a_.id) and f_.endswith(':truthy')) for f_ in fs): out.add((a_.id, sp_))
    return out
  pu = repo.mod('lib.packet.packet_utils')
  for m in mods.values():
    for cls in m.classes.values():
      sf = cls.methods.get('__str__'); init = cls.methods.get('__init__'); pf = cls.methods.get('parse')
      if sf is None or init is None or pf is None: continue
      none_fields = set(t.attr for t, v, st, k in q.stores_in(init.node) if isinstance(t, ast.Attribute) and norm(t.value) == 'self' and isinstance(v, ast.Constant) and v.value is None)
      if not none_fields or not q.returns_of(pf.node): continue
      gs_ = q.cfg_of(sf)
      for c in calls_in(sf.node):
        if not isinstance(c.func, ast.Name): continue
        callee = m.funcs.get(c.func.id) or pu.funcs.get(c.func.id)
        if callee is None: continue
        np_ = numeric_params(callee)
        for i, a_ in enumerate(c.args):
          if isinstance(a_, ast.Attribute) and norm(a_.value) == 'self' and a_.attr in none_fields and i < len(callee.params) and callee.params[i] in [x_ for x_, s_ in np_]:
            nx = q.enclosing_stmt_node(gs_, c)
            fs = q.fact_strs(gs_, nx) if nx is not None else []
            guarded = any(('self.%s is not None' % a_.attr) in f_ or 'self.parsed:truthy' in f_ or f_ == 'self.%s:truthy' % a_.attr for f_ in fs)
            ctx.ob('R-DEF', sf, "`%s` is not reached while self.%s is still None" % (norm(c)[:40], a_.attr), guarded, "guarded" if guarded else
                   "%s.__str__ (its own, so outside packet_base's catch-all) passes self.%s to %s, which formats it numerically; __init__ sets the field to None and parse() can return before assigning it "
                   "(truncated frame): str()/dump() of the parse result raises TypeError" % (cls.name, a_.attr, callee.name), (m, c), 'D4')
  # (e) one-octet length fields on the way out: a value whose length is written with bytes((len(v),)) must have passed the
  #     "longer than 255 -> split" test *in its final form*: no redefinition of the variable between that test and the write
  n_len8 = 0
  for m in mods.values():
    for cls in m.classes.values():
      for f in cls.methods.values():
        helpers = {}
        for d in [x for x in walk_no_nested(f.node) if isinstance(x, ast.FunctionDef)]:
          ps = [a.arg for a in d.args.args]
          for x in ast.walk(d):
            if isinstance(x, ast.Call) and call_name(x) == 'bytes' and len(x.args) == 1 and isinstance(x.args[0], ast.Tuple) and len(x.args[0].elts) == 1:
              e0 = x.args[0].elts[0]
              if isinstance(e0, ast.Call) and call_name(e0) == 'len' and e0.args and isinstance(e0.args[0], ast.Name) and e0.args[0].id in ps:
                helpers[d.name] = ps.index(e0.args[0].id)
        if not helpers: continue
        g = q.cfg_of(f)
        for n in g.nodes:
          for c in q.node_calls(n):
            if not (isinstance(c.func, ast.Name) and c.func.id in helpers and helpers[c.func.id] < len(c.args)): continue
            a = c.args[helpers[c.func.id]]
            if not isinstance(a, ast.Name): continue
            n_len8 += 1
            IN, defn = q.reaching_defs(g, a.id)
            defs_ = [d for d in IN[n] if d is not g.entry]
            # element of a list built from <=255-byte slices
            def bounded_elements (d):
              tt, v, kind = defn[d]
              if kind != 'for': return False
              it = d.ast.iter if isinstance(d.ast, ast.For) else None
              if not isinstance(it, ast.Name): return False
              srcs = [v2 for t2, v2, st2, k2 in q.stores_in(f.node, nested=False) if isinstance(t2, ast.Name) and t2.id == it.id and isinstance(v2, ast.ListComp)]
              return bool(srcs) and all(isinstance(v2.elt, ast.Subscript) and isinstance(v2.elt.slice, ast.Slice) for v2 in srcs)
            if defs_ and all(bounded_elements(d) for d in defs_):
              ctx.ob('R-DOM', f, "`%s`: the value fits the one-octet length field" % norm(c)[:40], True, "element of a list of <=255-byte slices", (m, c), 'D4'); continue
            heads = [h_ for st_, h_, af_ in g.loop_nodes]
            tests = [b for b in g.nodes if b.kind == 'cond' and isinstance(b.ast, ast.Compare) and norm(b.ast.left) == 'len(%s)' % a.id and isinstance(b.ast.ops[0], (ast.Gt, ast.GtE, ast.Lt, ast.LtE))
                     and n in g.reachable(b, avoid=heads, exc=False)]
            if not tests:
              ctx.undecided('R-DOM', f, "`%s`: the value fits the one-octet length field" % norm(c)[:40], "no length test on `%s` precedes the call" % a.id, (m, c), 'D4'); continue
            not_list = any(f_ == 'isinstance(%s, list):falsy' % a.id for f_ in q.fact_strs(g, n))
            late = []
            for d in defs_:
              tt, v, kind = defn[d]
              if not_list and isinstance(v, (ast.List, ast.ListComp)): continue           # the split itself; excluded here by the isinstance test
              if all(d in g.reachable(t_, avoid=heads, exc=False) for t_ in tests): late.append(d)
            ctx.ob('R-DOM', f, "`%s`: the value fits the one-octet length field" % norm(c)[:40], not late, "every definition of `%s` precedes the length test" % a.id if not late else
                   "`%s` is redefined by `%s` after the test `%s`: the value whose length is written was never compared with 255 - an option longer than that makes bytes((len(v),)) raise ValueError when the parsed packet is packed again"
                   % (a.id, late[0].text(40), norm(tests[0].ast)), (m, c), 'D4')
  ctx.stat('one-octet length writes through helpers', n_len8)
  # ---- D4 printing / re-serialising ---------------------------------------------------------------------------
  pb = repo.cls('lib.packet.packet_base', 'packet_base')
  st = pb.methods.get('__str__')
  if st is not None:
    g = q.cfg_of(st)
    ts = g.nodes_with_call(lambda c: call_name(c) == '_to_str')
    good = bool(ts) and all(not g.raises_out(n) for n in ts)
    ctx.ob('R-CONTAIN', st, "printing a parse result cannot raise (per-protocol _to_str is contained)", good, "_to_str inside a catch-all" if good else "_to_str is called outside a catch-all", st, 'D4')
  n_codes = 0
  for m in mods.values():
    for cls in m.classes.values():
      pf = cls.methods.get('parse'); hf = cls.methods.get('hdr')
      if pf is None or hf is None: continue
      P = c14._parse_items(repo, cls, pf); H, hsize, hcall = c14._hdr_items(repo, cls, hf)
      if not P or not H: continue
      pn_ = dict((n, c) for o, w, c, n, t, s in P if n and o < hsize); hn = dict((n, c) for o, w, c, n, a in H if n)
      for name in sorted(set(pn_) & set(hn)):
        n_codes += 1
        a, b = pn_[name], hn[name]
        good = a == b or a in 'sp' or b in 'sp'
        ctx.ob('R-AGREE', cls.qual, "parsed field `%s` can always be re-serialised (same struct code)" % name, good, "code %s" % a if good else
               "parse() reads `%s` with '%s' but hdr() packs it with '%s': a frame with the top bit set there parses and prints but pack() raises struct.error" % (name, a, b), (m, hcall), 'D4')
  ctx.floor('parse/hdr field codes compared', n_codes, 45)
  # what parse() extracts from a bit-field word must fit back into the word hdr() assembles (a field left unshifted, or
  # masked wider than its slot, parses and prints but makes struct.pack overflow when the frame is re-serialised):
  # the same sample-domain evaluation as C14's composite rule, here for its effect on re-serialisation
  n_bf = 0
  for m in mods.values():
    for cls in m.classes.values():
      pf = cls.methods.get('parse'); hf = cls.methods.get('hdr')
      if pf is None or hf is None: continue
      P = c14._parse_items(repo, cls, pf); H, hsize, hcall = c14._hdr_items(repo, cls, hf)
      if not P or not H: continue
      Pf = [x for x in P if x[0] < hsize]
      n_bf += c14._bitfields(ctx, repo, m, cls, pf, hf, Pf, H, hcall)
  ctx.floor('bit-field composites re-serialisable', n_bf, 4)
  # ---- output side / accounting (E1-E8) ------------------------------------------------------------------------
  from . import c15b
  c15b.run(ctx, repo, mods, tp, tp_fallback)
  c14._option_packers(ctx, repo)      # serialisers of nested structures: definite type conflicts, cursor/field agreement (shared with C14)
  ctx.include('C14', ['ipv4.parse', 'ipv6.parse'], "the parse result can always be re-serialised: what a parser leaves as the next layer must be packable (C14's rules about unparsed next-layer objects)")
  # ---- D5 parser loops ----------------------------------------------------------------------------------------
  n_loops = 0
  for qual in local:
    f = funcs.get(qual)
    if f is None or f.name not in ('parse', 'parse_options', 'unpack_new', '_parse_data', 'parse_next'): continue
    g = cfgs[qual]
    for (st_, h, a) in g.loop_nodes:
      if not isinstance(st_, ast.While): continue
      res, np_ = progress.check_loop(repo, f, g, h, a, st_, limit=120)
      if not res: continue
      n_loops += 1
      for ok, why, lines in res:
        if ok: ctx.ok('R-PROGRESS', f, "parser loop iteration #%s advances" % getattr(lines, 'sig', '?'), why, (f.module, st_), 'D5')
        else:
          # a non-progress verdict from the generic prover is only an alarm when a step exists but may be zero; otherwise undecided
          ctx.undecided('R-PROGRESS', f, "parser loop iteration #%s advances" % getattr(lines, 'sig', '?'), why, (f.module, st_), 'D5')
  ctx.stat('parser_loops', n_loops)

def _resolve_local_import (repo, f, name):
  """names bound by `from .x import y` inside function f (or its class's __init__)"""
  for imp in [x for x in ast.walk(f.node) if isinstance(x, (ast.ImportFrom, ast.Import))]:
    if isinstance(imp, ast.ImportFrom):
      for al in imp.names:
        if (al.asname or al.name) == name:
          base = f.module._absmod(imp)
          m = repo.modules.get(base)
          if m is not None:
            r = m.lookup(al.name)
            if r is not None: return r
          sub = repo.modules.get((base + '.' + al.name) if base else al.name)
          if sub is not None:
            pk = repo.modules.get(base)
            return ModRef(sub)
  return None
