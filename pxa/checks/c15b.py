"""C15, output side and accounting rules (called from c15.run):

 E1 R-CONTAIN  a protocol class that prints itself with its own __str__ (so outside packet_base's catch-all) neither asserts on
               nor indexes a table with a field that parsing filled from the wire
 E2 R-AGREE    element tuples appended by the parser have the arity the serialiser unpacks
 E3 R-DEF      attributes hdr()/pack() read exist whenever the constructor's parse() returned early
 E4 R-CONTAIN  hdr()/pack() do not assert on values that parsing took from the wire
 E5 R-CONTAIN  a header that can contain itself (ethertype dispatch back to its own class) contains the RecursionError
 E6 R-AGREE    TLV decoders: the value slice ends where the declared length ends
 E7 R-DOM      TCP options are decoded only when they end inside the header
 E8 R-AGREE    the remaining-length counter of a header chain is reduced by the bytes the cursor advanced
"""
import ast
from .. import q
from ..model import calls_in, call_name, norm, kwarg, walk_no_nested

PARSE_NAMES = ('parse', '_parse_data', 'unpack_new', '_unpack_body', 'parse_options', 'parseOptions', 'unpackOptions', '_parse')
PACK_NAMES = ('hdr', 'pack', '_pack_body', '_pack_data', 'pack_hdr', 'packOptions')

def _wire_fields (cls):
  """attributes of cls assigned inside its parsing methods"""
  out = set()
  for name, f in cls.methods.items():
    if name in PARSE_NAMES or name.startswith('parse') or name.startswith('_parse') or name.startswith('unpack'):
      for t, v, st, k in q.stores_in(f.node):
        if isinstance(t, ast.Attribute) and isinstance(t.value, ast.Name) and t.value.id in ('self', 'o', 'r', 'obj'): out.add(t.attr)
  return out

def _mentions_self_field (e, fields):
  return sorted(set(x.attr for x in ast.walk(e) if isinstance(x, ast.Attribute) and isinstance(x.value, ast.Name) and x.value.id == 'self' and x.attr in fields))

def _in_try (g, n, names=('Exception', 'BaseException')):
  for t in reversed(g.try_of.get(n, ())):
    for h in t.handlers:
      if h.type is None: return True
      ts = h.type.elts if isinstance(h.type, ast.Tuple) else [h.type]
      if any(norm(x).split('.')[-1] in names for x in ts): return True
  return False

def _budget_follows_cursor (ctx, repo, mods):
  """a parser loop that hands a callee the cursor and a remaining-bytes budget keeps the two in step: the budget is computed from the
  cursor, or it is re-assigned in the loop body - a budget fixed before the loop lets the second element read past the end"""
  n = 0
  for m in mods.values():
    for cls in m.classes.values():
      for f in cls.methods.values():
        g = None
        for call in calls_in(f.node):
          kw = [k for k in call.keywords if k.arg in ('max_length', 'avail', 'max_len')]
          if not kw or len(call.args) < 2: continue
          if g is None: g = q.cfg_of(f)
          cn = q.enclosing_stmt_node(g, call)
          loops = [(st_, h_, a_) for st_, h_, a_ in g.loop_nodes if cn is not None and cn in g.loop_body_nodes(h_)]
          if not loops: continue
          cur = call.args[1]
          if not isinstance(cur, ast.Name): continue
          body = g.loop_body_nodes(loops[-1][1])
          cur_moves = any(isinstance(t_, ast.Name) and t_.id == cur.id and q.enclosing_stmt_node(g, st_) in body for t_, v_, st_, k_ in q.stores_in(f.node, nested=False))
          if not cur_moves: continue
          b = kw[0].value
          n += 1
          names = [x.id for x in ast.walk(b) if isinstance(x, ast.Name)]
          follows = cur.id in names or any(isinstance(t_, ast.Name) and t_.id in names and q.enclosing_stmt_node(g, st_) in body for t_, v_, st_, k_ in q.stores_in(f.node, nested=False))
          ctx.ob('R-EFFECT', f, "the remaining-bytes budget handed to `%s` follows the cursor" % norm(call.func)[:40], follows, "`%s` is recomputed / derived from `%s` in the loop" % (norm(b), cur.id) if follows else
                 "`%s=%s` is fixed before the loop while `%s` advances in it: from the second element on the callee is told more bytes remain than do - a truncated or over-claiming header makes it read past the end (struct.error out of parse())"
                 % (kw[0].arg, norm(b), cur.id), (m, call), 'D4')
  ctx.stat('cursor/budget call sites in parser loops', n)

def run (ctx, repo, mods, type_parser_classes, fallback_classes=()):
  _budget_follows_cursor(ctx, repo, mods)
  pbase = repo.cls('lib.packet.packet_base', 'packet_base')
  classes = [c for m in mods.values() for c in m.classes.values()]
  n_str = n_arity = n_attr = n_assert = n_rec = n_tlv = 0
  for cls in classes:
    m = cls.module
    W = _wire_fields(cls)
    # ---- E1 own __str__ ----------------------------------------------------------------------------------
    sf = cls.methods.get('__str__')
    if sf is not None and cls is not pbase and W:
      n_str += 1
      g = q.cfg_of(sf)
      for n in g.nodes:
        if n.kind == 'cond' and isinstance(n.stmt, ast.Assert):
          hit = _mentions_self_field(n.ast, W)
          if hit and not _in_try(g, n, ('Exception', 'BaseException', 'AssertionError')):
            ctx.bad('R-CONTAIN', sf, "printing never fails: `assert %s`" % norm(n.ast)[:50],
                    "%s.__str__ is the class's own (packet_base's catch-all only protects _to_str) and asserts on self.%s, which parsing fills from the frame: a frame carrying another value makes str()/dump() of the parse result raise AssertionError"
                    % (cls.name, hit[0]), (m, n.ast), 'D4')
        if n.ast is None or n.kind in ('def', 'branch', 'handler', 'join'): continue
        for x in walk_no_nested(n.ast) if not isinstance(n.ast, (ast.With, ast.For, ast.While, ast.If, ast.Try)) else []:
          if isinstance(x, ast.Subscript) and isinstance(x.ctx, ast.Load) and not isinstance(x.slice, ast.Slice) and isinstance(x.value, ast.Attribute) \
             and isinstance(x.value.value, ast.Name) and x.value.value.id in (cls.name, 'self') and _mentions_self_field(x.slice, W):
            tbl = x.value.attr
            cc, cv = cls.find_assign(tbl)
            if not isinstance(cv, ast.Dict): continue
            fs = q.fact_strs(g, n)
            guarded = any(('%s in ' % norm(x.slice)) in f_ and tbl in f_ and 'not in' not in f_ for f_ in fs) or _in_try(g, n, ('Exception', 'BaseException', 'KeyError', 'LookupError'))
            ctx.ob('R-CONTAIN', sf, "printing never fails: `%s`" % norm(x)[:50], guarded, "guarded" if guarded else
                   "%s.__str__ is the class's own (outside packet_base's catch-all) and indexes the table %s with %s, a value taken from the frame: a value that is not a key makes str()/dump() of the parse result raise KeyError"
                   % (cls.name, tbl, norm(x.slice)), (m, x), 'D4')
        # an address object built for display from bytes of the frame: the constructors reject any other length than the address's
        for x in walk_no_nested(n.ast) if (sf is not None and cls is not pbase and W and n.ast is not None and n.kind not in ('def', 'branch', 'handler', 'join') and not isinstance(n.ast, (ast.With, ast.For, ast.While, ast.If, ast.Try))) else []:
          if isinstance(x, ast.Call) and call_name(x) in ('EthAddr', 'IPAddr', 'IPAddr6') and x.args and _mentions_self_field(x.args[0], W):
            hitf = _mentions_self_field(x.args[0], W)
            fs = q.fact_strs(g, n)
            guarded = any(('len(self.%s' % hitf[0]) in f_ and ('==' in f_) for f_ in fs) or _in_try(g, n, ('Exception', 'BaseException', 'RuntimeError', 'ValueError'))
            ctx.ob('R-CONTAIN', sf, "printing never fails: `%s`" % norm(x)[:50], guarded, "length tested first" if guarded else
                   "%s.__str__ is the class's own (outside packet_base's catch-all) and builds %s from self.%s, bytes taken from the frame, without a test of their number: a frame carrying another length makes str()/dump() of the parse result raise"
                   % (cls.name, call_name(x), hitf[0]), (m, x), 'D4')
    # ---- E2 arity of element tuples ---------------------------------------------------------------------------
    appended = {}
    for name, f in cls.methods.items():
      if not (name in PARSE_NAMES or name.startswith('parse')): continue
      for c in calls_in(f.node):
        if call_name(c) == 'append' and isinstance(c.func, ast.Attribute) and isinstance(c.func.value, ast.Attribute) and norm(c.func.value.value) == 'self' and c.args and isinstance(c.args[0], ast.Tuple):
          appended.setdefault(c.func.value.attr, set()).add(len(c.args[0].elts))
    for name, f in cls.methods.items():
      if name not in PACK_NAMES: continue
      for st in ast.walk(f.node):
        if isinstance(st, ast.For) and isinstance(st.iter, ast.Attribute) and norm(st.iter.value) == 'self' and st.iter.attr in appended:
          ar = appended[st.iter.attr]
          sites = []
          if isinstance(st.target, ast.Tuple) and not any(isinstance(e, ast.Starred) for e in st.target.elts): sites.append((len(st.target.elts), st))
          if isinstance(st.target, ast.Name):
            for x in ast.walk(st):
              if isinstance(x, ast.Assign) and len(x.targets) == 1 and isinstance(x.targets[0], ast.Tuple) and isinstance(x.value, ast.Name) and x.value.id == st.target.id \
                 and not any(isinstance(e, ast.Starred) for e in x.targets[0].elts):
                sites.append((len(x.targets[0].elts), x))
          for k, node in sites:
            n_arity += 1
            good = ar == {k}
            ctx.ob('R-AGREE', f, "entries of self.%s are unpacked with the arity the parser stores" % st.iter.attr, good, "%d values" % k if good else
                   "the parser appends %s-tuples to self.%s but %s unpacks %d values per entry (`%s`): packing a parsed packet that has such entries raises ValueError" % (sorted(ar), st.iter.attr, name, k, norm(node)[:40]), (m, node), 'D4')
    # ---- E3 attributes read by hdr()/pack() exist after an early return of parse() --------------------------------
    init = cls.methods.get('__init__'); pf = cls.methods.get('parse'); hf = cls.methods.get('hdr')
    if init is not None and pf is not None and hf is not None and any(call_name(c) == 'parse' for c in calls_in(init.node)):
      gi = q.cfg_of(init); gp = q.cfg_of(pf)
      pc = [n for n in gi.nodes if any(call_name(c) == 'parse' and norm(c.func.value) == 'self' for c in q.node_calls(n))]
      if pc:
        before = set()
        for t, v, st, k in q.stores_in(init.node, nested=False):
          if isinstance(t, ast.Attribute) and norm(t.value) == 'self':
            sn = q.enclosing_stmt_node(gi, st)
            if sn is not None and gi.dominates(sn, pc[0]): before.add(t.attr)
        early = [r for r in gp.nodes if r.kind == 'return']
        reads = {}
        todo = [hf]; seen = set()
        while todo:
          f_ = todo.pop()
          if f_ in seen: continue
          seen.add(f_)
          for x in ast.walk(f_.node):
            if isinstance(x, ast.Attribute) and isinstance(x.ctx, ast.Load) and isinstance(x.value, ast.Name) and x.value.id == 'self': reads.setdefault(x.attr, (f_, x))
          for c in calls_in(f_.node):
            if isinstance(c.func, ast.Attribute) and norm(c.func.value) == 'self':
              cal = cls.methods.get(call_name(c))
              if cal is not None and len(seen) < 6: todo.append(cal)
        for X, (f_, x) in sorted(reads.items()):
          if X in before or cls.find_assign(X)[1] is not None or cls.find_method(X) is not None: continue
          if any(X in [t.attr for t, v, st, k in q.stores_in(b.methods['__init__'].node) if isinstance(t, ast.Attribute)] for b in cls.mro()[1:] if '__init__' in b.methods): continue
          in_parse = [q.enclosing_stmt_node(gp, st) for t, v, st, k in q.stores_in(pf.node) if isinstance(t, ast.Attribute) and norm(t.value) == 'self' and t.attr == X]
          in_parse = [n for n in in_parse if n is not None]
          elsewhere = [1 for nm_, f2 in cls.methods.items() if nm_ not in ('parse', '__init__') for t, v, st, k in q.stores_in(f2.node) if isinstance(t, ast.Attribute) and norm(t.value) == 'self' and t.attr == X]
          cond_init = [st for t, v, st, k in q.stores_in(init.node, nested=False) if isinstance(t, ast.Attribute) and norm(t.value) == 'self' and t.attr == X]
          if not cond_init and not in_parse: continue           # set by some other protocol (kwargs, initHelper): not this rule's business
          unset_at = [r for r in early if not any(gp.dominates(n, r) for n in in_parse)]
          if not unset_at and in_parse: continue
          if elsewhere and not cond_init: continue
          n_attr += 1
          ctx.bad('R-DEF', f_, "self.%s exists whenever %s() runs on a parse result" % (X, f_.name),
                  "%s.__init__ sets self.%s only when no raw data is given (or not at all) and parse() %s: for a frame that makes parse() give up (line %s) the attribute does not exist and %s() raises AttributeError when the parse result is packed again"
                  % (cls.name, X, "assigns it only after it may already have returned" if in_parse else "never assigns it", unset_at[0].line if unset_at else '?', f_.name), (m, x), 'D4')
    # ---- E4 asserts in the serialiser on wire values -------------------------------------------------------------
    for name in PACK_NAMES:
      f = cls.methods.get(name)
      if f is None or not W: continue
      g = q.cfg_of(f)
      for n in g.nodes:
        if not (n.kind == 'cond' and isinstance(n.stmt, ast.Assert)): continue
        t = norm(n.ast)
        if t.startswith('isinstance(') or 'assert_type' in t or t in ('False', 'True'): continue
        direct = _mentions_self_field(n.ast, W)
        # `assert checksum(...)`-style: decided by the guards that lead here mentioning a wire field compared with None
        via = [f_ for f_ in q.fact_strs(g, n) if any(('self.%s is not None' % w) == f_ for w in W)]
        calls_ck = any(isinstance(x, ast.Call) and call_name(x) == 'checksum' for x in ast.walk(n.ast))
        if _in_try(g, n, ('Exception', 'BaseException', 'AssertionError')): continue
        if via and calls_ck:
          n_assert += 1
          ctx.bad('R-CONTAIN', f, "re-serialising never fails: `assert %s`" % t[:50],
                  "%s.%s asserts that the header sums to zero with the checksum word kept under `%s`, a word parsing takes from the frame: packing the parse result of a frame whose checksum is wrong (or absent) raises AssertionError"
                  % (cls.name, name, via[0]), (m, n.ast), 'D4')
        elif direct:
          # an assert on a parsed field holds when the decoder validated it (length tests that raise); that implication is
          # not decided here
          ctx.undecided('R-CONTAIN', f, "re-serialising never fails: `assert %s`" % t[:50], "self.%s is filled by the decoder; whether its validation implies the assertion is not decided" % direct[0], (m, n.ast), 'D4')
  # ---- E5 self-containing headers ------------------------------------------------------------------------------------
  for cls in type_parser_classes:
    pf = cls.methods.get('parse')
    if pf is None or cls in fallback_classes: continue          # the LLC fallback is entered with allow_llc=False below it: it cannot select itself
    g = q.cfg_of(pf)
    rec = [n for n in g.nodes if any((call_name(c) == 'parse_next' and 'ethernet' in norm(c.func.value)) or (isinstance(c.func, ast.Name) and c.func.id == cls.name) for c in q.node_calls(n))]
    for n in rec:
      n_rec += 1
      c = [c for c in q.node_calls(n) if call_name(c) in ('parse_next', cls.name)][0]
      direct_self = isinstance(c.func, ast.Name)
      # dispatch on a type field of this very header can select this class again
      again = direct_self or any(isinstance(a, ast.Attribute) and norm(a.value) == 'self' for a in c.args)
      if not again: continue
      minlen = repo.try_const(cls.module, ast.Attribute(value=ast.Name(id=cls.name, ctx=ast.Load()), attr='MIN_LEN', ctx=ast.Load()), cls)
      if not (isinstance(minlen, int) and minlen <= 8): continue        # >8 bytes per level: a 1500-byte frame cannot nest 300 deep
      good = _in_try(g, n, ('Exception', 'BaseException', 'RecursionError', 'RuntimeError'))
      ctx.ob('R-CONTAIN', pf, "a %s header nested in itself hundreds of times does not escape as RecursionError" % cls.name, good, "nested parse inside a try that contains RecursionError" if good else
             "%s.parse hands the rest of the frame to `%s`, which can select %s again; every level costs %d bytes of frame and three interpreter frames, so about 330 nested headers (a %d-byte frame) exhaust the recursion limit and RecursionError leaves ethernet(raw)"
             % (cls.name, norm(c)[:40], cls.name, minlen, 14 + 330 * minlen + 20), (cls.module, c), 'D2')
  n_tlv = tlv_value_slices(ctx, classes, 'D4')
  # ---- E7 TCP options end inside the header ------------------------------------------------------------------------------
  tcpm = mods.get('lib.packet.tcp') or repo.mod('lib.packet.tcp')
  tc = tcpm.classes.get('tcp'); po = tc.methods.get('parse_options') if tc is not None else None
  if po is not None:
    g = q.cfg_of(po)
    dec = g.nodes_with_call(lambda c: call_name(c) == 'unpack_new')
    for n in dec:
      ok_ = False
      for l, o, r, b in q.guard_facts(g, n):
        if r is None: continue
        for a_, op_, c_ in ((l, o, r), (r, q.flip(o), l)):
          if op_ in ('<=', '<') and 'hdr_len' in norm(c_) and isinstance(a_, ast.BinOp) and isinstance(a_.op, ast.Add) \
             and any(isinstance(x, ast.Subscript) and not isinstance(x.slice, ast.Slice) and norm(x.slice).endswith('+ 1') for x in (a_.left, a_.right)): ok_ = True
      ctx.ob('R-DOM', po, "an option is decoded only if it ends inside the TCP header", ok_, "option end compared with self.hdr_len" if ok_ else
             "the option's end (i + its length byte) is compared with the segment length only: an option that starts in the header and ends in the payload is accepted, and re-packing the parse result needs a data offset above 15 - struct.error in hdr()",
             (tcpm, n.ast), 'D1')
  # ---- E8 remaining-length accounting in header chains ----------------------------------------------------------------------
  for cls in classes:
    pf = cls.methods.get('parse')
    if pf is None: continue
    g = q.cfg_of(pf)
    for n in g.nodes:
      for c in q.node_calls(n):
        ml = kwarg(c, 'max_length')
        if not (call_name(c) == 'unpack_new' and isinstance(ml, ast.Name) and isinstance(n.ast, ast.Assign) and isinstance(n.ast.targets[0], ast.Tuple) and len(n.ast.targets[0].elts) == 2): continue
        newc, obj = [norm(e) for e in n.ast.targets[0].elts]
        oldc = norm(c.args[1]) if len(c.args) > 1 else None
        decs = [(st, v) for t, v, st, k in q.stores_in(pf.node, nested=False) if isinstance(t, ast.Name) and t.id == ml.id and k == 'augassign' and isinstance(st.op, ast.Sub)]
        for st, v in decs:
          sn = q.enclosing_stmt_node(g, st)
          if sn is None or sn not in g.reachable(n, exc=False): continue
          lt = q.lin_terms(v)
          by_cursor = lt is not None and lt[1] == 0 and lt[0] == {newc: 1, oldc: -1} and newc != oldc
          if by_cursor:
            ctx.ob('R-AGREE', pf, "the remaining length `%s` is reduced by the bytes the cursor advanced" % ml.id, True, norm(st), (cls.module, st), 'D1')
          elif isinstance(v, ast.Call) and call_name(v) == 'len' and norm(v.args[0]) == obj:
            # len(obj): is that the number of bytes unpack_new consumed?  Decided on the decoder class(es): __len__ must be
            # linear in the same quantity the decoder adds to the offset
            verdicts = []
            for dc in _decoder_classes(repo, pf, c):
              un = dc.find_method('unpack_new'); ln = dc.find_method('__len__')
              if un is None or ln is None: continue
              verdicts.append(_len_is_consumed(repo, dc, un, ln))
            if any(x is False for x in verdicts):
              ctx.bad('R-AGREE', pf, "the remaining length `%s` is reduced by the bytes the cursor advanced" % ml.id,
                      "`%s` subtracts len(%s), but for a decoded header class __len__ is the value of the header's length field (units of 8 octets), not the bytes unpack_new consumed: the counter stays too high, "
                      "so with a second chained header in a truncated frame the 'enough data left' test passes and the decoder reads past the end (struct.error out of parse)" % (norm(st), obj), (cls.module, st), 'D1')
            elif verdicts and all(x is True for x in verdicts):
              ctx.ob('R-AGREE', pf, "the remaining length `%s` is reduced by the bytes the cursor advanced" % ml.id, True, "len(%s) equals the bytes consumed" % obj, (cls.module, st), 'D1')
            else:
              ctx.undecided('R-AGREE', pf, "the remaining length `%s` is reduced by the bytes the cursor advanced" % ml.id, "`%s`: relation between len(%s) and the cursor advance not decided" % (norm(st), obj), (cls.module, st), 'D1')
  # ---- E9 fields the decoder may leave at None and the serialiser uses as bytes / numbers ------------------------------------
  for cls in classes:
    un = cls.methods.get('unpack_new'); init = cls.methods.get('__init__')
    if un is None or init is None: continue
    none_fields = set(t.attr for t, v, st, k in q.stores_in(init.node) if isinstance(t, ast.Attribute) and norm(t.value) == 'self' and isinstance(v, ast.Constant) and v.value is None)
    if not none_fields: continue
    gu = q.cfg_of(un)
    obj = None
    for t, v, st, k in q.stores_in(un.node):
      if isinstance(t, ast.Name) and isinstance(v, ast.Call) and isinstance(v.func, ast.Name) and v.func.id in ('cls', cls.name): obj = t.id
    if obj is None: continue
    for F in sorted(none_fields):
      stn = [q.enclosing_stmt_node(gu, st) for t, v, st, k in q.stores_in(un.node) if isinstance(t, ast.Attribute) and t.attr == F and norm(t.value) == obj]
      stn = [n for n in stn if n is not None]
      if not stn: continue                                    # never set by the decoder: a constructor-only field
      iv = gu.interval(lambda n: n in stn)
      if iv is not None and iv[0] >= 1: continue              # set on every normal path
      # what each normal path of the decoder assigns: field names, and the constants it gives to discriminator fields
      upaths = []
      for p_, e_ in q.paths_under(repo, cls.module, gu, q.Env(), gu.entry, [n_ for n_ in gu.nodes if n_.kind == 'return'], cls, limit=120):
        assigned = set(); consts = {}
        for n_ in p_:
          if n_.kind == 'stmt' and isinstance(n_.ast, ast.Assign):
            for t_ in n_.ast.targets:
              for tt_ in (t_.elts if isinstance(t_, (ast.Tuple, ast.List)) else [t_]):
                if isinstance(tt_, ast.Attribute) and norm(tt_.value) == obj:
                  assigned.add(tt_.attr)
                  if isinstance(n_.ast.value, ast.Constant) and not isinstance(t_, (ast.Tuple, ast.List)): consts[tt_.attr] = n_.ast.value.value
        upaths.append((assigned, consts))
      if not upaths or len(upaths) >= 120: continue
      for name in PACK_NAMES:
        pf = cls.methods.get(name)
        if pf is None: continue
        gp = q.cfg_of(pf)
        for n in gp.nodes:
          if n.ast is None or n.kind in ('def', 'branch', 'handler', 'join'): continue
          srcs = [n.ast] if not isinstance(n.ast, (ast.If, ast.While, ast.For, ast.With, ast.Try)) else []
          for src in srcs:
            for x in ast.walk(src):
              use = None
              if isinstance(x, ast.Call) and isinstance(x.func, ast.Name) and x.func.id == 'len' and x.args and norm(x.args[0]) == 'self.' + F: use = "len(self.%s)" % F
              elif isinstance(x, ast.BinOp) and isinstance(x.op, ast.Add) and any(norm(y) == 'self.' + F for y in (x.left, x.right)): use = norm(x)[:40]
              elif isinstance(x, ast.AugAssign) and isinstance(x.op, ast.Add) and norm(x.value) == 'self.' + F: use = norm(x)[:40]
              elif isinstance(x, ast.Subscript) and norm(x.value) == 'self.' + F and isinstance(x.ctx, ast.Load): use = norm(x)[:40]
              if use is None: continue
              fs = q.fact_strs(gp, n)
              guarded = any(f_ in ('self.%s:truthy' % F, 'self.%s is not None' % F) for f_ in fs) or _in_try(gp, n, ('Exception', 'BaseException', 'TypeError'))
              if not guarded:
                # discriminator facts at the use (`self.phase == 1`): only decoder paths that set that value matter
                want = {}
                for l_, o_, r_, b_ in q.guard_facts(gp, n):
                  if r_ is not None and o_ == '==' and isinstance(l_, ast.Attribute) and norm(l_.value) == 'self' and isinstance(r_, ast.Constant): want[l_.attr] = r_.value
                if want:
                  rel = [(a_, c_) for a_, c_ in upaths if all(c_.get(k_, '?') == v_ for k_, v_ in want.items())]
                  if all(F in a_ for a_, c_ in rel): guarded = True
              ctx.ob('R-DEF', pf, "`%s` is not reached while self.%s is None" % (use, F), guarded, "guarded by a test of self.%s" % F if guarded else
                     "%s.unpack_new can return an object whose %s was never assigned (it is set only on some paths, __init__ leaves it None) and %s() applies `%s` to it: packing the parse result raises TypeError"
                     % (cls.name, F, name, use), (cls.module, x), 'D4')
  # ---- E10 addresses taken from the frame: six raw bytes are an address whatever they look like -------------------------
  try: am = repo.mod('lib.addresses'); ea = am.classes.get('EthAddr')
  except Exception: ea = None
  ei = ea.methods.get('__init__') if ea is not None else None
  if ei is not None:
    ctx.analysed(ei); ge = q.cfg_of(ei)
    ap = ei.params[1]
    bad_s = []; unknown = 0
    for sample in (b':::::X', b'::::::', b'-----\x00', b'\x00\x01\x02\x03\x04\x05', b'0a:b0c'):
      isb = lambda e, want: isinstance(e, ast.Call) and call_name(e) == 'isinstance' and len(e.args) == 2 and norm(e.args[0]) == ap and want in norm(e.args[1])
      ms = [((lambda e: isb(e, 'bytes') and 'str' not in norm(e.args[1])), True), ((lambda e: isb(e, 'str') and 'bytes' not in norm(e.args[1])), False), ((lambda e: isb(e, 'EthAddr')), False)]
      paths = q.paths_under(repo, am, ge, q.Env({ap: sample}, ms), ge.entry, [ge.exit] + [n for n in ge.nodes if n.kind == 'raise_stmt'], ea, limit=40)
      is_text = lambda n: any(call_name(c) == 'int' and len(c.args) == 2 for c in q.node_calls(n)) or n.kind == 'raise_stmt'
      if len(paths) != 1:
        # several paths: the value got lost on the way (e.g. a conversion the evaluator gave up on).  If every one of them went through
        # the textual conversion the verdict is the same; otherwise it is not decided
        if paths and all(any(is_text(n) for n in p_) for p_, e_ in paths): bad_s.append((sample, [n for n in paths[0][0] if is_text(n)][0].text(50)))
        else: unknown += 1
        continue
      p_, e_ = paths[0]
      textual = [n for n in p_ if is_text(n)]
      if textual or e_.exact.get('self._value', sample) != sample: bad_s.append((sample, textual[0].text(50) if textual else 'value changed'))
    if unknown and not bad_s:
      ctx.undecided('R-DOM', ei, "six raw bytes from a frame are taken as they are", "%d sample(s) not evaluable" % unknown, ei, 'D1')
    else:
      ctx.ob('R-DOM', ei, "six raw bytes from a frame are taken as they are", not bad_s, "5 six-byte samples (colons, dashes, hex digits among them) stored unchanged" if not bad_s else
             "EthAddr(%r) - six raw bytes, as ethernet.parse / arp.parse / dhcp.parse pass them - is treated as text (`%s`): parsing a frame whose MAC address happens to consist of such bytes raises out of the parser" % bad_s[0], ei, 'D1')
  # ---- E11 DHCP options: what is written behind a one-octet length is at most 255 octets -------------------------------------
  # (unpackOptions concatenates repeated options, RFC 3396, so a received datagram can hold an option object whose packed
  # form is longer): packOptions evaluated on an option object that packs to 300 octets and on 300 raw octets
  try: dm = repo.mod('lib.packet.dhcp'); dc = dm.classes.get('dhcp')
  except Exception: dc = None
  po = dc.methods.get('packOptions') if dc is not None else None
  if po is not None:
    ctx.analysed(po); gpo = q.cfg_of(po)
    OPT = q.Rec(kind='DHCPOption')
    big = {}; unknown = 0
    for label, val in (("an option object whose packed form is 300 octets", OPT), ("a 300-octet raw option value", bytes(300)), ("a 4-octet value", b'abcd')):
      lens = []
      def hook (call, env=None):
        nm = call_name(call)
        try:
          if nm == 'isinstance' and len(call.args) == 2 and 'DHCPOption' in norm(call.args[1]):
            return (True, q.eval_env2(repo, dm, call.args[0], env, dc) is OPT)
          if nm == 'isinstance' and len(call.args) == 2:
            v_ = q.eval_env2(repo, dm, call.args[0], env, dc)
            if v_ is OPT: return (True, False)
          if nm == 'pack' and isinstance(call.func, ast.Attribute) and q.eval_env2(repo, dm, call.func.value, env, dc) is OPT: return (True, bytes(300))
          if nm == 'addPart' and len(call.args) == 2: return (True, b'')
        except Exception:
          if nm == 'addPart': return (True, b'')
        return (False, None)
      hook.wants_env = True
      def on_node (n_, e_):
        # record, in the path's own environment, the length of every part handed to addPart
        if n_.ast is None or n_.kind in ('def', 'branch', 'join', 'for', 'handler'): return
        for c_ in q.node_calls(n_):
          if call_name(c_) == 'addPart' and len(c_.args) == 2:
            try:
              v_ = q.eval_env2(repo, dm, c_.args[1], e_, dc)
              rec = len(v_) if isinstance(v_, (bytes, list)) else ('obj' if v_ is OPT else '?')
            except Exception: rec = '?'
            e_.exact['__parts__'] = e_.exact.get('__parts__', ()) + (rec,)
      env = q.Env({'self.options.items()': [(53, val)], 'self.options': {53: val}}, [], hook)
      res = set()
      for p_, e_ in q.paths_under(repo, dm, gpo, env, gpo.entry, [gpo.exit], dc, limit=60, on_node=on_node): res.add(e_.exact.get('__parts__', ()))
      if len(res) != 1 or any(x == '?' for r_ in res for x in r_) or not list(res)[0]: unknown += 1; continue
      parts = list(res)[0]
      if any(x == 'obj' or (isinstance(x, int) and x > 255) for x in parts): big[label] = parts
    if unknown and not big:
      ctx.undecided('R-CONTAIN', po, "every option part written behind a length octet fits it", "packOptions not evaluable on %d sample(s)" % unknown, po, 'D4')
    else:
      ctx.ob('R-CONTAIN', po, "every option part written behind a length octet fits it", not big, "option object / raw value of 300 octets are split into parts of at most 255" if not big else
             "for %s packOptions writes part(s) of length %s behind a one-octet length: bytes((len,)) raises ValueError - a received datagram with a repeated (concatenated, RFC 3396) option cannot be re-serialised"
             % (sorted(big.items())[0][0], list(sorted(big.items())[0][1])), po, 'D4')
  # ---- E12 the logging shortcuts every length guard calls: the text they are given contains bytes of the frame -----------------
  # (repr of a bad magic cookie, an address): it may hold '%' or '{'.  Handing it to the logging module as-is is safe (logging
  # formats lazily and swallows formatting errors); using it as a *format string* here raises out of the guard - out of parse()
  try: pbm_ = repo.mod('lib.packet.packet_base'); pbc_ = pbm_.classes.get('packet_base')
  except Exception: pbc_ = None
  if pbc_ is not None:
    seen_ = set(); work_ = [pbc_.methods[n_] for n_ in ('msg', 'err', 'warn') if n_ in pbc_.methods]
    ctx.floor('parser logging shortcuts', len(work_), 3)
    while work_:
      f_ = work_.pop()
      if f_.qual in seen_: continue
      seen_.add(f_.qual); ctx.analysed(f_)
      a_ = f_.node.args
      ps_ = set(x.arg for x in a_.args[1:]) | ({a_.vararg.arg} if a_.vararg else set()) | ({a_.kwarg.arg} if a_.kwarg else set())
      eager = []
      for x in ast.walk(f_.node):
        if isinstance(x, ast.BinOp) and isinstance(x.op, ast.Mod) and (q.names_in(x.left) & ps_) and not (isinstance(x.left, ast.Constant)): eager.append(x)
        if isinstance(x, ast.Call) and isinstance(x.func, ast.Attribute) and x.func.attr == 'format' and (q.names_in(x.func.value) & ps_): eager.append(x)
        if isinstance(x, ast.Call) and isinstance(x.func, ast.Attribute) and norm(x.func.value) == 'self' and x.func.attr in pbc_.methods and len(seen_) < 8: work_.append(pbc_.methods[x.func.attr])
      ctx.ob('R-CONTAIN', f_, "the caller's text is not used as a format string here", not eager, "passed on to the logging module unformatted" if not eager else
             "`%s` formats with the caller's text as the format string: a guard message that embeds bytes of the frame (the repr of a bad DHCP magic cookie containing '%%', say) makes it raise TypeError / ValueError "
             "- the length guard raises out of parse() instead of logging and returning" % norm(eager[0])[:60], (pbm_, eager[0]) if eager else f_, 'D1')
  # ---- E13 printing / re-serialising methods only use what exists ---------------------------------------------------------------
  # a global the module does not define, or an attribute no class of the object's hierarchy ever sets: the method raises
  # NameError / AttributeError for every object (copy-and-paste between protocol modules is how these arise)
  from .. import defs as defs_
  pcs_ = [c for c in classes if pbase in c.mro() and c is not pbase]
  def _known_attrs (c):
    out = set()
    fam = list(c.mro()) + [s_ for s_ in repo.subclasses(c)]
    for k in fam:
      out.update(k.methods.keys()); out.update(k.assigns.keys() if hasattr(k.assigns, 'keys') else k.assigns)
      for f in k.methods.values():
        recv = set(['self'])
        for t, v, st, kd in q.stores_in(f.node):
          if isinstance(t, ast.Name) and isinstance(v, ast.Call) and isinstance(v.func, ast.Name) and (v.func.id == 'cls' or v.func.id == k.name): recv.add(t.id)
        for t, v, st, kd in q.stores_in(f.node):
          if isinstance(t, ast.Attribute) and isinstance(t.value, ast.Name) and t.value.id in recv: out.add(t.attr)
        for c_ in calls_in(f.node, nested=True):
          if call_name(c_) == 'setattr' and len(c_.args) >= 2 and isinstance(c_.args[1], ast.Constant): out.add(c_.args[1].value)
          if call_name(c_) in ('setattr', '__setattr__') and len(c_.args) >= 2 and not isinstance(c_.args[1], ast.Constant) and norm(c_.args[0]) in recv and f.name not in ('_init', '__init__'): out.add('*')
      if '__getattr__' in k.methods or '__getattribute__' in k.methods: out.add('*')
    return out
  n_out = 0
  for cls in pcs_:
    known = None
    for nm_ in ('__str__', '_to_str', '_fields', '__repr__', 'hdr', 'pack', '_pack_body'):
      f_ = cls.methods.get(nm_)
      if f_ is None: continue
      n_out += 1
      for gn_, node_ in defs_.undefined_names(repo, f_):
        ctx.bad('R-DEF', f_, "undefined name `%s` in a printing / serialising method" % gn_,
                "`%s` is not defined in %s (nor imported): %s.%s raises NameError for every object - the parse result of such a message cannot be %s"
                % (gn_, cls.module.short, cls.name, nm_, "printed" if nm_ in ('__str__', '_to_str', '_fields', '__repr__') else "re-serialised"), (cls.module, node_), 'D4')
      if known is None: known = _known_attrs(cls)
      if '*' in known: continue
      reads = []
      for x in walk_no_nested(f_.node):
        if isinstance(x, ast.Attribute) and isinstance(x.ctx, ast.Load) and isinstance(x.value, ast.Name) and x.value.id == 'self': reads.append((x.attr, x))
        # getattr(self, name) with the names listed in a local literal the loop runs over
        if isinstance(x, ast.Call) and call_name(x) == 'getattr' and len(x.args) == 2 and norm(x.args[0]) == 'self' and isinstance(x.args[1], ast.Name):
          for lp in [y for y in ast.walk(f_.node) if isinstance(y, ast.For) and isinstance(y.target, ast.Name) and y.target.id == x.args[1].id]:
            it = lp.iter
            if isinstance(it, ast.Name): it = q.single_def(f_.node, it.id)
            if isinstance(it, (ast.List, ast.Tuple)) and all(isinstance(e_, ast.Constant) and isinstance(e_.value, str) for e_ in it.elts):
              for e_ in it.elts: reads.append((e_.value, x))
      for at_, node_ in reads:
        if at_ in known or at_.startswith('__'): continue
        # guarded by hasattr / inside a try that catches AttributeError
        g_ = q.cfg_of(f_); sn_ = q.enclosing_stmt_node(g_, node_)
        if sn_ is not None and (_in_try(g_, sn_, ('Exception', 'BaseException', 'AttributeError')) or any('hasattr' in fs_ for fs_ in q.fact_strs(g_, sn_))): continue
        ctx.bad('R-DEF', f_, "attribute `%s` read by a printing / serialising method exists" % at_,
                "nothing in %s's class hierarchy ever sets or defines `%s`: %s.%s raises AttributeError - the parse result of such a message cannot be %s"
                % (cls.name, at_, cls.name, nm_, "printed" if nm_ in ('__str__', '_to_str', '_fields', '__repr__') else "re-serialised"), (cls.module, node_), 'D4')
  ctx.floor('printing / serialising methods scanned for missing names', n_out, 60)
  # ---- E14 what parsing can produce can be packed: pack() of a class a parser dispatch table names is not the abstract stub -----------
  def _always_raises (f):
    g_ = q.cfg_of(f)
    return g_.exit not in g_.reachable(g_.entry, avoid=[n_ for n_ in g_.nodes if n_.kind == 'raise_stmt'], exc=False)
  n_tab = 0
  for m in mods.values():
    tabs = [x for x in ast.walk(m.tree) if isinstance(x, ast.Dict) and len(x.values) >= 2 and all(isinstance(v_, ast.Name) and isinstance(m.lookup(v_.id), type(pbase)) for v_ in x.values)]
    for tb in tabs:
      for v_ in tb.values:
        c_ = m.lookup(v_.id)
        if pbase not in c_.mro(): continue
        n_tab += 1
        pk_ = c_.find_method('pack')
        if pk_ is None: continue
        ctx.ob('R-AGREE', c_, "a class the parser's dispatch table produces can be re-serialised", not _always_raises(pk_),
               "pack() resolves to %s" % pk_.qual if not _always_raises(pk_) else
               "%s is produced by the dispatch table at %s:%d, but its pack() resolves to %s, which raises on every path (the abstract stub): re-serialising a parsed frame of this type raises"
               % (c_.name, m.rel(), tb.lineno, pk_.qual), (m, v_), 'D4')
  ctx.floor('classes named by parser dispatch tables', n_tab, 8)
  # ---- E15 constructors initialise the base state printing / packing rely on ---------------------------------------------------
  n_ctor = 0
  for cls in pcs_:
    own = cls.methods.get('__init__')
    if own is None: continue
    n_ctor += 1
    base_init = [c_ for c_ in calls_in(own.node) if call_name(c_) == '__init__' and isinstance(c_.func, ast.Attribute)]
    ctx.ob('R-SIB', own, "the constructor initialises the packet_base state (parsed / raw / next / prev)", bool(base_init),
           "calls %s" % norm(base_init[0].func) if base_init else
           "%s.__init__ never calls a base-class __init__ (every sibling does): an object whose parse() returned early has no `parsed` / `next` / `raw`, so packet_base.pack() and packet_base.__str__() raise AttributeError"
           % cls.name, own, 'D4')
  ctx.floor('packet class constructors', n_ctor, 28)
  # ---- E16 address printing is total: the NDP / ARP / IPv6 printers call str() on addresses taken from the frame --------------------
  # max() / min() of a list that a loop may leave empty raises ValueError (an IPv6 address without any all-zero group has no zero run)
  try: am_ = repo.mod('lib.addresses')
  except Exception: am_ = None
  n_mm = 0
  if am_ is not None:
    for k_ in am_.classes.values():
      for f_ in k_.methods.values():
        if f_.name not in ('to_str', 'toStr', '__str__', '__repr__', 'to_tuple'): continue
        g_ = q.cfg_of(f_)
        for n_ in g_.nodes:
          for c_ in q.node_calls(n_):
            if call_name(c_) not in ('max', 'min') or not isinstance(c_.func, ast.Name) or len(c_.args) != 1 or kwarg(c_, 'default') is not None: continue
            a0 = c_.args[0]
            src = a0.id if isinstance(a0, ast.Name) else (a0.generators[0].iter.id if isinstance(a0, (ast.ListComp, ast.GeneratorExp)) and isinstance(a0.generators[0].iter, ast.Name) else None)
            if src is None: continue
            starts_empty = any(isinstance(v_, ast.List) and not v_.elts for v_, st_, kd_ in q.reaching_assign(f_.node, src))
            if not starts_empty: continue
            n_mm += 1
            fs_ = q.fact_strs(g_, n_)
            guarded = any(('len(%s)' % src) in x_ or x_.startswith(src + ':truthy') for x_ in fs_)
            ctx.ob('R-CONTAIN', f_, "`%s` is not applied to an empty list" % norm(c_)[:40], guarded, "guarded by a test of `%s`" % src if guarded else
                   "`%s` runs although `%s` can still be the empty list it started as: ValueError - e.g. printing an IPv6 address without an all-zero group; the ND printers (icmp_base.__str__) call str() on the target / prefix "
                   "addresses of a parsed frame outside any try" % (norm(c_)[:50], src), (am_, c_), 'D4')
  ctx.stat('max/min over loop-built lists in address printers', n_mm)
  # ---- E17 what the option parser collects can be packed: no decoder hands back None as the option, or the collector tests for it --------
  try: tm_ = repo.mod('lib.packet.tcp'); tc_ = tm_.classes.get('tcp')
  except Exception: tc_ = None
  po_ = tc_.methods.get('parse_options') if tc_ is not None else None
  if po_ is not None:
    gp_ = q.cfg_of(po_)
    for n_ in gp_.nodes_with_call(lambda c: call_name(c) == 'append' and norm(c.func.value) == 'self.options' and len(c.args) == 1 and isinstance(c.args[0], ast.Name)):
      c_ = [c for c in q.node_calls(n_) if call_name(c) == 'append'][0]; ov = c_.args[0].id
      guarded = any(x_.startswith(ov + ':truthy') or x_ == '%s is not None' % ov for x_ in q.fact_strs(gp_, n_))
      nones = []
      for k_ in tm_.classes.values():
        for fn_ in ('unpack_new',):
          f_ = k_.methods.get(fn_)
          if f_ is None: continue
          for r_ in q.returns_of(f_.node):
            if isinstance(r_.value, ast.Tuple) and len(r_.value.elts) == 2 and isinstance(r_.value.elts[1], ast.Constant) and r_.value.elts[1].value is None: nones.append((f_, r_))
      good = guarded or not nones
      ctx.ob('R-AGREE', po_, "every collected TCP option is an option object", good, "append guarded by a test of the decoded option" if guarded else "no decoder returns None as the option" if good else
             "%s can return `%s` and parse_options appends whatever it gets: a segment reported as parsed then holds None among its options, and tcp.hdr() (`opt.pack()`) raises AttributeError when the parse result is re-serialised"
             % (nones[0][0].qual, norm(nones[0][1].value)), (tm_, c_), 'D4')
  # ---- E18 state of one parse result is its own: a mutable default argument stored into the instance is one object shared by every
  # instance built without that argument - the decoders build their results exactly that way (`cls()` then unpack/append) -----------
  n_md = 0
  for m_ in mods.values():
    for c_ in m_.classes.values():
      for f_ in c_.methods.values():
        a_ = f_.node.args
        defaults = dict(zip([x.arg for x in a_.args][len(a_.args) - len(a_.defaults):], a_.defaults))
        for pn_, dv_ in defaults.items():
          if not (isinstance(dv_, (ast.List, ast.Dict, ast.Set)) or (isinstance(dv_, ast.Call) and isinstance(dv_.func, ast.Name) and dv_.func.id in ('list', 'dict', 'set', 'bytearray'))): continue
          n_md += 1
          g_ = q.cfg_of(f_)
          for t_, v_, st_, k_ in q.stores_in(f_.node, nested=False):
            if not (isinstance(t_, ast.Attribute) and norm(t_.value) == 'self' and isinstance(v_, ast.Name) and v_.id == pn_ and k_ == 'assign'): continue
            # the parameter still holds what the caller passed (or the default) when it is stored: no rebinding on the way
            sn_ = q.enclosing_stmt_node(g_, st_)
            rebound = [q.enclosing_stmt_node(g_, s2_) for t2_, v2_, s2_, k2_ in q.stores_in(f_.node, nested=False) if isinstance(t2_, ast.Name) and t2_.id == pn_]
            if rebound and all(r_ is not None and g_.dominates(r_, sn_) for r_ in rebound): continue
            muts = [(f2_, k2_) for f2_ in c_.methods.values() for k2_, s2_ in q.mutations_of_attr(f2_.node, t_.attr) if k2_.startswith('call:') or k2_ in ('setitem', 'delitem', 'augassign')]
            sub_muts = [(f2_, k2_) for (rel_, cn_, bases_, meths_) in repo.class_index if c_.name in bases_ for c2_ in [mm_.classes.get(cn_) for mm_ in mods.values() if mm_.classes.get(cn_) is not None][:1]
                        for f2_ in c2_.methods.values() for k2_, s2_ in q.mutations_of_attr(f2_.node, t_.attr) if k2_.startswith('call:') or k2_ in ('setitem', 'delitem', 'augassign')]
            allm = muts + sub_muts
            ctx.ob('R-OWN', f_, "a mutable default argument is not kept as instance state (`%s`)" % norm(st_), not allm, "never changed in place" if not allm else
                   "`%s` stores the parameter `%s`, whose default `%s` is created once: every %s built without that argument shares one object, and %s changes it in place (%s) - what one frame's decoder collects stays in every later "
                   "instance; the accumulated state grows with each frame until re-serialising a parse result raises" % (norm(st_), pn_, norm(dv_), c_.name, allm[0][0].qual, allm[0][1]), (m_, st_), 'D4')
  ctx.stat('mutable default arguments examined', n_md)
  ctx.stat('own __str__ methods examined', n_str); ctx.stat('tuple-arity sites', n_arity); ctx.stat('self-nesting dispatch sites', n_rec); ctx.stat('TLV value slices compared', n_tlv)

def tlv_value_slices (ctx, classes, clause):
  n_tlv = 0
  # ---- E6 TLV decoders: value slice vs declared length --------------------------------------------------------------------
  for cls in classes:
    f = cls.methods.get('unpack_new')
    if f is None or len(f.params) < 3: continue
    g = q.cfg_of(f)
    rets = [r for r in q.returns_of(f.node) if isinstance(r.value, ast.Tuple) and len(r.value.elts) == 2]
    ends = set()
    for r in rets:
      lt = q.lin_terms(r.value.elts[0])
      if lt is not None: ends.add(tuple(sorted(lt[0].items())) + (('', lt[1]),))
    if len(ends) != 1: continue
    end = dict(list(ends)[0]); endc = end.pop('', 0)
    alias = {}
    for t, v, st, k in q.stores_in(f.node, nested=False):
      if isinstance(t, ast.Name) and isinstance(v, ast.Name) and v.id in f.params and len([1 for t2, v2, s2, k2 in q.stores_in(f.node, nested=False) if isinstance(t2, ast.Name) and t2.id == t.id]) == 1: alias[t.id] = v.id
    for t, v, st, k in q.stores_in(f.node, nested=False):
      if not (isinstance(t, ast.Attribute) and t.attr in ('val', 'value', 'data', 'payload') and isinstance(v, ast.Subscript) and isinstance(v.slice, ast.Slice) and v.slice.upper is not None): continue
      up = q.lin_terms(v.slice.upper, alias)
      if up is None: continue
      d = dict(up[0])
      for k_, c_ in end.items():
        kk = alias.get(k_, k_)
        d[kk] = d.get(kk, 0) - c_
        if d[kk] == 0: del d[kk]
      if d: continue                          # not comparable symbolically
      over = up[1] - endc
      n_tlv += 1
      ctx.ob('R-AGREE', f, "the value slice `%s` ends where the declared length ends" % norm(v)[:40], over <= 0, "ends at the option's end" if over <= 0 else
             "the decoder returns %s as the next position but stores `%s`, which reaches %d byte(s) further: the value swallows bytes of what follows, and packing the parsed option writes a longer option than was received"
             % (norm(rets[0].value.elts[0]), norm(v), over), (cls.module, st), clause)
  return n_tlv

def _decoder_classes (repo, pf, call):
  """classes whose unpack_new the call can reach: the receiver is a table lookup -> every class in the module with unpack_new and __len__"""
  out = []
  for c in pf.module.classes.values():
    if 'unpack_new' in c.methods or any('unpack_new' in b.methods for b in c.mro()[1:]):
      if c.find_method('__len__') is not None and c is not pf.cls: out.append(c)
  return out

def _len_is_consumed (repo, cls, un, ln):
  """evaluate on a sample: header length field 1 -> bytes unpack_new advances vs what __len__ returns for the object it builds.
  True / False / None (not evaluable)"""
  mod = cls.module
  g = q.cfg_of(un)
  def hook (call, env=None):
    nm = call_name(call)
    if nm == 'unpack_from' or nm == 'unpack': return (True, (17, 1))
    if nm == '_unpack_body': return (True, {})
    return (False, None)
  env = q.Env({un.params[2] if len(un.params) > 2 else 'offset': 0, un.params[3] if len(un.params) > 3 else 'max_length': 64}, [], hook)
  adv = set(); plen = set()
  for p_, e_ in q.paths_under(repo, mod, g, env, g.entry, [n for n in g.nodes if n.kind == 'return'], cls, limit=30):
    rv = p_[-1].ast.value
    if not (isinstance(rv, ast.Tuple) and rv.elts): continue
    try: adv.add(q.eval_env2(repo, mod, rv.elts[0], e_, cls))
    except Exception: adv.add('?')
    d = e_.exact.get('d')
    if isinstance(d, dict) and 'payload_length' in d: plen.add(d['payload_length'])
    else:
      try: plen.add(q.eval_env2(repo, mod, ast.Name(id='l', ctx=ast.Load()), e_, cls))
      except Exception: plen.add('?')
  if len(adv) != 1 or '?' in adv or len(plen) != 1 or '?' in plen: return None
  gl = q.cfg_of(ln)
  vals = set()
  for p_, e_ in q.paths_under(repo, mod, gl, q.Env({'self.payload_length': list(plen)[0]}), gl.entry, [n for n in gl.nodes if n.kind == 'return'], cls, limit=10):
    try: vals.add(q.eval_env2(repo, mod, p_[-1].ast.value, e_, cls))
    except Exception: vals.add('?')
  if len(vals) != 1 or '?' in vals: return None
  return list(vals)[0] == list(adv)[0]
