"""C17 - controller's picture of switch ports and multipart statistics (structural part).

 D1 PortCollection: _forget masks and drops, _update unmasks, drops the same-numbered port and adds the new one,
    _reset clears both - each effect on every path; chained lookups honour the mask; keys = chain - masks + own;
    the derived views use keys()/__getitem__ only; query methods return a value on every path
 D2 R-OWN: the original port set is written only by the two features-reply handlers; the live view is changed only
    by the port-status / features handlers; DELETE -> _forget, otherwise -> _update
 D3 stats reassembly: a part is appended only when both xid and type continue the pending sequence (all four
    combinations decided), otherwise the pending parts are replaced; the aggregate handler is called exactly once,
    only for the last part, after the pending list has been reset, with the saved parts; aggregate handlers
    concatenate part bodies in order
"""
import ast
from .. import q, defs
from ..model import AnalysisError, calls_in, call_name, norm, kwarg, walk_no_nested

EXPLAIN = ("R-EFFECT mask/drop/add pairing on every path of the PortCollection mutators; R-DOM masked chained lookup; R-AGREE "
           "derived views single-sourced; R-OWN writers of the original and live port sets; R-DOM/R-EFFECT stats reassembly decided "
           "by path-sensitive reachability for the four (same xid, same type) combinations and (last, not last); R-ORDER reset before "
           "the aggregate handler; R-ALL aggregate handlers concatenate every part in order; R-DEF. Decides these necessary conditions, "
           "not lookups by name/address after renames or event payload contents.")
OF = 'openflow.of_01'

def _eqm (attr, eq):
  """matchers giving the truth of `a.attr == b.attr` / `!=` comparisons for a chosen equality"""
  def is_cmp (e, op):
    return isinstance(e, ast.Compare) and len(e.ops) == 1 and isinstance(e.ops[0], op) and \
      isinstance(e.left, ast.Attribute) and e.left.attr == attr and isinstance(e.comparators[0], ast.Attribute) and e.comparators[0].attr == attr
  return [(lambda e: is_cmp(e, ast.Eq), eq), (lambda e: is_cmp(e, ast.NotEq), not eq)]

def run (ctx):
  ctx.explanation = EXPLAIN
  ctx.assumptions = ["PortCollection state is touched only through self._ports/_masks/_chain"]
  repo = ctx.repo
  mod = repo.mod(OF)
  pc = repo.cls(OF, 'PortCollection'); con = repo.cls(OF, 'Connection')
  M = lambda n: q.find_method(repo, pc, n, 'C17')

  # ---- D1 mutators ----------------------------------------------------------
  fg = M('_forget'); up = M('_update'); rs = M('_reset')
  for f in (fg, up, rs): ctx.analysed(f)
  def effects (f):
    g = q.cfg_of(f); p = f.params[1] if len(f.params) > 1 else None
    mask_add = g.nodes_with_call(lambda c: call_name(c) == 'add' and norm(c.func.value) == 'self._masks')
    mask_dis = g.nodes_with_call(lambda c: call_name(c) in ('discard', 'remove') and norm(c.func.value) == 'self._masks')
    drops = []
    # a local set that is built and then becomes self._ports stands for it
    tgt = set(['self._ports']) | set(v.id for t, v, st, k in q.stores_in(f.node) if norm(t) == 'self._ports' and isinstance(v, ast.Name))
    # a filtered copy may be built under a name of its own first (`kept = [x for x in self._ports if x.port_no != n]`) and become the set
    # later, directly or wrapped (`self._ports = set(kept)`, `current = set(kept); self._ports = current`)
    filt = set()
    for _i in range(3):
      for t, v, st, k in q.stores_in(f.node):
        if isinstance(t, ast.Name) and v is not None and t.id not in filt and (('port_no !=' in norm(v) and 'self._ports' in norm(v)) or any(isinstance(x_, ast.Name) and x_.id in filt for x_ in ast.walk(v))): filt.add(t.id)
    tgt |= set(t.id for t, v, st, k in q.stores_in(f.node) if isinstance(t, ast.Name) and t.id in filt and any(norm(t2) == 'self._ports' and isinstance(v2, ast.Name) and v2.id == t.id for t2, v2, st2, k2 in q.stores_in(f.node)))
    counted_locals = set()
    for t, v, st, k in q.stores_in(f.node):
      if norm(t) in tgt and v is not None and 'port_no !=' in norm(v):
        drops.append(q.enclosing_stmt_node(g, st))
        if isinstance(t, ast.Name): counted_locals.add(t.id)
    for t, v, st, k in q.stores_in(f.node):
      # the filtered copy becomes the set (one drop per chain: not again when the local that was counted is merely installed)
      if norm(t) == 'self._ports' and v is not None and 'port_no !=' not in norm(v):
        used_ = set(x_.id for x_ in ast.walk(v) if isinstance(x_, ast.Name) and x_.id in filt)
        if used_ and not (used_ & counted_locals) and not any(u_ in counted_locals for u_ in used_): drops.append(q.enclosing_stmt_node(g, st))
    for c in calls_in(f.node):
      if call_name(c) in ('discard', 'remove') and norm(c.func.value) in tgt: drops.append(q.enclosing_stmt_node(g, c))
    port_add = g.nodes_with_call(lambda c: call_name(c) == 'add' and norm(c.func.value) in tgt)
    # a filtered copy built element by element: `for x in self._ports: if x.port_no != p.port_no: new.add(x)` ... `self._ports = new`
    copies = [n_ for n_ in port_add if any(norm(c_.func.value) != 'self._ports' for c_ in q.node_calls(n_) if call_name(c_) == 'add') and any('port_no !=' in f_ for f_ in q.fact_strs(g, n_))
              and any(isinstance(st_, ast.For) and norm(st_.iter) == 'self._ports' and n_ in g.loop_body_nodes(h_) for st_, h_, a_ in g.loop_nodes)]
    if copies:
      port_add = [n_ for n_ in port_add if n_ not in copies]
      for t, v, st, k in q.stores_in(f.node):
        if norm(t) == 'self._ports' and isinstance(v, ast.Name) and v.id in tgt: drops.append(q.enclosing_stmt_node(g, st))
    return g, p, mask_add, mask_dis, drops, port_add
  g, p, madd, mdis, drops, padd = effects(fg)
  iv = g.interval(lambda n: n in madd)
  ctx.ob('R-EFFECT', fg, "a deleted port's number is masked on every path", iv == (1, 1),
         "self._masks.add on every path" if iv == (1, 1) else "mask count over paths %s: on some path the number is not masked, so the port reappears through the originally reported ports" % (iv,), fg, 'D1')
  if madd:
    c = [c for c in q.node_calls(madd[0]) if call_name(c) == 'add'][0]
    a0 = c.args[0]
    if isinstance(a0, ast.Name) and q.single_def(fg.node, a0.id) is not None: a0 = q.single_def(fg.node, a0.id)
    ctx.ob('R-AGREE', fg, "the masked number is the deleted port's", norm(a0) == p + '.port_no', norm(c), fg, 'D1')
  iv = g.interval(lambda n: n in drops)
  ctx.ob('R-EFFECT', fg, "a deleted port's local copy is dropped on every path", iv == (1, 1),
         "drop on every path" if iv == (1, 1) else "drop count over paths %s: a modified-then-deleted port stays visible" % (iv,), fg, 'D1')
  ctx.ob('R-EFFECT', fg, "deleting never adds or unmasks", not padd and not mdis, "no add / discard" if not padd and not mdis else "unexpected add/unmask in _forget", fg, 'D1')
  g, p, madd, mdis, drops, padd = effects(up)
  iv = g.interval(lambda n: n in mdis)
  ctx.ob('R-EFFECT', up, "an added/modified port is unmasked on every path", iv == (1, 1),
         "self._masks.discard on every path" if iv == (1, 1) else "unmask count %s: a port deleted and re-added stays hidden" % (iv,), up, 'D1')
  iv = g.interval(lambda n: n in padd)
  ctx.ob('R-EFFECT', up, "the reported port is stored on every path", iv == (1, 1), "self._ports.add count %s" % (iv,), up, 'D1')
  iv = g.interval(lambda n: n in drops)
  ctx.ob('R-EFFECT', up, "the previous description of the same port number is dropped on every path", iv == (1, 1),
         "drop count %s" % (iv,) if iv == (1, 1) else "drop count %s: two descriptions of one port number coexist after a modify" % (iv,), up, 'D1')
  if drops and padd:
    ctx.ob('R-ORDER', up, "old description dropped before the new one is stored", g.dominates(drops[0], padd[0]) , "drop dominates add" if g.dominates(drops[0], padd[0]) else "the new description is added before same-numbered ports are dropped: it is dropped too", up, 'D1')
    c = [c for c in q.node_calls(padd[0]) if call_name(c) == 'add'][0]
    ctx.ob('R-AGREE', up, "the stored description is the reported one", norm(c.args[0]) == p, norm(c), up, 'D1')
  ctx.ob('R-EFFECT', up, "updating never masks", not madd, "no mask add" if not madd else "unexpected mask in _update", up, 'D1')
  cl = [norm(c.func.value) for c in calls_in(rs.node) if call_name(c) == 'clear'] + [norm(t) for t, v, st, k in q.stores_in(rs.node) if isinstance(v, ast.Call) and call_name(v) == 'set' and not v.args]
  ctx.ob('R-EFFECT', rs, "reset forgets both local ports and masks", set(cl) >= {'self._ports', 'self._masks'}, "clears %s" % sorted(cl), rs, 'D1')

  # ---- D1 queries -------------------------------------------------------------
  gi = M('__getitem__'); ctx.analysed(gi)
  g = q.cfg_of(gi)
  for r in q.returns_of(gi.node):
    rn = q.enclosing_stmt_node(g, r)
    fs = q.fact_strs(g, rn)
    if 'self._chain:truthy' in fs:
      good = any('not in self._masks' in f for f in fs)
      ctx.ob('R-DOM', gi, "a port found through the original set is returned only if its number is not masked", good,
             "guarded by `port_no not in self._masks`" if good else "chained result returned without consulting the masks (facts %s): deleted ports are still found" % fs, (mod, r), 'D1')
  # by evaluation, for both kinds of key: the original set knows port 2 as 'eth1', port 2 was deleted (masked), nothing local
  for key, kd in ((2, "number"), ('eth1', "name")):
    is_chain_get = lambda e: isinstance(e, ast.Subscript) and norm(e.value) == 'self._chain' and isinstance(e.ctx, ast.Load)
    is_chain_call = lambda e: isinstance(e, ast.Call) and isinstance(e.func, ast.Attribute) and norm(e.func.value) == 'self._chain'
    env = q.Env({gi.params[1]: key, 'self._ports': [], 'self._masks': {2}, 'self._chain': '<original>'}, [(is_chain_get, q.Rec(port_no=2, name='eth1')), (is_chain_call, q.Rec(port_no=2, name='eth1'))])
    ends_ = [n for n in g.nodes if n.kind in ('return', 'raise_stmt')]
    kinds = set()
    for p_, e_ in q.paths_under(repo, mod, g, env, g.entry, ends_, pc, limit=60): kinds.add(p_[-1].kind)
    if not kinds:
      ctx.undecided('R-DOM', gi, "a deleted port is not found by %s" % kd, "lookup not evaluable", gi, 'D1')
    else:
      ctx.ob('R-DOM', gi, "a deleted port is not found by %s" % kd, kinds == {'raise_stmt'}, "lookup of masked port 2 by %s raises" % kd if kinds == {'raise_stmt'} else
             "port 2 ('eth1') of the original set was deleted, yet looking it up by %s (%r) can end in a return: the mask is compared with the key instead of the found port's number, so a deleted port stays reachable under its %s" % (kd, key, kd), gi, 'D1')
  # by evaluation: the original set knows port 1 as 'eth1'; a port-status MODIFY (or DELETE + ADD) stored port 1 locally as 'eth9',
  # nothing is masked.  The old name must no longer resolve (membership of the view = the notified ports), the new one must
  is_chain_get = lambda e: isinstance(e, ast.Subscript) and norm(e.value) == 'self._chain' and isinstance(e.ctx, ast.Load)
  is_chain_call = lambda e: isinstance(e, ast.Call) and isinstance(e.func, ast.Attribute) and norm(e.func.value) == 'self._chain'
  def lookup (key):
    env = q.Env({gi.params[1]: key, 'self._ports': [q.Rec(port_no=1, name='eth9', hw_addr='<mac9>')], 'self._masks': set(), 'self._chain': '<original>'},
                [(is_chain_get, q.Rec(port_no=1, name='eth1', hw_addr='<mac1>')), (is_chain_call, q.Rec(port_no=1, name='eth1', hw_addr='<mac1>'))])
    kinds = set()
    for p_, e_ in q.paths_under(repo, mod, g, env, g.entry, [n for n in g.nodes if n.kind in ('return', 'raise_stmt')], pc, limit=60): kinds.add(p_[-1].kind)
    return kinds
  old_, new_ = lookup('eth1'), lookup('eth9')
  if not old_ or not new_:
    ctx.undecided('R-DOM', gi, "the former name of a modified port is not found", "lookup not evaluable on the sample view", gi, 'D1')
  else:
    good = old_ == {'raise_stmt'} and 'return' in new_  # (the key's being an EthAddr is left open: that branch finds nothing)
    ctx.ob('R-DOM', gi, "the former name of a modified port is not found", good, "'eth1' raises, 'eth9' is found" if good else
           "port 1 was reported as 'eth1' and later modified (or deleted and re-added) as 'eth9': looking up 'eth1' ends in %s and 'eth9' in %s - the outdated original is still a member of the view under its old name"
           % (sorted(old_), sorted(new_)), gi, 'D1')
  ends = [n for n in g.nodes if n.kind == 'raise_stmt']
  falls = g.exit in g.reachable(g.entry, avoid=[n for n in g.nodes if n.kind in ('return', 'raise_stmt')], exc=False)
  ctx.ob('R-EFFECT', gi, "a missing key raises instead of yielding None", bool(ends) and not falls, "falls through to raise IndexError" if not falls else "lookup can fall off the end and return None: membership tests succeed for absent ports", gi, 'D1')
  ks = M('keys'); ctx.analysed(ks)
  txt = [norm(c) for c in calls_in(ks.node)]
  g = q.cfg_of(ks)
  # decided by evaluation: originally reported {1,2,3}, number 2 masked, own set holds port 4 -> {1,3,4}; no chain -> {4}
  chk = (lambda e: isinstance(e, ast.Call) and call_name(e) == 'keys' and '_chain' in norm(e.func.value))
  def keys_under (chain):
    env = q.Env({'self._chain': '<chain>' if chain else None, 'self._masks': {2}, 'self._ports': [q.Rec(port_no=4)]}, [(chk, [1, 2, 3])])
    out = set()
    for p_, e_ in q.paths_under(repo, mod, g, env, g.entry, [n for n in g.nodes if n.kind == 'return'], pc, limit=50):
      rn_ = p_[-1]
      try: v_ = q.eval_env2(repo, mod, rn_.ast.value, e_, pc)
      except Exception: v_ = '?'
      try: out.add(tuple(sorted(v_, key=str)))
      except Exception: out.add('?')
    return out
  k1, k0 = keys_under(True), keys_under(False)
  from .. import caches
  caches.check(ctx, repo, [pc], 'D1', "the port view (keys, length, iteration, membership) no longer equals the reported ports with the notifications applied")
  if '?' in k1 or '?' in k0 or not k1 or not k0 or any('?' in x_ for x_ in k1 | k0 if isinstance(x_, tuple)):
    ctx.undecided('R-AGREE', ks, "keys = originally reported numbers minus masked ones plus own", "keys() could not be evaluated on the sample collection (%s)" % txt[:4], ks, 'D1')
  else:
    good = k1 == {(1, 3, 4)} and k0 == {(4,)}
    ctx.ob('R-AGREE', ks, "keys = originally reported numbers minus masked ones plus own", good, "{1,2,3} - {2} + {4} -> {1,3,4}" if good else
           "with originally reported ports 1,2,3, port 2 deleted and port 4 added, keys() yields %s (and %s without a chain): expected [1, 3, 4] / [4]" % (sorted(k1, key=str), sorted(k0, key=str)), ks, 'D1')
  # order of the two steps, by evaluation: a number that is both masked and re-added as an own port is a key
  def keys_readded ():
    env = q.Env({'self._chain': '<chain>', 'self._masks': {2}, 'self._ports': [q.Rec(port_no=2)]}, [(chk, [1, 2, 3])])
    out = set()
    for p_, e_ in q.paths_under(repo, mod, g, env, g.entry, [n for n in g.nodes if n.kind == 'return'], pc, limit=50):
      try: out.add(tuple(sorted(q.eval_env2(repo, mod, p_[-1].ast.value, e_, pc))))
      except Exception: out.add('?')
    return out
  k2 = keys_readded()
  if k2 and '?' not in k2:
    ctx.ob('R-ORDER', ks, "masks are applied before the own ports are merged in", k2 == {(1, 2, 3)}, "a masked number that was re-added as an own port is listed" if k2 == {(1, 2, 3)} else
           "with port 2 masked and then re-added as an own port, keys() yields %s: the mask hides the collection's own port" % sorted(k2), ks, 'D1')
  for name, must in (('__len__', 'self.keys()'), ('__iter__', 'self.keys()'), ('values', 'self.keys()'), ('items', 'self.keys()'), ('__contains__', 'self[')):
    f = pc.methods.get(name)
    if f is None: ctx.undecided('R-AGREE', pc.qual, "view %s" % name, "method missing", pc, 'D1'); continue
    ctx.analysed(f)
    src = norm(f.node)
    direct = [a for a in ('_ports', '_masks', '_chain') if q.mentions_attr(f.node, a)]
    ctx.ob('R-AGREE', f, "%s derives from keys()/__getitem__ only" % name, must in src and not direct,
           "single source" if (must in src and not direct) else "%s reads %s directly: it can disagree with keys()/__getitem__ about masked or replaced ports" % (name, direct or 'other state'), f, 'D1')
  for name in ('keys', 'values', 'items', 'get', 'copy', '__len__', '__iter__', '__getitem__', '__contains__', 'has_key'):
    f = pc.methods.get(name)
    if f is None: continue
    g = q.cfg_of(f)
    stops = [n for n in g.nodes if n.kind in ('return', 'raise_stmt')]
    falls = g.exit in g.reachable(g.entry, avoid=stops, exc=False)
    ctx.ob('R-EFFECT', f, "%s yields a value on every path" % name, not falls, "every path returns or raises" if not falls else
           "%s can fall off the end and return None" % name, f, 'D1')

  # ---- D2 ownership --------------------------------------------------------------
  writers = []
  for m in repo.modules.values():
    if 'original_ports' not in m.src and '_forget' not in m.src and '_update' not in m.src: continue
    funcs = [f for c in m.classes.values() for f in c.methods.values()] + list(m.funcs.values())
    for f in funcs:
      for t, v, st, k in q.stores_in(f.node):
        if isinstance(t, ast.Attribute) and t.attr == '_ports' and q.mentions_attr(t.value, 'original_ports'):
          writers.append(f)
          good = f.name == 'handle_FEATURES_REPLY'
          ctx.ob('R-OWN', f, "originally reported ports are written only by a features-reply handler", good, "features handler" if good else
                 "%s overwrites the originally reported port set" % f.qual, (m, st), 'D2')
          ctx.ob('R-AGREE', f, "original set is the features reply's port list", norm(v) == 'set(%s.ports)' % f.params[-1], norm(st), (m, st), 'D2')
      for c in calls_in(f.node, nested=True):
        if call_name(c) in ('_forget', '_update', '_reset') and isinstance(c.func, ast.Attribute) and norm(c.func.value).endswith('.ports'):
          good = f.name in ('handle_PORT_STATUS', 'handle_FEATURES_REPLY')
          ctx.ob('R-OWN', f, "live port view changed only by port-status / features handling (`%s`)" % norm(c)[:40], good, "handler" if good else "%s changes a connection's port view" % f.qual, (m, c), 'D2')
  ctx.floor('features handlers writing the original set', len(writers), 2)
  dh = repo.cls(OF, 'DefaultOpenFlowHandlers')
  ps = dh.methods.get('handle_PORT_STATUS')
  if ps is None: raise AnalysisError("DefaultOpenFlowHandlers.handle_PORT_STATUS vanished")
  ctx.analysed(ps)
  g = q.cfg_of(ps); msg = ps.params[-1]
  fgc = g.nodes_with_call(lambda c: call_name(c) == '_forget'); upc = g.nodes_with_call(lambda c: call_name(c) == '_update')
  delv = repo.try_const(mod, ast.parse('of.OFPPR_DELETE', mode='eval').body)
  for reason, rv in (('OFPPR_ADD', 0), ('OFPPR_DELETE', 1), ('OFPPR_MODIFY', 2)):
    r = q.reach_under(repo, mod, g, q.Env({msg + '.reason': rv}), None)
    f_ok = [n for n in fgc if n in r]; u_ok = [n for n in upc if n in r]
    want_forget = reason == 'OFPPR_DELETE'
    good = (bool(f_ok) and not u_ok) if want_forget else (bool(u_ok) and not f_ok)
    if not fgc and not upc: good = None        # neither call is written as a call site in the handler (the method is chosen as a value first): dispatch form not recognised
    ctx.ob('R-DOM', ps, "port-status %s -> %s" % (reason, '_forget' if want_forget else '_update'), good,
           "dispatch correct" if good else "with reason %s the handler reaches forget=%s update=%s" % (reason, bool(f_ok), bool(u_ok)), ps, 'D2')
  for n in fgc + upc:
    c = [c for c in q.node_calls(n) if call_name(c) in ('_forget', '_update')][0]
    ctx.ob('R-AGREE', ps, "`%s` applies the notification's port description" % norm(c)[:40], norm(c.args[0]) == msg + '.desc', norm(c), ps, 'D2')
  evs = g.nodes_with_call(lambda c: call_name(c) == 'raiseEventNoErrors')
  if evs and (fgc or upc):
    ctx.ob('R-ORDER', ps, "the port view is updated before listeners are told", all(g.dominates(fgc + upc, e) for e in evs), "update dominates the PortStatus event", ps, 'D2')
  for cls_name in ('DefaultOpenFlowHandlers', 'HandshakeOpenFlowHandlers'):
    f = repo.cls(OF, cls_name).methods.get('handle_FEATURES_REPLY')
    if f is None: continue
    ctx.analysed(f)
    g = q.cfg_of(f)
    st = [q.enclosing_stmt_node(g, s_) for t, v, s_, k in q.stores_in(f.node) if isinstance(t, ast.Attribute) and t.attr == '_ports']
    rsn = g.nodes_with_call(lambda c: call_name(c) == '_reset')
    good = bool(st) and bool(rsn) and g.dominates(st[0], rsn[0]) or (bool(st) and bool(rsn) and g.dominates(rsn[0], st[0]))
    ctx.ob('R-EFFECT', f, "a features reply replaces the original set and resets the deltas together", good and g.interval(lambda n: n in rsn, start=st[0]) == (1, 1) if st and rsn else False,
           "store + _reset on the same paths", f, 'D2')

  # notifications that precede the features reply describe a port set the reply supersedes: nothing is buffered before the
  # reply (the buffer attribute starts as None) and the buffer is opened by the handshake's features-reply handler
  ci_ = con.methods.get('__init__')
  if ci_ is not None:
    for t, v, st, k in q.stores_in(ci_.node):
      if isinstance(t, ast.Attribute) and t.attr == '_deferred_port_status' and norm(t.value) == 'self':
        good = isinstance(v, ast.Constant) and v.value is None
        ctx.ob('R-AGREE', ci_, "no port-status buffering before the features reply", good, "starts as None" if good else
               "a new connection starts with `%s`: a PORT_STATUS that arrives before the features reply is buffered and, once the connection is up, replayed on top of the port set the reply reported - "
               "stale deletes hide reported ports, stale adds introduce unreported ones" % norm(st), (mod, st), 'D2')
  hsc = repo.cls(OF, 'HandshakeOpenFlowHandlers') if 'OF' in globals() else None
  hfr = hsc.methods.get('handle_FEATURES_REPLY') if hsc is not None else None
  if hfr is not None:
    opens = [st for t, v, st, k in q.stores_in(hfr.node) if isinstance(t, ast.Attribute) and t.attr == '_deferred_port_status' and isinstance(v, ast.List) and not v.elts]
    ctx.ob('R-EFFECT', hfr, "the features reply opens the port-status buffer", bool(opens), norm(opens[0]) if opens else
           "the handshake's features-reply handler no longer starts the buffer: port status received during the rest of the handshake is lost (or an older buffer is kept)", hfr, 'D2')
  # while the buffer is open every notification is kept - a repeated (equal) one too: add / delete / add of the same port is three
  # notifications, and dropping the third because it equals the first loses the port.  By evaluation on a sample buffer
  early_port_status_kept(ctx, repo, hsc, 'D2')
  # ---- D3 reassembly ----------------------------------------------------------------
  isr = q.find_method(repo, con, '_incoming_stats_reply', 'C17'); ctx.analysed(isr)
  # the parts collected so far belong to the reassembly alone: nothing else that runs while the connection is live (a handler
  # of some other message) may drop or replace them - the aggregated event would then carry only the later parts
  n_w = 0
  for cls_ in mod.classes.values():
    for f_ in cls_.methods.values():
      if f_ is isr or f_.name == '__init__': continue
      for t, v, st, k in q.stores_in(f_.node):
        hit = isinstance(t, ast.Attribute) and t.attr == '_previous_stats'
        if not hit and isinstance(t, ast.Subscript) and isinstance(t.value, ast.Attribute) and t.value.attr == '_previous_stats': hit = True
        if not hit: continue
        n_w += 1
        live = f_.name.startswith('handle_') or f_.name.startswith('_handle_') or f_.name in ('read', 'send')
        ctx.ob('R-OWN', f_, "only the reassembly writes the list of collected parts (`%s`)" % norm(st)[:40], False if live else None,
               "%s, which runs for messages that arrive between the parts of a multi-part reply, replaces `_previous_stats` (`%s`): the parts received so far are thrown away and the aggregated event "
               "fires with the later entries only" % (f_.qual, norm(st)[:50]) if live else "written in %s" % f_.qual, (mod, st), 'D3')
      for c_ in calls_in(f_.node):
        if isinstance(c_.func, ast.Attribute) and c_.func.attr in ('clear', 'pop', 'remove', 'append', 'extend', 'insert') and isinstance(c_.func.value, ast.Attribute) and c_.func.value.attr == '_previous_stats':
          n_w += 1
          ctx.ob('R-OWN', f_, "only the reassembly writes the list of collected parts (`%s`)" % norm(c_)[:40], False if (f_.name.startswith('handle_') or f_.name.startswith('_handle_')) else None,
                 "%s changes `_previous_stats` in place (`%s`) while a multi-part reply may be in progress" % (f_.qual, norm(c_)[:50]), (mod, c_), 'D3')
  ctx.stat('writers of the part list outside the reassembly', n_w)
  g = q.cfg_of(isr); ofp = isr.params[1]
  PS = 'self._previous_stats'
  appends = g.nodes_with_call(lambda c: call_name(c) == 'append' and norm(c.func.value) == PS)
  extends = g.nodes_with_call(lambda c: call_name(c) in ('extend', 'insert') and norm(c.func.value) == PS)
  repl = []; clears = []
  # "nothing in progress" is the value the constructor gives the attribute: the empty list, or None
  ini_ = con.methods.get('__init__')
  ini_v = [v for t, v, st, k in q.stores_in(ini_.node) if norm(t) == PS] if ini_ is not None else []
  IDLE_NONE = bool(ini_v) and all(isinstance(v, ast.Constant) and v.value is None for v in ini_v)
  IDLE = None if IDLE_NONE else []
  for t, v, st, k in q.stores_in(isr.node):
    if norm(t) == PS:
      n = q.enclosing_stmt_node(g, st)
      if isinstance(v, ast.List) and len(v.elts) == 1 and norm(v.elts[0]) == ofp: repl.append(n)
      elif (isinstance(v, ast.List) and not v.elts and not IDLE_NONE) or (IDLE_NONE and isinstance(v, ast.Constant) and v.value is None): clears.append(n)
      elif isinstance(v, ast.Name): pass        # a local that was worked on first: what it holds is decided by value below (`after`)
      else: ctx.bad('R-EFFECT', isr, "pending-parts store `%s`" % norm(st), "the pending part list is set to something other than [] or [%s]" % ofp, (mod, st), 'D3')
  hcalls = g.nodes_with_call(lambda c: isinstance(c.func, ast.Name) and c.func.id == 'handler')
  ctx.floor('reassembly sites (append, replace, clear, handler)', len(appends) + len(repl) + len(clears) + len(hcalls), 3)
  for x in extends:
    ctx.bad('R-EFFECT', isr, "pending parts grow only by appending the new part", "`%s`" % x.text(50), (mod, x.ast), 'D3')
  # the clear that happens right before the handler is part of the last-reply branch; locate the branch point after the bookkeeping
  nonempty = lambda e: isinstance(e, ast.Compare) and 'len(%s)' % PS in norm(e.left) and norm(e.comparators[0]) == '0'
  def env (xid_eq, type_eq, pending, last):
    ms = _eqm('xid', xid_eq) + _eqm('type', type_eq)
    ms.append((lambda e: isinstance(e, ast.Compare) and norm(e.left) == 'len(%s)' % PS and isinstance(e.ops[0], ast.NotEq), pending))
    ms.append((lambda e: isinstance(e, ast.Compare) and norm(e.left) == 'len(%s)' % PS and isinstance(e.ops[0], (ast.Eq,)), not pending))
    ms.append((lambda e: isinstance(e, ast.Compare) and norm(e.left) == 'len(%s)' % PS and isinstance(e.ops[0], (ast.Gt,)), pending))
    ex = {ofp + '.is_last_reply': last, PS: ['<part>'] if pending else IDLE}
    ms.append((lambda e: isinstance(e, ast.Compare) and norm(e.left) == PS and isinstance(e.ops[0], ast.IsNot) and norm(e.comparators[0]) == 'None', pending))
    ms.append((lambda e: isinstance(e, ast.Compare) and norm(e.left) == PS and isinstance(e.ops[0], ast.Is) and norm(e.comparators[0]) == 'None', not pending))
    ms.append((lambda e: isinstance(e, ast.Compare) and isinstance(e.ops[0], ast.NotIn) and norm(e.left) == ofp + '.type', False))
    ms.append((lambda e: isinstance(e, ast.Compare) and isinstance(e.ops[0], ast.In) and norm(e.left) == ofp + '.type', True))
    return q.Env(ex, ms)
  n_dec = 0
  # by value: P0 (xid 7, flow stats) is pending; a further, non-final part arrives.  What does the pending list hold afterwards?
  T_FLOW = repo.try_const(mod, ast.parse('of.OFPST_FLOW', mode='eval').body, con, default=1)
  T_PORT = 4
  def after (xid_eq, type_eq, pending, last):
    P0 = q.Rec(name='P0', xid=7, type=T_FLOW if type_eq else T_PORT, is_last_reply=False)
    NEWP = q.Rec(name='NEW', xid=7 if xid_eq else 8, type=T_FLOW, is_last_reply=last)
    ex = {ofp: NEWP, PS: [P0] if pending else IDLE}
    outs = set()
    for p_, e_ in q.paths_under(repo, mod, g, q.Env(ex, []), g.entry, [g.exit], con, limit=80):
      v_ = e_.exact.get(PS, '?')
      outs.add(tuple(x['name'] if isinstance(x, q.Rec) else '?' for x in v_) if isinstance(v_, list) else '?')
    return outs
  for xe in (True, False):
    for te in (True, False):
      cont = xe and te
      got = after(xe, te, True, False)
      n_dec += 1
      want = {('P0', 'NEW')} if cont else {('NEW',)}
      if not got or any('?' in x or x == '?' for x in got):
        ctx.undecided('R-DOM', isr, "pending sequence + part with %s xid and %s type -> %s" % ('same' if xe else 'different', 'same' if te else 'different', 'appended' if cont else 'starts a new sequence'), "pending list after the part not evaluable (%s)" % sorted(map(str, got)), isr, 'D3'); continue
      good = got == want
      ctx.ob('R-DOM', isr, "pending sequence + part with %s xid and %s type -> %s" % ('same' if xe else 'different', 'same' if te else 'different', 'appended' if cont else 'starts a new sequence'), good,
             "pending list becomes %s" % sorted(want) if good else ("a part belonging to a different request (%s) is appended to the pending parts: entries of two requests are merged into one event (pending list becomes %s)" % ("xid differs" if not xe else "type differs", sorted(got)) if not cont and any(len(x) > 1 for x in got) else
             "pending list becomes %s, expected %s" % (sorted(got), sorted(want))), isr, 'D3')
  got0 = after(True, True, False, False)
  if got0 and not any('?' in x or x == '?' for x in got0):
    ctx.ob('R-DOM', isr, "with nothing pending the part starts a new sequence", got0 == {('NEW',)}, "pending list becomes [part]" if got0 == {('NEW',)} else "with an empty pending list the part leaves %s" % sorted(got0), isr, 'D3')
  else:
    ctx.undecided('R-DOM', isr, "with nothing pending the part starts a new sequence", "not evaluable", isr, 'D3')
  # the pending list belongs to one connection: a mutable kept at class level and changed in place through self is shared by
  # every connection (parts of different switches' replies would be merged)
  for cls_ in (con, pc):
    init_ = cls_.methods.get('__init__')
    inst = set(t.attr for t, v, st, k in q.stores_in(init_.node) if isinstance(t, ast.Attribute) and norm(t.value) == 'self') if init_ is not None else set()
    for stc in cls_.node.body:
      if not (isinstance(stc, ast.Assign) and len(stc.targets) == 1 and isinstance(stc.targets[0], ast.Name)): continue
      v = stc.value
      mutable = isinstance(v, (ast.List, ast.Dict, ast.Set)) or (isinstance(v, ast.Call) and isinstance(v.func, ast.Name) and v.func.id in ('list', 'dict', 'set', 'deque', 'defaultdict'))
      if not mutable: continue
      nm_ = stc.targets[0].id
      if nm_ in inst: continue
      muts = [(f_, k_, s_) for f_ in cls_.methods.values() for k_, s_ in q.mutations_of_attr(f_.node, nm_) if k_.startswith('call:') or k_ in ('setitem', 'delitem', 'augassign')]
      if muts:
        f_, k_, s_ = muts[0]
        ctx.bad('R-OWN', cls_, "per-connection state `%s` is created per instance" % nm_,
                "`%s = %s` is a class attribute and __init__ does not give the instance its own; %s changes it in place (%s): every %s shares one object - multipart replies of different switches are appended to the same list" % (nm_, norm(v), f_.name, k_, cls_.name), (mod, stc), 'D3')
  # handler only for the last part
  r = q.reach_under_cp(repo, mod, g, env(True, True, True, False), con)
  ctx.ob('R-DOM', isr, "no aggregate event before the final part", not any(h in r for h in hcalls), "handler unreachable when more parts follow" if not any(h in r for h in hcalls) else "the aggregate handler runs for a non-final part", isr, 'D3')
  r = q.reach_under_cp(repo, mod, g, env(True, True, True, True), con)
  ctx.ob('R-DOM', isr, "the final part triggers the aggregate event", any(h in r for h in hcalls), "handler reachable", isr, 'D3')
  iv = g.interval(lambda n: n in hcalls)
  ctx.ob('R-EFFECT', isr, "at most one aggregate event per part", iv is not None and iv[1] <= 1, "handler call count %s" % (iv,), isr, 'D3')
  # by value: P0 pending, the final part NEW arrives -> the handler gets [P0, NEW] and, at that moment, the pending list is already empty
  def final_call ():
    P0 = q.Rec(name='P0', xid=7, type=T_FLOW, is_last_reply=False); NEWP = q.Rec(name='NEW', xid=7, type=T_FLOW, is_last_reply=True)
    seen = []
    def hook (call, env=None):
      if call_name(call) == 'get' and 'statsHandlerMap' in norm(call.func.value): return (True, 'H')
      return (False, None)
    def on_node (n, e):
      for c in q.node_calls(n):
        if isinstance(c.func, ast.Name) and c.func.id == 'handler' and len(c.args) > 1:
          try: lst = q.eval_env2(repo, mod, c.args[1], e, con); seen.append((tuple(x['name'] if isinstance(x, q.Rec) else '?' for x in lst), tuple(e.exact.get(PS, ('?',)) or ())))
          except Exception: seen.append('?')
    q.paths_under(repo, mod, g, q.Env({ofp: NEWP, PS: [P0]}, [((lambda e: isinstance(e, ast.Subscript) and 'statsHandlerMap' in norm(e.value)), 'H')], hook), g.entry, [g.exit], con, limit=80, on_node=on_node)
    return seen
  fc = final_call()
  if fc and '?' not in fc:
    good = all(args == ('P0', 'NEW') for args, pend in fc)
    ctx.ob('R-AGREE', isr, "the handler receives the parts saved before the reset", good, "handler(self, [P0, NEW])" if good else "with P0 pending and the final part NEW the handler is called with %s" % [a_ for a_, p_ in fc], isr, 'D3')
    good = all(pend == () for args, pend in fc)
    ctx.ob('R-ORDER', isr, "pending parts are reset before the aggregate handler runs", good, "pending list is empty when the handler is called" if good else
           "the handler is called with the pending list still set: a handler that triggers another reply sees stale parts / parts are delivered twice", isr, 'D3')
  else:
    ctx.undecided('R-AGREE', isr, "the handler receives the parts saved before the reset", "handler call not evaluable on the sample (%s)" % fc[:2], isr, 'D3')
  hm = q.single_def(isr.node, 'handler')
  good = hm is not None and 'statsHandlerMap' in norm(hm) and '[0].type' in norm(hm)
  ctx.ob('R-AGREE', isr, "aggregate handler chosen by the sequence's stats type", good, norm(hm) if hm is not None else "?", isr, 'D3')
  for nm, node, path in defs.use_before_def(isr):
    ctx.bad('R-DEF', isr, "local `%s` used before assignment" % nm, "feasible path %s" % path, (mod, node), 'D3')
  for nm, node in defs.undefined_names(repo, isr):
    ctx.bad('R-DEF', isr, "undefined name `%s`" % nm, "NameError on this path: the pending parts are left in a wrong state", (mod, node), 'D3')
  # attributes read on self must exist somewhere in Connection
  fields, open_ = defs.class_fields(repo, con)
  for n in walk_no_nested(isr.node):
    if isinstance(n, ast.Attribute) and isinstance(n.value, ast.Name) and n.value.id == 'self' and isinstance(n.ctx, ast.Load):
      ok_ = n.attr in fields
      ctx.ob('R-DEF', isr, "attribute self.%s exists" % n.attr, ok_, "defined in Connection" if ok_ else
             "no method of Connection (or its bases) ever assigns self.%s: AttributeError on this path, before the pending parts are updated" % n.attr, (mod, n), 'D3')
  # indexing the pending list after it was cleared
  for n in walk_no_nested(isr.node):
    if isinstance(n, ast.Subscript) and norm(n.value) == PS and isinstance(n.ctx, ast.Load):
      cn = q.enclosing_stmt_node(g, n)
      stale = [c for c in clears if cn in g.reachable(c) and not any(rp in g.reachable(c) and cn in g.reachable(rp) for rp in repl + appends)]
      ctx.ob('R-DEF', isr, "`%s` is read only while the list is non-empty (line %s)" % (norm(n), n.lineno), not stale, "no clear on the way" if not stale else
             "the pending list is indexed after it was reset to [] (line %s): IndexError" % stale[0].line, (mod, n), 'D3')
  # statsHandlerMap and aggregate handlers
  shm = mod.assigns.get('statsHandlerMap')
  keys = [norm(k) for k in shm.keys] if isinstance(shm, ast.Dict) else []
  ctx.floor('aggregate handlers', len(keys), 6)
  if isinstance(shm, ast.Dict):
    for k, v in zip(shm.keys, shm.values):
      kname = norm(k).split('.')[-1]; f = mod.funcs.get(norm(v))
      good = f is not None and norm(v) == 'handle_' + kname
      ctx.ob('R-REG', mod.short + ':statsHandlerMap', "%s aggregated by its own handler" % kname, good, norm(v), (mod, k), 'D3')
      if f is None: continue
      ctx.analysed(f)
      fg_ = q.cfg_of(f); parts = f.params[1]
      loops = [(s_, h, a) for (s_, h, a) in fg_.loop_nodes if isinstance(s_, ast.For)]
      # the raise may sit in a helper of the event class (`SomeStatsEvent._raise_on(con, ofp, stats)`, a classmethod of another module):
      # effective raises = direct ones + helper calls, with the helper's receiver / data parameters mapped back to the caller's arguments
      eff = []          # (node in this handler, receiver text, data expression in this handler, max raises on the receiver per call)
      for n_ in fg_.nodes:
        for c in q.node_calls(n_):
          if call_name(c) in ('raiseEventNoErrors', 'raiseEvent') and len(c.args) >= 4 and isinstance(c.func, ast.Attribute):
            eff.append((n_, norm(c.func.value), c.args[3], 1))
          elif isinstance(c.func, ast.Name) and not c.keywords and not any(isinstance(a_, ast.Starred) for a_ in c.args):
            # a plain helper function (possibly imported from another module of the package) that raises on what it is given:
            # `helper(con, Event, *args)` whose body calls `con.raiseEventNoErrors(Event, *args)`
            from ..model import Func as _Func
            m_ = mod.lookup(c.func.id)
            if not isinstance(m_, _Func) or m_.cls is not None: continue
            pos_ = [a_.arg for a_ in m_.node.args.args]; va_ = m_.node.args.vararg.arg if m_.node.args.vararg else None
            if len(c.args) < len(pos_) or (len(c.args) > len(pos_) and va_ is None): continue
            actual = dict(zip(pos_, c.args)); rest_ = list(c.args[len(pos_):]); gm_ = q.cfg_of(m_)
            for c2 in calls_in(m_.node):
              if call_name(c2) in ('raiseEventNoErrors', 'raiseEvent') and isinstance(c2.func, ast.Attribute) and isinstance(c2.func.value, ast.Name) and c2.func.value.id in actual:
                full_ = []
                for a_ in c2.args:
                  if isinstance(a_, ast.Starred) and isinstance(a_.value, ast.Name) and a_.value.id == va_: full_ += rest_
                  elif isinstance(a_, ast.Name) and a_.id in actual: full_.append(actual[a_.id])
                  else: full_.append(None)
                if len(full_) >= 4 and full_[3] is not None:
                  iv2 = gm_.interval(lambda x_, c2=c2: any(y_ is c2 for y_ in q.node_calls(x_)))
                  eff.append((n_, norm(actual[c2.func.value.id]), full_[3], iv2[1] if iv2 else 9))
                  ctx.analysed(m_)
          elif isinstance(c.func, ast.Attribute) and isinstance(c.func.value, ast.Name) and not c.keywords:
            K_ = mod.lookup(c.func.value.id)
            m_ = K_.find_method(c.func.attr) if hasattr(K_, 'find_method') else None
            if m_ is None or not m_.is_classmethod or len(m_.params) - 1 != len(c.args): continue
            actual = dict(zip(m_.params[1:], c.args)); gm_ = q.cfg_of(m_)
            for c2 in calls_in(m_.node):
              if call_name(c2) in ('raiseEventNoErrors', 'raiseEvent') and len(c2.args) >= 4 and isinstance(c2.func, ast.Attribute) and isinstance(c2.func.value, ast.Name) and c2.func.value.id in actual \
                 and isinstance(c2.args[3], ast.Name) and c2.args[3].id in actual:
                iv2 = gm_.interval(lambda x_, c2=c2: any(y_ is c2 for y_ in q.node_calls(x_)))
                eff.append((n_, norm(actual[c2.func.value.id]), actual[c2.args[3].id], iv2[1] if iv2 else 9))
                ctx.analysed(m_)
      if kname in ('OFPST_FLOW', 'OFPST_TABLE', 'OFPST_PORT', 'OFPST_QUEUE'):
        # decided by evaluation: with parts whose bodies are [a, b] and [c] the list handed to the event is [a, b, c]
        # (and [a, b] for a single part), whatever loop / comprehension / fast path builds it
        raises = eff
        verdicts = []; unknown_ = False
        for sample, want in (([q.Rec(body=['a', 'b']), q.Rec(body=['c'])], ['a', 'b', 'c']), ([q.Rec(body=['a', 'b'])], ['a', 'b']), ([q.Rec(body=[]), q.Rec(body=['z'])], ['z'])):
          for rn, recv_, dexpr_, mx_ in raises:
            vals = set()
            for p_, e_ in q.paths_under(repo, mod, fg_, q.Env({parts: sample}, [], q.PureCallHook(repo, mod)), fg_.entry, [rn], None, limit=50):
              try: v_ = q.eval_env2(repo, mod, dexpr_, e_, None)
              except Exception: v_ = '?'; unknown_ = True
              if v_ is q.OPAQUE: unknown_ = True
              vals.add(repr(v_))
            verdicts.append(vals == {repr(want)})
        good = bool(verdicts) and all(verdicts)
        if not good and unknown_:
          ctx.undecided('R-ALL', f, "entries of all parts are concatenated in order", "the aggregated list could not be evaluated on the sample parts", f, 'D3'); continue
        ctx.ob('R-ALL', f, "entries of all parts are concatenated in order", good, "parts [a,b]+[c] -> [a,b,c]" if good else
               "the list handed to the aggregate event is not the in-order concatenation of every part's body (evaluated on sample parts): entries are lost, duplicated or reordered", f, 'D3')
      on_con = [(n_, mx_) for n_, recv_, d_, mx_ in eff if recv_ == f.params[0]]
      iv = fg_.interval(lambda n: sum(mx_ for n_, mx_ in on_con if n_ is n) or None)
      ctx.ob('R-EFFECT', f, "the connection's aggregate event fires at most once", iv is not None and iv[1] <= 1 and bool(on_con), "count %s" % (iv,), f, 'D3')
  sr = dh.methods.get('handle_STATS_REPLY')
  if sr is not None:
    ctx.analysed(sr)
    g2 = q.cfg_of(sr)
    iv = g2.interval(lambda n: any(call_name(c) == '_incoming_stats_reply' for c in q.node_calls(n)))
    ctx.ob('R-EFFECT', sr, "every stats reply part enters reassembly exactly once", iv == (1, 1), "count %s" % (iv,), sr, 'D3')
  # ---- mechanisms this property shares with others: their checks' rules about these functions are obligations here too
  ctx.include('C05', ['EventMixin.raiseEvent', 'EventMixin.addListener'], 'statistics and port events are delivered by revent')
  ctx.include('C01', ['_readzs', '_packzs'], "port names reach the port view through the fixed-width string codec")
  ctx.include('C09', ['_finish_connecting', 'handle_PORT_STATUS'], 'early port-status messages are replayed by the handshake')

def early_port_status_kept (ctx, repo, hsc, clause):
  hp = hsc.methods.get('handle_PORT_STATUS') if hsc is not None else None
  if hp is None or len(hp.params) < 3: return
  ctx.analysed(hp); g = q.cfg_of(hp); c_, m_ = hp.params[1], hp.params[2]
  DP = c_ + '._deferred_port_status'
  is_log = lambda e: isinstance(e, ast.Call) and call_name(e) in ('msg', 'info', 'debug', 'warn', 'warning', 'err')
  outs = []
  for buf in (['m1'], ['m1', 'm2', 'm1'], []):
    for p_, e_ in q.paths_under(repo, hsc.module, g, q.Env({DP: list(buf), m_: 'm1'}, [(is_log, None)]), g.entry, [g.exit], hsc, limit=30):
      outs.append((buf, e_.exact.get(DP, '?')))
  if not outs or any(o_ == '?' or not isinstance(o_, list) for b_, o_ in outs):
    ctx.undecided('R-EFFECT', hp, "every early port-status is buffered, in arrival order", "handler not evaluable on the sample buffers", hp, clause); return
  bad = [(b_, o_) for b_, o_ in outs if o_ != b_ + ['m1']]
  ctx.ob('R-EFFECT', hp, "every early port-status is buffered, in arrival order", not bad, "appended to 3 sample buffers (one already holding an equal message)" if not bad else
         "with %r buffered, an arriving message equal to 'm1' leaves the buffer as %r: a repeated notification (the port was added, deleted and added again during the handshake) is dropped - "
         "after connection-up the port view misses that port / keeps the outdated description" % bad[0], hp, clause)
