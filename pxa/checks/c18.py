"""C18 - packet buffers: unique, released exactly once, bounded.

Decides structural necessary conditions (DESIGN 5/C18):
 D1 R-OWN    only the allocator and the use-and-free routine write the buffer list
 D2 R-DOM    the only growth site is under `len(buffers) < max`; free slots reused
             first; ids are index+1 on both allocation paths; advertised
             n_buffers is the same bound
 D3 R-EFFECT use-once: emission is dominated by range and not-None checks on
             the same slot, the slot is cleared on every normal path after the
             emission, and only there
 D4 R-DOM    packet-in truncation only when buffered; total_len derived from
             the length before truncation
"""
import ast
from .. import q
from ..model import AnalysisError, calls_in, call_name, norm, kwarg, walk_no_nested

EXPLAIN = ("R-OWN writers of the buffer list repo-wide; R-DOM growth bounded by max_buffers and "
           "id=index+1; R-EFFECT/R-ORDER use-once (validate, emit, free); R-DOM/def-use packet-in "
           "truncation only when buffered and total_len taken before truncation; R-AGREE n_buffers. "
           "Decides these necessary conditions on all paths, not buffer behaviour over histories.")

BUF = '_packet_buffer'
SW = 'datapaths.switch'

def run (ctx):
  ctx.explanation = EXPLAIN
  ctx.assumptions = ["assert statements execute (no -O)", "no monkey-patching of SoftwareSwitchBase"]
  repo = ctx.repo
  sw = repo.cls(SW, 'SoftwareSwitchBase')
  alloc = q.find_method(repo, sw, '_buffer_packet', 'C18 allocator')
  use = q.find_method(repo, sw, '_process_actions_for_packet_from_buffer', 'C18 use-and-free')
  spi = q.find_method(repo, sw, 'send_packet_in', 'C18 packet-in')
  for f in (alloc, use, spi): ctx.analysed(f)
  # the pool attribute is whatever the allocator grows (a consistent rename of the private attribute is not a change of behaviour)
  global BUF
  grown = [c.func.value for c in calls_in(alloc.node) if call_name(c) == 'append' and isinstance(c.func, ast.Attribute)]
  names_ = set()
  for e_ in grown:
    if isinstance(e_, ast.Attribute) and norm(e_.value) == 'self': names_.add(e_.attr)
    elif isinstance(e_, ast.Name):
      for v_, st_, k_ in q.reaching_assign(alloc.node, e_.id):
        if isinstance(v_, ast.Attribute) and norm(v_.value) == 'self': names_.add(v_.attr)
  if len(names_) == 1: BUF = list(names_)[0]

  # ---- D0 what a packet-in announces is a freshly allocated buffer (or none) ------------------------------------------
  # an id looked up for a packet that is *already* stored belongs to a slot some use-and-free is about to release: announcing it hands
  # the controller an id that identifies nothing by the time it is used
  n_ann = 0
  for f_ in sw.methods.values():
    for c_ in calls_in(f_.node, nested=True):
      if call_name(c_) != 'send_packet_in' or not isinstance(c_.func, ast.Attribute): continue
      a_ = kwarg(c_, 'buffer_id', 1)
      if a_ is None: continue
      n_ann += 1
      def fresh (e_, depth=0):
        if isinstance(e_, ast.Constant) and e_.value is None: return True
        if isinstance(e_, ast.Call) and call_name(e_) == alloc.name: return True
        if isinstance(e_, ast.IfExp): return fresh(e_.body, depth) and fresh(e_.orelse, depth)
        if isinstance(e_, ast.Name) and depth < 4:
          if e_.id in f_.params and not q.reaching_assign(f_.node, e_.id): return True          # handed in by the caller (checked at that call)
          ds_ = [v_ for v_, st_, k_ in q.reaching_assign(f_.node, e_.id)]
          # also assignments inside nested closures of the same method
          return bool(ds_) and all(v_ is not None and fresh(v_, depth + 1) for v_ in ds_)
        return False
      good = fresh(a_)
      ctx.ob('R-OWN', f_, "the buffer id a packet-in announces comes from the allocator (`%s`)" % norm(c_)[:50], good, "allocator result / None" if good else
             "`%s` announces an id that does not come from %s (origins of `%s`: %s): e.g. the id of a slot that already holds this packet - a slot the use-and-free routine releases right after the actions ran, so the "
             "announced id identifies no stored packet when the controller uses it" % (norm(c_)[:60], alloc.name, norm(a_), [norm(v_)[:40] for v_, st_, k_ in q.reaching_assign(f_.node, a_.id)] if isinstance(a_, ast.Name) else norm(a_)), (sw.module, c_), 'D1')
  ctx.floor('packet-in announcement sites', n_ann, 2)
  # the bytes a packet-in carries are the frame as it is now: taken from pack() (or handed in by the caller), never from the parse-time
  # copy `.raw`, which goes stale as soon as an action rewrites or re-tags the frame before it comes back through OFPP_TABLE
  for f_ in sw.methods.values():
    for c_ in calls_in(f_.node, nested=True):
      if call_name(c_) != 'send_packet_in' or not isinstance(c_.func, ast.Attribute): continue
      a_ = kwarg(c_, 'packet', 2)
      if a_ is None: continue
      exprs = [a_]
      if isinstance(a_, ast.Name): exprs = [v_ for v_, st_, k_ in q.reaching_assign(f_.node, a_.id) if v_ is not None] or [a_]
      stale = [e_ for e_ in exprs if any(isinstance(x_, ast.Attribute) and x_.attr == 'raw' for x_ in ast.walk(e_))]
      ctx.ob('R-AGREE', f_, "packet-in data is the frame's current bytes (`%s`)" % norm(a_)[:30], not stale, "pack() / caller's bytes" if not stale else
             "`%s` can be the frame's parse-time copy: after a set-field / VLAN action rewrote the frame (packet-out ... output:TABLE, then a miss) the packet-in describes the old bytes - its data is not a prefix of the stored "
             "frame and total_len is the old length" % norm(stale[0])[:60], (sw.module, stale[0]) if stale else f_, 'D4')
  packet_truth_tests(ctx, repo, sw, 'D3')
  # ---- the pool as its own operations see it: a history evaluated from the constructor's state (independent of how the pool is kept)
  hist_ok, pool_attrs = pool_history(ctx, repo, sw, alloc, use, 'D2')
  init_ = sw.methods.get('__init__')
  init_buf = [v for t, v, st, k in q.stores_in(init_.node) if norm(t) == 'self.' + BUF] if init_ is not None else []
  # (the list form may come with plain integer companions - a scan hint, a counter -; another container beside it is another form)
  others_ = [v for t, v, st, k in q.stores_in(init_.node) if isinstance(t, ast.Attribute) and norm(t.value) == 'self' and t.attr in pool_attrs - {BUF, 'max_buffers'}] if init_ is not None else []
  list_repr = len(init_buf) == 1 and isinstance(init_buf[0], ast.List) and not init_buf[0].elts and all(isinstance(v, ast.Constant) and isinstance(v.value, int) for v in others_)
  if not list_repr:
    # another representation of the pool (a map of occupied slots with a counter, parallel lists, ...): the rules below speak about
    # the list-with-free-holes form and do not apply; the history must then have decided the pool's behaviour completely
    ctx.floor('pool kept in another representation (%s): history decided' % sorted(pool_attrs), 1 if hist_ok is not None else 0, 1)
    owners = {alloc.qual, use.qual}
    for m in repo.modules.values():
      for c in list(m.classes.values()):
        for f in c.methods.values():
          for a_ in sorted(pool_attrs - {'max_buffers'}):
            if a_ not in m.src: continue
            for kind, site in q.mutations_of_attr(f.node, a_):
              ok_ = f.qual in owners or (f.name == '__init__' and kind == 'rebind' and f.cls is not None and sw in f.cls.mro())
              ctx.ob('R-OWN', f, "%s %s" % (kind, a_), ok_, "owner method / constructor" if ok_ else
                     "the pool's state is written outside the allocator/use-and-free pair: ids handed to the controller may stop identifying exactly one stored packet", (m, site), 'D1')
    _tail(ctx, repo, sw, use, spi)
    return
  n_before_list_rules = len(ctx.obs)
  # slots that are objects with operations of their own (`slot.store(...)`, `slot.release()`, `slot.occupied`) are another spelling
  # of "None or (packet, in_port)": the rules above read the None / tuple spelling and have nothing to say about that one
  def slot_recv (fn, x, d=0):
    if _is_buf_slot(x): return True
    if isinstance(x, ast.Name) and d < 3:
      dv = q.single_def(fn.node, x.id)
      return dv is not None and slot_recv(fn, dv, d + 1)
    return False
  object_slots = any(isinstance(c.func, ast.Attribute) and slot_recv(fn_, c.func.value) for fn_ in (alloc, use) for c in calls_in(fn_.node))
  # ---- D1 ownership -------------------------------------------------------
  writers = 0
  allowed = {alloc.qual, use.qual}
  for m in repo.modules.values():
    if BUF not in m.src: continue
    for c in list(m.classes.values()):
      for f in c.methods.values():
        for kind, site in q.mutations_of_attr(f.node, BUF):
          writers += 1
          if f.qual in allowed:
            ctx.ok('R-OWN', f, "%s %s" % (kind, BUF), "owner method", (m, site), 'D1')
          elif f.name == '__init__' and kind == 'rebind':
            v = site.value if isinstance(site, ast.Assign) else None
            if isinstance(v, ast.List) and not v.elts:
              ctx.ok('R-OWN', f, "rebind %s" % BUF, "constructor initialises to the empty list", (m, site), 'D1')
            else:
              ctx.bad('R-OWN', f, "rebind %s" % BUF, "constructor initialises the buffer list to something other than []", (m, site), 'D1')
          else:
            ctx.bad('R-OWN', f, "%s %s" % (kind, BUF),
                    "the buffer list is written outside the allocator/use-and-free pair: ids handed to the "
                    "controller may stop identifying exactly one stored packet", (m, site), 'D1')
    for f in m.funcs.values():
      for kind, site in q.mutations_of_attr(f.node, BUF):
        writers += 1
        ctx.bad('R-OWN', f, "%s %s" % (kind, BUF), "module-level function writes the buffer list", (m, site), 'D1')
  ctx.floor('buffer writers', writers, 1 if object_slots else 3)

  # ---- D2 allocator -------------------------------------------------------
  g = q.cfg_of(alloc)
  alloc_by_value, wrong, bufattr, X_, Y_ = allocator_samples(ctx, repo, sw, alloc, g, 'D2')
  grow = []     # nodes that enlarge the list
  reuse = []    # nodes that store into an existing slot
  for kind, site in q.mutations_of_attr(alloc.node, BUF):
    n = q.enclosing_stmt_node(g, site)
    if kind in ('call:append', 'call:insert', 'call:extend', 'augassign'): grow.append((kind, site, n))
    elif kind == 'setitem': reuse.append((kind, site, n))
    else:
      ctx.bad('R-DOM', alloc, "%s in allocator" % kind, "allocator mutates the buffer list in an unexpected way (%s)" % kind, (alloc.module, site), 'D2')
  ctx.floor('allocator growth sites', len(grow), 1)
  for kind, site, n in grow:
    facts = q.guard_facts(g, n)
    good = False
    for l, o, r, b in facts:
      if r is None: continue
      L, R = norm(l), norm(r)
      if _is_len_of_buf(l) and _is_max(r) and o == '<': good = True
      if _is_len_of_buf(r) and _is_max(l) and o == '>': good = True
    if not good and alloc_by_value and not wrong:
      # the bound may be tested through a counter (`slot >= self.max_buffers` after a scan that leaves slot == len): the sample
      # pools (full pool at the bound -> refusal, pool below the bound -> growth by one) have decided it
      ctx.ob('R-DOM', alloc, "growth of %s bounded" % BUF, True, "decided on the sample pools: a pool at the bound is refused, growth happens only below it", (alloc.module, site), 'D2')
      continue
    ctx.ob('R-DOM', alloc, "growth of %s bounded" % BUF, good,
           "growth site `%s` is reached only under len(%s) < max_buffers" % (norm(site)[:50], BUF) if good else
           "growth site `%s` is not dominated by a test len(%s) < self.max_buffers: the number of stored packets can exceed the advertised buffer count (facts: %s)" % (norm(site)[:50], BUF, q.fact_strs(g, n)),
           (alloc.module, site), 'D2')
  # free slots reused first: every growth node is reached only after the scan loop
  # ids: every non-None return value is index+1
  for r in q.returns_of(alloc.node):
    v = r.value
    if v is None or (isinstance(v, ast.Constant) and v.value is None): continue
    rn = q.enclosing_stmt_node(g, r)
    txt = norm(v)
    good = None; why = ''
    if isinstance(v, ast.BinOp) and isinstance(v.op, ast.Add) and isinstance(v.right, ast.Constant) and v.right.value == 1 and isinstance(v.left, ast.Name):
      # X + 1: for every definition of X that reaches this return, X is the index of the slot written on the way here -
      # either a reused slot (a store BUF[X] = ... between the definition and the return) or the slot an append creates
      # (X = len(BUF) taken before the append)
      idx = v.left.id
      IN, defn = q.reaching_defs(g, idx)
      oks = []
      for d in IN[rn]:
        if d is g.entry: oks.append(False); continue
        tt, dv, kind = defn[d]
        after_d = g.reachable(d)
        if kind == 'assign' and dv is not None and not isinstance(dv, tuple) and _is_len_of_buf(dv):
          aps = [n for (k, s_, n) in grow if n is not None and k == 'call:append' and n in after_d and rn in g.reachable(n) and d not in g.reachable(n)]
          oks.append(bool(aps) and not any(rn in g.reachable(d, avoid=aps) for _ in [0]))
        else:
          sts = [n for (k, s_, n) in reuse if n is not None and _subscript_index(s_) == idx and (n in after_d or n is d) and (rn in g.reachable(n))]
          oks.append(bool(sts) and rn not in g.reachable(d, avoid=sts))
      good = bool(oks) and all(oks); why = "returns %s where %s indexes the slot written on every path" % (txt, idx)
    elif _is_len_of_buf(v):
      ap = [s for (k, s, n) in grow if n is not None and k == 'call:append' and g.dominates(n, rn)]
      good = bool(ap); why = "returns len(list) right after append (index+1)"
    elif isinstance(v, ast.BinOp) and isinstance(v.op, ast.Add) and isinstance(v.right, ast.Constant) and v.right.value == 1 and isinstance(v.left, ast.Name) \
         and q.single_def(alloc.node, v.left.id) is not None and _is_len_of_buf(q.single_def(alloc.node, v.left.id)):
      # count = len(list) taken BEFORE the append: the appended slot has index count, its id is count + 1
      dn = [n for n in g.nodes if n.kind == 'stmt' and isinstance(n.ast, ast.Assign) and n.ast.value is q.single_def(alloc.node, v.left.id)]
      ap = [n for (k, s, n) in grow if n is not None and k == 'call:append' and g.dominates(n, rn)]
      good = bool(dn) and bool(ap) and all(g.dominates(dn[0], a_) and dn[0] not in g.reachable(a_) for a_ in ap)
      why = "returns (length before the append) + 1 after appending"
    else:
      good = False; why = "returned id `%s` is not index+1 of the slot just written" % txt
    if not good and alloc_by_value and not wrong:
      # the shape of the id computation is not one this rule knows, but the allocator was evaluated on the sample pools above
      ctx.ob('R-AGREE', alloc, "buffer id = index+1 (`return %s`)" % txt, True, "shape not recognised; ids on the sample pools are index + 1", (alloc.module, r), 'D2')
    else:
      ctx.ob('R-AGREE', alloc, "buffer id = index+1 (`return %s`)" % txt, good,
             why if good else "allocator returns `%s`, which is not the stored slot's index+1 - the use routine looks the packet up at id-1" % txt,
             (alloc.module, r), 'D2')
  if reuse:
    # reuse must be under a free test (`... is None`) of the very slot that is overwritten; the index may
    # reach the store through copies (a helper's result), every origin must have passed the test
    for k, s, n in reuse:
      idx = None
      for t in (s.targets if isinstance(s, ast.Assign) else []):
        if isinstance(t, ast.Subscript): idx = t.slice
      good = idx is not None and n is not None and _free_index(g, n, idx, n)
      byval = (not good) and alloc_by_value and not wrong
      if byval: good = True
      ctx.ob('R-DOM', alloc, "slot reuse only when the slot is free", good,
             ("every value the slot index can take was selected under a `is None` test of that slot" if not byval else "selection not recognised structurally; occupied slots stay untouched on the sample pools") if good else
             "allocator overwrites a slot without testing that it is free (facts: %s)" % q.fact_strs(g, n),
             (alloc.module, s), 'D2')
    # refusing a buffer (returning None) only after the scan: a full list whose slots have been freed must be reused
    scan = [h for (st, h, a) in g.loop_nodes if any(isinstance(x, ast.Attribute) and x.attr == BUF for x in ast.walk(st.iter if isinstance(st, (ast.For, ast.AsyncFor)) else st.test))]
    scan += [h for (st, h, a) in g.loop_nodes if isinstance(st, ast.While) and any(isinstance(x, ast.Attribute) and x.attr == BUF for b in st.body for x in ast.walk(b))]
    for r in q.returns_of(alloc.node):
      v = r.value
      if not (v is None or (isinstance(v, ast.Constant) and v.value is None)): continue
      rn = q.enclosing_stmt_node(g, r)
      good = rn is not None and (any(g.dominates(h, rn) for h in scan) or any(f_ in ('None not in self.%s' % BUF,) for f_ in q.fact_strs(g, rn)))
      if not good and alloc_by_value and not wrong: good = True       # scan not recognised structurally; a pool that is full by count but has a free slot reuses it on the sample pools
      ctx.ob('R-ORDER', alloc, "a buffer is refused only after the free-slot scan", good,
             "`return None` is reached only after the scan" if good else
             "the allocator gives up (returns None) on a path that has not scanned for a free slot: once max_buffers packets "
             "have been outstanding, freed slots are never reused and misses carry the whole frame although buffers are free",
             (alloc.module, r), 'D2')
    # the scan covers every slot: it starts at index 0, or at a remembered position that is provably moved back to (at most)
    # the index of every slot that is freed
    for (st, h, a) in g.loop_nodes:
      if not isinstance(st, ast.For) or h not in scan: continue
      it = st.iter
      start = None
      if isinstance(it, ast.Call) and call_name(it) == 'range' and len(it.args) >= 2: start = it.args[0]
      elif isinstance(it, ast.Call) and call_name(it) == 'enumerate' and (len(it.args) == 2 or kwarg(it, 'start') is not None):
        start = None                      # enumerate's start only renumbers, the whole list is visited
      elif isinstance(it, ast.Subscript) and isinstance(it.slice, ast.Slice) and it.slice.lower is not None: start = it.slice.lower
      elif isinstance(it, ast.Call) and call_name(it) == 'enumerate' and it.args and isinstance(it.args[0], ast.Subscript) and isinstance(it.args[0].slice, ast.Slice) and it.args[0].slice.lower is not None:
        start = it.args[0].slice.lower
      if start is None or (isinstance(start, ast.Constant) and start.value == 0):
        ctx.ob('R-ALL', alloc, "the free-slot scan visits every slot", True, "scan over the whole list", (alloc.module, st), 'D2'); continue
      if not (isinstance(start, ast.Attribute) and norm(start.value) == 'self'):
        ctx.undecided('R-ALL', alloc, "the free-slot scan visits every slot", "scan starts at `%s`" % norm(start), (alloc.module, st), 'D2'); continue
      hint = start.attr
      # every place a slot is freed must pull the hint back: hint = min(hint, idx) / `if idx < hint: hint = idx`
      bad_ = []; n_free = 0
      for c_ in sw.mro_classes() if hasattr(sw, 'mro_classes') else [sw]:
        for f_ in c_.methods.values():
          gf_ = None
          for kind, site in q.mutations_of_attr(f_.node, BUF):
            if not (kind == 'setitem' and isinstance(site, ast.Assign) and isinstance(site.value, ast.Constant) and site.value.value is None): continue
            n_free += 1
            idx_ = [t.slice for t in site.targets if isinstance(t, ast.Subscript)][0]
            gf_ = gf_ or q.cfg_of(f_)
            upd = [(v_, st_) for t_, v_, st_, k_ in q.stores_in(f_.node) if isinstance(t_, ast.Attribute) and t_.attr == hint and norm(t_.value) == 'self' and v_ is not None]
            ok_ = False
            for v_, st_ in upd:
              if isinstance(v_, ast.Call) and call_name(v_) == 'min' and any(norm(x) == norm(idx_) for x in v_.args) and any(norm(x) == 'self.' + hint for x in v_.args): ok_ = True
              sn_ = q.enclosing_stmt_node(gf_, st_)
              if norm(v_) == norm(idx_) and sn_ is not None and any(f2 in ('%s < self.%s' % (norm(idx_), hint), 'self.%s > %s' % (hint, norm(idx_))) for f2 in q.fact_strs(gf_, sn_)): ok_ = True
              if isinstance(v_, ast.Constant) and v_.value == 0: ok_ = True
            if not ok_: bad_.append((f_, site, [norm(st_) for v_, st_ in upd]))
      ctx.ob('R-ALL', alloc, "the free-slot scan visits every free slot (it starts at self.%s)" % hint, not bad_ and n_free > 0,
             "every release moves self.%s back to at most the freed index" % hint if not bad_ else
             "the scan starts at self.%s, and %s frees slot `%s` %s: after a lower slot and then a higher one are released the start position lies above a free slot, which is never found again - "
             "misses are sent unbuffered (whole frame) although a buffer is free" % (hint, bad_[0][0].name, norm(bad_[0][1])[:40], ("with `%s`, not the minimum of the old position and the freed index" % bad_[0][2][0]) if bad_[0][2] else "without moving it back"),
             (alloc.module, st), 'D2')
    # growth only after the scan: the loop's for-node dominates the growth node
    loops = [h for (s, h, a) in g.loop_nodes]
    for k, s, n in grow:
      good = any(g.dominates(h, n) for h in loops) or (n is not None and ('None not in self.%s' % BUF) in q.fact_strs(g, n))
      if not good and alloc_by_value and not wrong: good = True
      ctx.ob('R-ORDER', alloc, "free slots are reused before the list grows", good,
             "growth happens only after the free-slot scan" if good else "list grows without first scanning for a free slot",
             (alloc.module, s), 'D2')
  else:
    ctx.undecided('R-ORDER', alloc, "free slots are reused before the list grows", "no slot-reuse store found in the allocator", alloc, 'D2')
  # n_buffers advertised
  fr = q.find_method(repo, sw, '_rx_features_request', 'C18 n_buffers')
  ctx.analysed(fr)
  found = False
  for c in calls_in(fr.node):
    if call_name(c) == 'ofp_features_reply':
      nb = kwarg(c, 'n_buffers')
      found = True
      good = nb is not None and norm(nb) == 'self.max_buffers'
      ctx.ob('R-AGREE', fr, "advertised n_buffers is the allocator's bound", good,
             "n_buffers=self.max_buffers" if good else "features reply advertises n_buffers=%s but the allocator is bounded by self.max_buffers" % norm(nb),
             (fr.module, c), 'D2')
  if not found: ctx.undecided('R-AGREE', fr, "advertised n_buffers is the allocator's bound", "features reply constructor not found", fr, 'D2')

  # ---- D3 use once ---------------------------------------------------------
  g = q.cfg_of(use)
  # by evaluation on the pool [X, None]: id 1 emits X's packet once and frees the slot; a used, unknown or out-of-range id emits nothing
  def use_on (bid, pool=None):
    pool = [X_, None] if pool is None else list(pool)
    emitted = []
    def hook (call, env=None):
      if call_name(call) == '_process_actions_for_packet': return (True, None)
      return (False, None)
    def on_node (n, e):
      for c in q.node_calls(n):
        if call_name(c) == '_process_actions_for_packet' and len(c.args) >= 3:
          try: emitted.append((q.eval_env2(repo, use.module, c.args[1], e, sw), q.eval_env2(repo, use.module, c.args[2], e, sw)))
          except Exception: emitted.append('?')
    res = q.paths_under(repo, use.module, g, q.Env({bufattr: pool, use.params[2]: bid, use.params[1]: 'ACTS'}, [], hook), g.entry, [g.exit], sw, limit=60, on_node=on_node)
    pools = set(tuple(e_.exact.get(bufattr)) if isinstance(e_.exact.get(bufattr), list) else '?' for p_, e_ in res)
    return emitted, pools, len(res)
  use_wrong = []; use_unknown = 0
  for bid, want_emit, want_pool in ((1, [X_], (None, None)), (2, [], (X_, None)), (0, [], (X_, None)), (3, [], (X_, None)), (-1, [], (X_, None))):
    em_, pools_, np_ = use_on(bid)
    if np_ != 1 or '?' in em_ or '?' in pools_: use_unknown += 1
    elif em_ != want_emit or pools_ != {want_pool}: use_wrong.append((bid, em_, sorted(pools_, key=str), want_emit, want_pool))
  # the mirrored pool [free, X]: ids 0 and -1 would alias the occupied last slot through a negative index
  for bid, want_emit, want_pool in ((0, [], (None, X_)), (-1, [], (None, X_)), (1, [], (None, X_)), (2, [X_], (None, None))):
    em_, pools_, np_ = use_on(bid, [None, X_])
    if np_ != 1 or '?' in em_ or '?' in pools_: use_unknown += 1
    elif em_ != want_emit or pools_ != {want_pool}: use_wrong.append((bid, em_, sorted(pools_, key=str), want_emit, want_pool))
  if use_unknown:
    ctx.undecided('R-AGREE', use, "use on the sample pool: a live id emits its packet once and frees the slot, any other id emits nothing", "%d of 9 scenarios not evaluable" % use_unknown, use, 'D3')
  else:
    ctx.ob('R-AGREE', use, "use on the sample pool: a live id emits its packet once and frees the slot, any other id emits nothing", not use_wrong, "ids 1, 2 (used), 0, 3, -1 on the pool [X, free]; 0, -1, 1, 2 on [free, X]" if not use_wrong else
           "with a two-slot sample pool and buffer id %s the routine emits %s and leaves the pool as %s; expected emissions %s and pool %s" % use_wrong[0], use, 'D3')
  use_by_value = not use_unknown and not use_wrong
  emits = g.nodes_with_call(lambda c: call_name(c) == '_process_actions_for_packet')
  frees = []; other_writes = []
  for kind, site in q.mutations_of_attr(use.node, BUF):
    n = q.enclosing_stmt_node(g, site)
    if kind == 'setitem' and isinstance(site, ast.Assign) and isinstance(site.value, ast.Constant) and site.value.value is None:
      frees.append((site, n))
    else: other_writes.append((kind, site))
  ctx.floor('buffer emit sites', len(emits), 1)
  for kind, site in other_writes:
    ctx.bad('R-EFFECT', use, "unexpected write %s" % kind, "use-and-free routine writes the buffer list other than clearing the used slot", (use.module, site), 'D3')
  params = use.params
  for e in emits:
    facts = q.guard_facts(g, e)
    fs = q.fact_strs(g, e)
    # the slot actually fetched for emission: self._packet_buffer[IDX]
    fetch = [n for n in walk_no_nested(use.node) if isinstance(n, ast.Subscript) and isinstance(n.ctx, ast.Load)
             and isinstance(n.value, ast.Attribute) and n.value.attr == BUF and not isinstance(n.slice, ast.Slice)]
    fetch = [n for n in fetch if (lambda cn: cn is not None and (cn is e or g.dominates(cn, e)))(q.enclosing_stmt_node(g, n))
             and not isinstance(q.enclosing_stmt_node(g, n).ast if q.enclosing_stmt_node(g, n).kind != 'cond' else None, type(None))] or fetch
    idxs = set()
    for n in fetch:
      cn = q.enclosing_stmt_node(g, n)
      if cn is not None and cn.kind == 'cond': continue      # the not-None test itself
      idxs.add(q.linear(n.slice, use.node))
    if len(idxs) != 1:
      ctx.undecided('R-DOM', use, "emission only for an id inside the list", "cannot identify a unique slot index feeding the emission (%s)" % sorted(idxs), (use.module, e.ast), 'D3')
      rng_ok = None
    else:
      base, c0 = list(idxs)[0]
      lower, uppers = q.bounds_from_facts(facts, base, use.node)
      lo_ok = lower is not None and lower + c0 >= 0
      hi_ok = any(ub == 'len(self.%s)' % BUF and k + c0 <= 0 for ub, k in uppers)
      rng_ok = lo_ok and hi_ok
      if not rng_ok:
        # the range test may sit in a lookup helper whose verdict reaches the emission as a value (`entry is None` -> return):
        # on every feasible path to the emission (constant propagation prunes the paths on which the helper answered None) the
        # branches taken bound the index
        pf_ = _path_facts(repo, use, g, e, sw)
        if pf_:
          okp = True
          for fl_, defs_ in pf_:
            lw_, up_ = q.bounds_from_facts(fl_, base, use.node)
            if not (lw_ is not None and lw_ + c0 >= 0 and any(ub == 'len(self.%s)' % BUF and k + c0 <= 0 for ub, k in up_)): okp = False; break
          if okp: rng_ok = True; lo_ok = hi_ok = True
      if not rng_ok and use_by_value: rng_ok = True; base = base + ' (bounds not recognised structurally; ids 0, 3 and -1 emit nothing on the sample pool)'
      ctx.ob('R-DOM', use, "emission only for an id inside the list", rng_ok,
             "slot index %s%+d is proven within [0, len) by dominating guards" % (base, c0) if rng_ok else
             "slot index is `%s%+d` but the dominating guards only give %s >= %s and %s: %s - an id that was never issued "
             "reaches the list lookup (negative indices alias the last slots; too-large ones raise)" % (
               base, c0, base, lower, ["%s < %s%+d" % (base, ub, k) for ub, k in uppers],
               "lower bound not proven" if not lo_ok else "upper bound not proven"),
             (use.module, e.ast), 'D3')
    notnone = any(o == 'is not' and isinstance(r, ast.Constant) and r.value is None and _is_buf_slot(l) for l, o, r, b in facts if r is not None)
    if not notnone:
      pf_ = _path_facts(repo, use, g, e, sw)
      if pf_:
        def slot_of (x, defs_, d=0):
          if _is_buf_slot(x): return True
          return isinstance(x, ast.Name) and d < 5 and x.id in defs_ and slot_of(defs_[x.id], defs_, d + 1)
        if all(any(o == 'is not' and isinstance(r, ast.Constant) and r.value is None and slot_of(l, defs_) for l, o, r, b in fl_ if r is not None) for fl_, defs_ in pf_): notnone = True
    if not notnone and use_by_value: notnone = True        # guard not recognised structurally; ids 2 (used slot) emits nothing on the sample pool
    ctx.ob('R-DOM', use, "emission only for a slot that is still occupied", notnone,
           "emit dominated by `slot is not None`" if notnone else
           "emission is not dominated by a test that the slot is not None (facts: %s): an already-used id would emit again / crash" % fs,
           (use.module, e.ast), 'D3')
    fn = [n for s, n in frees if n is not None]
    good = bool(fn) and g.postdominates(fn, e)
    ctx.ob('R-ORDER', use, "slot freed after emission on every normal path", good,
           "every normal path from the emission clears the slot" if good else
           "some normal path from the emission to the return leaves the slot occupied: the buffer leaks and the id can be used twice",
           (use.module, e.ast), 'D3')
  iv = g.interval(lambda n: n in emits)
  ctx.ob('R-EFFECT', use, "at most one emission per use", iv is not None and iv[1] <= 1,
         "emission count on any path is in [%s,%s]" % iv if iv else "no normal exit", use, 'D3')
  for s, n in frees:
    good = n is not None and any(g.dominates(e, n) for e in emits)
    # also accept free-before-emit if the packet has been fetched (not the repo's idiom)
    ctx.ob('R-ORDER', use, "slot cleared only after a successful emission", good,
           "the slot is cleared only on paths that emitted the packet" if good else
           "slot is cleared on a path that did not emit its packet (packet lost)", (use.module, s), 'D3')

  if object_slots:
    from ..report import VIOL, UNDEC
    for o in ctx.obs[n_before_list_rules:]:
      if o.verdict == VIOL and o.rule in ('R-DOM', 'R-AGREE', 'R-ORDER') and ('emission only for a slot' in o.detail or 'buffer id = index+1' in o.detail or 'slot freed after emission' in o.detail):
        o.verdict = UNDEC; o.reason = "the slots are objects with their own operations; this rule reads the None / tuple spelling (was: %s)" % str(o.reason)[:160]
  _tail(ctx, repo, sw, use, spi)

def _tail (ctx, repo, sw, use, spi):
  # ---- D5 a flow-mod that names a buffer always uses it once its command was dispatched ---------------------------
  rxf = sw.find_method('_rx_flow_mod')
  if rxf is not None:
    ctx.analysed(rxf); gf = q.cfg_of(rxf)
    un = gf.nodes_with_call(lambda c: call_name(c) == use.name)
    hc = gf.nodes_with_call(lambda c: (isinstance(c.func, ast.Name) and c.func.id not in ('getattr', 'isinstance', 'len')) or call_name(c).startswith('_flow_mod_'))
    hc = [n for n in hc if n not in un and any(u in gf.reachable(n) for u in un)]
    if un and hc:
      req = rxf.params[1]
      env = q.Env({'%s.buffer_id is not None' % req: True, '%s.buffer_id is None' % req: False, '%s.buffer_id' % req: 7})
      r_ = q.reach_under(repo, rxf.module, gf, env, sw, start=hc[-1])
      seen = set([hc[-1]]); st_ = [hc[-1]]; bypass = False
      while st_:
        x = st_.pop()
        for m_, l_ in x.succ:
          if l_ == 'exc' or m_ in seen or m_ in un or m_ not in r_: continue
          if m_ is gf.exit: bypass = True
          seen.add(m_); st_.append(m_)
      ctx.ob('R-EFFECT', rxf, "after the command handler ran, a flow-mod that names a buffer always releases it", not bypass,
             "every normal path from `%s` passes %s" % (hc[-1].text(40), use.name) if not bypass else
             "with buffer_id set there is a normal path from `%s` to the end of %s that skips %s (the handler's result decides): the flow is changed but the buffered packet is neither forwarded nor freed - the slot leaks"
             % (hc[-1].text(40), rxf.name, use.name), (rxf.module, hc[-1].ast), 'D3')
    else:
      ctx.undecided('R-EFFECT', rxf, "a flow-mod that names a buffer releases it", "handler dispatch / buffer use not found in %s" % rxf.name, rxf, 'D3')
  # the configured miss length is kept as sent (0 is a legal value: "send no data with a buffered packet-in")
  sc = sw.find_method('_rx_set_config')
  if sc is not None:
    ctx.analysed(sc); gsc = q.cfg_of(sc)
    outs = {}
    for val in (0, 64, 0xffff):
      got = set()
      for p_, e_ in q.paths_under(repo, sc.module, gsc, q.Env({sc.params[1] + '.miss_send_len': val, sc.params[1] + '.flags': 0}), gsc.entry, [gsc.exit], sw, limit=20):
        got.add(e_.exact.get('self.miss_send_len', '?'))
      outs[val] = got
    if any('?' in g_ or not g_ for g_ in outs.values()):
      ctx.undecided('R-AGREE', sc, "set-config stores the miss length it was given", "not evaluable (%s)" % outs, sc, 'D4')
    else:
      wrong_ = [(v_, sorted(g_)) for v_, g_ in outs.items() if g_ != {v_}]
      ctx.ob('R-AGREE', sc, "set-config stores the miss length it was given", not wrong_, "0, 64 and 0xffff kept" if not wrong_ else
             "set_config(miss_send_len=%s) leaves self.miss_send_len = %s: a controller that asks for no data in buffered packet-ins gets the default amount" % wrong_[0], sc, 'D4')
  packet_in_rules(ctx, repo, spi)

def pool_history (ctx, repo, sw, alloc, use, clause):
  """The pool driven through a history by evaluation of its own two operations, starting from the state the constructor sets up
  (max_buffers = 2): allocate A, B -> two distinct ids; a third allocation is refused; using A's id emits A once, a second use
  emits nothing; the freed room is handed out again with an id that is not B's; B and the newcomer are still emitted by their ids;
  ids nobody was given emit nothing and disturb nothing.  Returns (True/False/None = not evaluable, attributes that make up the pool)."""
  import copy as _copy
  def self_attrs (fn):
    out = set()
    for n in ast.walk(fn.node):
      if isinstance(n, ast.Attribute) and isinstance(n.value, ast.Name) and n.value.id == 'self': out.add(n.attr)
    return out
  meths = set(m for c in sw.mro() for m in c.methods)
  attrs = set(a for a in (self_attrs(alloc) | self_attrs(use)) if a not in meths and a not in ('log', 'name', 'dpid'))
  init = sw.methods.get('__init__')
  state = {}
  if init is not None:
    e0 = q.Env(dict((p_, 2) for p_ in init.params if p_ == 'max_buffers'))
    for t, v, st, k in q.stores_in(init.node, nested=False):
      if isinstance(t, ast.Attribute) and norm(t.value) == 'self' and t.attr in attrs and k == 'assign':
        try:
          val = q.eval_env2(repo, sw.module, v, e0, sw)
          if val is not q.OPAQUE: state['self.' + t.attr] = val
        except Exception: pass
  state['self.max_buffers'] = 2
  pool = set(k[5:] for k in state)
  ga, gu = q.cfg_of(alloc), q.cfg_of(use)
  is_log = lambda e: isinstance(e, ast.Call) and isinstance(e.func, ast.Attribute) and call_name(e) in ('warn', 'warning', 'debug', 'info', 'error', 'msg') and 'log' in norm(e.func.value)
  class Und(Exception): pass
  def keep (e_): return dict((k, _copy.deepcopy(e_.exact[k])) if k in e_.exact else (_ for _ in ()).throw(Und()) for k in state)
  def do_alloc (st, pkt, port):
    env = q.Env(dict(_copy.deepcopy(st), **{alloc.params[1]: pkt, (alloc.params[2] if len(alloc.params) > 2 else 'in_port'): port}), [(is_log, None)])
    res = q.paths_under(repo, alloc.module, ga, env, ga.entry, [n for n in ga.nodes if n.kind == 'return'] + [ga.exit], sw, limit=200)
    if len(res) != 1: raise Und()
    p_, e_ = res[0]; last = p_[-1]
    rv = q.eval_env2(repo, alloc.module, last.ast.value, e_, sw) if last.kind == 'return' and last.ast.value is not None else None
    if not isinstance(rv, (int, type(None))) or isinstance(rv, bool): raise Und()
    return rv, keep(e_)
  def do_use (st, bid):
    emitted = []
    def hook (call, env=None): return (True, None) if call_name(call) == '_process_actions_for_packet' else (False, None)
    def on_node (n, e):
      for c in q.node_calls(n):
        if call_name(c) == '_process_actions_for_packet' and len(c.args) >= 3:
          try: emitted.append((q.eval_env2(repo, use.module, c.args[1], e, sw), q.eval_env2(repo, use.module, c.args[2], e, sw)))
          except Exception: emitted.append('?')
    env = q.Env(dict(_copy.deepcopy(st), **{use.params[2]: bid, use.params[1]: 'ACTS'}), [(is_log, None)], hook)
    res = q.paths_under(repo, use.module, gu, env, gu.entry, [gu.exit], sw, limit=60, on_node=on_node)
    if len(res) != 1 or '?' in emitted: raise Und()
    return emitted, keep(res[0][1])
  wrong = []
  try:
    a, s1 = do_alloc(state, 'A', 1); b, s2 = do_alloc(s1, 'B', 2); c, s3 = do_alloc(s2, 'C', 3)
    if a is None or b is None or a == b: wrong.append("two allocations from an empty pool of size 2 give ids %r and %r" % (a, b))
    if c is not None: wrong.append("a third allocation from a pool of size 2 is not refused (id %r): more packets are stored than max_buffers allows" % (c,))
    if not wrong:
      e1, s4 = do_use(s3, a); e2, s5 = do_use(s4, a)
      if e1 != [('A', 1)]: wrong.append("using id %r (packet A, port 1) emits %r" % (a, e1))
      if e2 != []: wrong.append("using id %r a second time emits %r: a buffer is released more than once" % (a, e2))
      d, s6 = do_alloc(s5, 'D', 4)
      if d is None: wrong.append("after A was released an allocation is still refused: the freed slot is never handed out again (the pool leaks)")
      elif d == b: wrong.append("the id %r handed out for D is B's, which is still stored: one id for two packets" % (d,))
      for bogus in sorted(set([0, -1, 99, max(a, b) + 1, -2]) - set([a, b, d])):
        eb, sb = do_use(s6, bogus)
        if eb != []: wrong.append("id %r was never handed out but using it emits %r" % (bogus, eb))
        s6 = sb
      eB, s7 = do_use(s6, b)
      if eB != [('B', 2)]: wrong.append("using B's id %r emits %r" % (b, eB))
      if d is not None and d != b:
        eD, s8 = do_use(s7, d)
        if eD != [('D', 4)]: wrong.append("using D's id %r emits %r" % (d, eD))
        x, s9 = do_alloc(s8, 'E', 5); y, s10 = do_alloc(s9, 'F', 6)
        if x is None or y is None or x == y: wrong.append("with every buffer released two allocations give ids %r and %r" % (x, y))
    if not wrong:
      # a pool of three, released out of order: all the room that was released is available again, and no more than that
      st3 = dict(state); st3['self.max_buffers'] = 3
      i1, t1 = do_alloc(st3, 'A', 1); i2, t2 = do_alloc(t1, 'B', 2); i3, t3 = do_alloc(t2, 'C', 3)
      if None in (i1, i2, i3) or len(set([i1, i2, i3])) != 3: wrong.append("three allocations from an empty pool of size 3 give ids %r, %r, %r" % (i1, i2, i3))
      else:
        e_, t4 = do_use(t3, i1); e_, t5 = do_use(t4, i3)
        j1, t6 = do_alloc(t5, 'D', 4); j2, t7 = do_alloc(t6, 'E', 5); j3, t8 = do_alloc(t7, 'F', 6)
        if j1 is None or j2 is None or j1 == j2 or i2 in (j1, j2):
          wrong.append("pool of 3 with ids %r and %r released (in that order) and %r still stored: the next two allocations give %r and %r - released room is not handed out again (the pool shrinks until every packet-in goes out unbuffered) or an id in use is given twice" % (i1, i3, i2, j1, j2))
        elif j3 is not None: wrong.append("pool of 3, full again: a further allocation is not refused (id %r)" % (j3,))
        else:
          eB, t9 = do_use(t8, i2)
          if eB != [('B', 2)]: wrong.append("B's id %r emits %r after the released slots were reused" % (i2, eB))
  except Und:
    ctx.undecided('R-AGREE', alloc, "pool history: ids are unique among stored packets, each is usable exactly once, the pool is bounded and its room is reused", "a step of the history is not evaluable", alloc, clause)
    return None, pool
  except Exception as ex:
    ctx.undecided('R-AGREE', alloc, "pool history: ids are unique among stored packets, each is usable exactly once, the pool is bounded and its room is reused", "a step of the history is not evaluable (%s)" % type(ex).__name__, alloc, clause)
    return None, pool
  ctx.ob('R-AGREE', alloc, "pool history: ids are unique among stored packets, each is usable exactly once, the pool is bounded and its room is reused", not wrong,
         "alloc A, B, (C refused), use A twice, alloc D, bogus ids, use B, D, alloc E, F - from the constructor's state with max_buffers = 2" if not wrong else wrong[0], alloc, clause)
  return (not wrong), pool

def allocator_samples (ctx, repo, sw, alloc, g, clause):
  # the allocator by evaluation on sample pools (X, Y occupied slots): which id comes back and what the pool looks like afterwards
  X_, Y_ = ('x', 1), ('y', 2)
  bufattr = 'self.' + BUF
  # the attribute may have been renamed: take the one the allocator actually stores into / appends to
  cand = [norm(c.func.value) for c in calls_in(alloc.node) if call_name(c) == 'append' and isinstance(c.func, ast.Attribute) and norm(c.func.value).startswith('self.')]
  if cand and bufattr not in cand: bufattr = cand[0]
  alias_src = [norm(v) for t, v, st, k in q.stores_in(alloc.node) if isinstance(t, ast.Name) and v is not None and isinstance(v, ast.Attribute) and norm(v.value) == 'self']
  if not cand and alias_src: bufattr = alias_src[0]
  def alloc_on (pool, maxb):
    env = q.Env({bufattr: list(pool), 'self.max_buffers': maxb, alloc.params[1]: 'PKT', alloc.params[2] if len(alloc.params) > 2 else 'in_port': 9})
    outs = set()
    for p_, e_ in q.paths_under(repo, alloc.module, g, env, g.entry, [n for n in g.nodes if n.kind == 'return'] + [g.exit], sw, limit=200):
      last = p_[-1]
      try: rv = q.eval_env2(repo, alloc.module, last.ast.value, e_, sw) if last.kind == 'return' and last.ast.value is not None else None
      except Exception: rv = '?'
      pl = e_.exact.get(bufattr, '?')
      outs.add((rv if isinstance(rv, (int, type(None))) else '?', tuple(pl) if isinstance(pl, list) else '?'))
    return outs
  NEW_ = ('PKT', 9)
  cases = [((X_, None, Y_), 3, (2, (X_, NEW_, Y_))), ((X_, Y_), 4, (3, (X_, Y_, NEW_))), ((X_, Y_), 2, (None, (X_, Y_))), ((), 4, (1, (NEW_,))), ((None, None), 2, (1, (NEW_, None)))]
  wrong = []; unknown = 0
  for pool, maxb, want in cases:
    got = alloc_on(pool, maxb)
    if len(got) != 1 or any('?' in (x if isinstance(x, tuple) else (x,)) for g_ in got for x in g_): unknown += 1
    elif got != {want}: wrong.append((pool, maxb, sorted(got, key=str), want))
  if unknown:
    ctx.undecided('R-AGREE', alloc, "allocator on sample pools: lowest free slot, id = index + 1, growth up to the bound, refusal when full", "%d of %d sample pools not evaluable" % (unknown, len(cases)), alloc, clause)
  else:
    ctx.ob('R-AGREE', alloc, "allocator on sample pools: lowest free slot, id = index + 1, growth up to the bound, refusal when full", not wrong, "%d sample pools" % len(cases) if not wrong else
           "for pool %s with max_buffers=%s the allocator gives %s, expected %s" % wrong[0], alloc, clause)
  alloc_by_value = not unknown
  return alloc_by_value, wrong, bufattr, X_, Y_

def packet_in_rules (ctx, repo, spi):
  # ---- D4 packet-in --------------------------------------------------------
  g = q.cfg_of(spi)
  trunc = []
  for t, v, st, k in q.stores_in(spi.node):
    if isinstance(t, ast.Name) and isinstance(v, ast.Subscript) and isinstance(v.slice, ast.Slice) \
       and isinstance(v.value, ast.Name) and v.value.id == t.id:
      trunc.append((t.id, st))
  n_trunc_floor = len(trunc)
  pin_calls = [c for c in calls_in(spi.node) if call_name(c) == 'ofp_packet_in']
  ctx.floor('packet-in constructor', len(pin_calls), 1)
  for var, st in trunc:
    n = q.enclosing_stmt_node(g, st)
    fs = q.fact_strs(g, n)
    good = 'buffer_id is not None' in fs
    ctx.ob('R-DOM', spi, "data truncated only when the packet is buffered", good,
           "truncation dominated by `buffer_id is not None`" if good else
           "packet-in data is truncated on a path where no buffer id accompanies it (facts: %s): the controller can never see the rest of the frame" % fs,
           (spi.module, st), 'D4')
    upper = st.value.slice.upper
    lower = st.value.slice.lower
    good = lower is None and upper is not None and norm(upper) == 'data_length'
    ctx.ob('R-AGREE', spi, "truncation keeps the first data_length bytes", good,
           "prefix slice [:data_length]" if good else "truncation slice `%s` is not the prefix of the configured miss length" % norm(st.value), (spi.module, st), 'D4')
    for c in pin_calls:
      tl = kwarg(c, 'total_len')
      cn = q.enclosing_stmt_node(g, c)
      if tl is None:
        # without total_len the message reports len(data) -- wrong whenever truncation happened
        reach = n is not None and cn in g.reachable(n)
        ctx.ob('R-DEF', spi, "total_len reflects the untruncated frame", not reach,
               "constructor not reachable from truncation" if not reach else
               "ofp_packet_in is built without total_len after `%s` may have truncated the data: the message's total_len defaults to len(data), i.e. the truncated length, not the true frame length" % norm(st),
               (spi.module, c), 'D4')
      else:
        good = None; why = ''
        if isinstance(tl, ast.Name):
          d = q.single_def(spi.node, tl.id)
          if d is None: why = "`%s` has no single definition" % tl.id
          else:
            dn = q.enclosing_stmt_node(g, d)
            is_len = isinstance(d, ast.Call) and call_name(d) == 'len' and norm(d.args[0]) == var
            before = dn is not None and n is not None and dn not in g.reachable(n) and g.dominates(dn, cn)
            good = is_len and before
            why = "total_len=%s, defined as `%s` before the truncation" % (tl.id, norm(d)) if good else \
                  "total_len=%s is defined as `%s`%s" % (tl.id, norm(d), '' if before else ' at a point reachable after the truncation')
        elif isinstance(tl, ast.Call) and call_name(tl) == 'len' and norm(tl.args[0]) == var:
          reach = n is not None and cn in g.reachable(n)
          good = not reach
          why = "len(%s) evaluated after the truncation" % var
        else:
          why = "total_len expression `%s` not understood" % norm(tl)
        ctx.ob('R-DEF', spi, "total_len reflects the untruncated frame", good,
               why if good is not False else why + ": a buffered miss reports the truncated length", (spi.module, c), 'D4')

  # by evaluation: how many bytes of a 20-byte frame go into the message
  pk = None
  for cand in ('packet',) + tuple(spi.params[1:]):
    if cand in spi.params: pk = cand; break
  if pk and pin_calls and 'buffer_id' in spi.params and 'data_length' in spi.params:
    frame = bytes(range(20))
    wrong = []; unknown = 0; n_sc = 0
    for bid, dl, want in ((5, 0, 0), (5, 8, 8), (5, 20, 20), (5, 100, 20), (5, None, 20), (None, 8, 20), (None, 0, 20), (None, None, 20)):
      n_sc += 1
      c = pin_calls[0]; cn = q.enclosing_stmt_node(g, c); dexpr = kwarg(c, 'data')
      if dexpr is None or cn is None: unknown += 1; continue
      env = q.Env({pk: frame, 'buffer_id': bid, 'data_length': dl}, [((lambda e: isinstance(e, ast.Call) and call_name(e) == 'hasattr'), False), ((lambda e: isinstance(e, ast.Call) and call_name(e) == 'assert_type'), True)])
      got = set()
      for p_, e_ in q.paths_under(repo, spi.module, g, env, g.entry, [cn], spi.cls, limit=40):
        try: v_ = q.eval_env2(repo, spi.module, dexpr, e_, spi.cls); got.add(len(v_) if isinstance(v_, bytes) else '?')
        except Exception: got.add('?')
      if not got or '?' in got: unknown += 1
      elif got != {want}: wrong.append((bid, dl, sorted(got), want))
    # the same scenarios for the announced total length (the true frame length, whatever was cut)
    tl_wrong = []; tl_unknown = 0
    for bid, dl in ((5, 0), (5, 8), (5, 100), (None, 8), (None, None)):
      c = pin_calls[0]; cn = q.enclosing_stmt_node(g, c); tl = kwarg(c, 'total_len')
      if tl is None or cn is None: tl_unknown += 1; continue
      env = q.Env({pk: frame, 'buffer_id': bid, 'data_length': dl}, [((lambda e: isinstance(e, ast.Call) and call_name(e) == 'hasattr'), False), ((lambda e: isinstance(e, ast.Call) and call_name(e) == 'assert_type'), True)])
      got = set()
      for p_, e_ in q.paths_under(repo, spi.module, g, env, g.entry, [cn], spi.cls, limit=40):
        try: got.add(q.eval_env2(repo, spi.module, tl, e_, spi.cls))
        except Exception: got.add('?')
      if not got or '?' in got: tl_unknown += 1
      elif got != {20}: tl_wrong.append((bid, dl, sorted(got)))
    if not tl_unknown and not unknown and not n_trunc_floor:
      # the truncation statement was not recognised structurally, but every scenario is decided by evaluation
      n_trunc_floor = 1
      ctx.ob('R-DEF', spi, "total_len reflects the untruncated frame", not tl_wrong, "5 scenarios evaluated" if not tl_wrong else
             "with buffer_id=%s and data_length=%s a 20-byte frame is announced with total_len %s" % tl_wrong[0], spi, 'D4')
    if unknown:
      ctx.undecided('R-AGREE', spi, "a buffered packet-in carries min(frame, miss length) bytes, an unbuffered one the whole frame", "%d of %d scenarios not evaluable" % (unknown, n_sc), spi, 'D4')
    else:
      ctx.ob('R-AGREE', spi, "a buffered packet-in carries min(frame, miss length) bytes, an unbuffered one the whole frame", not wrong, "%d scenarios" % n_sc if not wrong else
             "with buffer_id=%s and data_length=%s a 20-byte frame is sent with %s byte(s) of data, expected %d" % wrong[0], spi, 'D4')
  ctx.floor('packet-in truncation sites', n_trunc_floor, 1)

def _free_index (g, node, idx, store, depth=0):
  """can `idx` at `node` only denote a slot that tested free (is None)?"""
  facts = q.guard_facts(g, node)
  it = norm(idx)
  for l, o, r, b in facts:
    if o == 'is' and isinstance(r, ast.Constant) and r.value is None:
      if _is_buf_slot(l) and norm(l.slice) == it: return True
      # enumerate(self._packet_buffer): the element variable of the iteration whose index is idx
      if isinstance(l, ast.Name) and isinstance(idx, ast.Name):
        for st, h, a in g.loop_nodes:
          if isinstance(st, ast.For) and isinstance(st.iter, ast.Call) and call_name(st.iter) == 'enumerate' and st.iter.args \
             and isinstance(st.iter.args[0], ast.Attribute) and st.iter.args[0].attr == BUF and isinstance(st.target, ast.Tuple) and len(st.target.elts) == 2:
            i, v = st.target.elts
            if isinstance(i, ast.Name) and i.id == idx.id and isinstance(v, ast.Name) and v.id == l.id and h in [x for x in g.nodes if g.dominates(x, node)]:
              return True
  if not isinstance(idx, ast.Name) or depth > 5: return False
  notnone = any(isinstance(l, ast.Name) and l.id == idx.id and o == 'is not' and isinstance(r, ast.Constant) and r.value is None
                for l, o, r, b in q.guard_facts(g, store)) if depth == 0 else False
  IN, defn = q.reaching_defs(g, idx.id)
  if not IN[node]: return False
  for d in IN[node]:
    if d is g.entry: return False
    tt, v, kind = defn[d]
    if kind == 'assign' and isinstance(v, ast.Constant) and v.value is None:
      if notnone or depth > 0 and _guarded_notnone(g, store, idx.id): continue
      return False
    if kind == 'assign' and isinstance(v, ast.Name):
      if not _free_index(g, d, v, store, depth + 1): return False
      continue
    if kind == 'assign' and isinstance(v, ast.Call) and call_name(v) == 'index' and isinstance(v.func.value, ast.Attribute) and v.func.value.attr == BUF \
       and len(v.args) == 1 and isinstance(v.args[0], ast.Constant) and v.args[0].value is None:
      continue                       # the index of the first None: free by construction
    return False
  return True

def _guarded_notnone (g, store, name): return False

def _is_len_of_buf (e):
  return isinstance(e, ast.Call) and call_name(e) == 'len' and len(e.args) == 1 and \
         isinstance(e.args[0], ast.Attribute) and e.args[0].attr == BUF
def _is_max (e):
  return isinstance(e, ast.Attribute) and e.attr == 'max_buffers'
def _is_zero (e): return isinstance(e, ast.Constant) and e.value == 0
def _is_const (e, v):
  if isinstance(e, ast.UnaryOp) and isinstance(e.op, ast.USub) and isinstance(e.operand, ast.Constant):
    return -e.operand.value == v
  return isinstance(e, ast.Constant) and e.value == v
def _path_facts (repo, use, g, e, sw):
  """[(facts of the branches taken, {local: last value assigned}), ...] for every feasible path from the entry to node e; None when
  the enumeration is cut off"""
  try: ps = q.paths_under(repo, use.module, g, q.Env(), g.entry, [e], sw, limit=300)
  except Exception: return None
  if not ps or len(ps) >= 300: return None
  out = []
  for p_, env_ in ps:
    if p_[-1] is not e: continue
    fl = []; defs = {}
    for n in p_:
      if n.kind == 'branch' and not isinstance(n.label[0], (ast.For, ast.AsyncFor)):
        fl += [(l, o, r, None) for l, o, r in q.facts_of(n.label[0], n.label[1])]
      elif n.ast is not None and isinstance(n.ast, ast.Assign) and len(n.ast.targets) == 1 and isinstance(n.ast.targets[0], ast.Name):
        defs[n.ast.targets[0].id] = n.ast.value
    out.append((fl, defs))
  return out or None

def _is_buf_slot (e):
  return isinstance(e, ast.Subscript) and isinstance(e.value, ast.Attribute) and e.value.attr == BUF
def _subscript_index (st):
  for t in (st.targets if isinstance(st, ast.Assign) else []):
    if isinstance(t, ast.Subscript): return norm(t.slice)
  return None


def packet_truth_tests (ctx, repo, sw, clause):
  """packet_base.__bool__ is the `parsed` flag: a frame that was built (or a runt that did not parse) is falsy.  The switch's action
  and output code never takes a packet object's truth value for "there is a packet" (shared with C12)."""
  pbm = repo.mod('lib.packet.packet_base'); pbc = pbm.classes.get('packet_base')
  pb_bool = pbc.methods.get('__bool__') if pbc is not None else None
  if pb_bool is None or not any(isinstance(x_, ast.Attribute) and x_.attr == 'parsed' for x_ in ast.walk(pb_bool.node)): return
  n = 0
  for f_ in sw.methods.values():
    names = set(p_ for p_ in f_.params if p_ == 'packet')
    if not names: continue
    n += 1
    for x_ in walk_no_nested(f_.node):
      hit = None
      if isinstance(x_, (ast.If, ast.While, ast.IfExp)):
        t_ = x_.test
        if isinstance(t_, ast.UnaryOp) and isinstance(t_.op, ast.Not): t_ = t_.operand
        if isinstance(t_, ast.Name) and t_.id in names: hit = x_.test
      elif isinstance(x_, ast.BoolOp) and isinstance(x_.values[0], ast.Name) and x_.values[0].id in names: hit = x_
      if hit is None: continue
      ctx.bad('R-AGREE', f_, "a packet's presence is not decided by its truth value (`%s`)" % norm(hit)[:30],
              "`%s` is false for every frame whose `parsed` flag is not set (packet_base.__bool__) - a frame built in-process or one that did not parse: the action list stops after the first action, so a buffered frame released with "
              "[set_dl_dst, output] is freed but never emitted" % norm(hit)[:30], (sw.module, hit), clause)
  ctx.floor('switch methods handling a packet object', n, 10)
