"""C19 - discovery / spanning tree (partial property, structural part).

 D1 link life-cycle: adjacency written only by the probe handler (insert/refresh) and _delete_links (pop);
    LinkEvent(added) only together with a first insert; LinkEvent(removed) only in _delete_links, once per
    link, paired with its pop; withdrawn links are drawn from the adjacency; a switch going down withdraws
    links with the dpid on either end; expiry compares timestamp + timeout with now on a recurring timer
 D2 probe writer / reader agreement: 'dpid:' + hex ... [5:], base 16; str(port) / isdigit+int; TLV order vs
    the indices read; the textual dpid form is tried before the 8-byte binary fallback; link direction
 D3 flood-bit push: flood = in tree or edge port; mask/config use the NO_FLOOD constant; skip only when the
    previous bit equals the new one
 D4 link culling picks ONE link for both directions (cross-write from the same link object)
 N  forest / spanning correctness of the traversal for every graph - not decided (algorithmic, value-level)
"""
import ast
from .. import q, defs, ofreg
from ..model import AnalysisError, calls_in, call_name, norm, kwarg, walk_no_nested

EXPLAIN = ("R-OWN writers of the adjacency; R-DOM/R-EFFECT LinkEvent(add) with first insert, LinkEvent(remove) paired with pop; "
           "R-AGREE probe writer vs reader constants (prefix, slice, base, TLV order), textual-before-binary ordering; R-AGREE flood-bit "
           "computation and port-mod constants; R-AGREE symmetric link choice in the culling loop. Decides these necessary conditions; "
           "the spanning-forest property of _calc_spanning_tree for every graph is NOT decided (value-level algorithmic property).")
DISC = 'openflow.discovery'; ST = 'openflow.spanning_tree'

def _withdraw_by_value (repo, dmod, disc, dl, g2, lp, rmev):
  """_delete_links run by the analyser's interpreter: ([per path: [(announced link, still in the table?)]], [per path: final
  table keys]) or None when a path cannot be evaluated"""
  events_all = []; finals = []
  cur = {'ev': []}
  def hook (call, env=None):
    if call_name(call) in ('raiseEventNoErrors', 'raiseEvent') and len(call.args) >= 3 and norm(call.args[0]) == 'LinkEvent':
      try:
        flag = q.eval_env2(repo, dmod, call.args[1], env, disc); l = q.eval_env2(repo, dmod, call.args[2], env, disc)
        adj = env.exact.get('self.adjacency')
        env.exact['__events__'] = env.exact.get('__events__', ()) + ((l, flag, (l in adj) if isinstance(adj, dict) else None),)
      except Exception:
        env.exact['__events__'] = env.exact.get('__events__', ()) + (('?', None, None),)
      return (True, None)
    return (False, None)
  hook.wants_env = True; hook.effects = True
  env = q.Env({lp: ['L1', 'L2', 'L3'], 'self.adjacency': {'L1': 1.0, 'L2': 2.0, 'L4': 4.0}}, [], hook)
  paths = q.paths_under(repo, dmod, g2, env, g2.entry, [g2.exit], disc, limit=20)
  if not paths: return None
  for p_, e_ in paths:
    evs = e_.exact.get('__events__', ())
    adj = e_.exact.get('self.adjacency')
    if not isinstance(adj, dict) or any(l == '?' or flag is not False or present is None for l, flag, present in evs): return None
    events_all.append([(l, present) for l, flag, present in evs]); finals.append(list(adj))
  return events_all, finals

def _link_names (pin):
  """the local(s) that hold the Link object built from the probe: the target of `<x> = ...Link(...)` and plain copies of it
  (the parameter of an inlined helper)"""
  names = set(['link'])
  for _i in range(3):
    for t, v, st, k in q.stores_in(pin.node):
      if isinstance(t, ast.Name) and v is not None and ((isinstance(v, ast.Call) and call_name(v) == 'Link') or (isinstance(v, ast.Name) and v.id in names)): names.add(t.id)
  return names

def run (ctx):
  ctx.explanation = EXPLAIN
  ctx.assumptions = ["LLDP TLV classes carry their fields as written by _create_discovery_packet"]
  repo = ctx.repo
  dmod = repo.mod(DISC); smod = repo.mod(ST)
  disc = repo.cls(DISC, 'Discovery'); snd = repo.cls(DISC, 'LLDPSender')
  pin = q.find_method(repo, disc, '_handle_openflow_PacketIn', 'C19'); dl = q.find_method(repo, disc, '_delete_links', 'C19')
  exp = q.find_method(repo, disc, '_expire_links', 'C19'); cdown = q.find_method(repo, disc, '_handle_openflow_ConnectionDown', 'C19')
  mk = q.find_method(repo, snd, '_create_discovery_packet', 'C19')
  for f in (pin, dl, exp, cdown, mk): ctx.analysed(f)

  # ---- D1 ownership ------------------------------------------------------------------------
  nw = 0
  for m in repo.modules.values():
    if 'adjacency' not in m.src: continue
    for cls in m.classes.values():
      for f in cls.methods.values():
        for kind, site in q.mutations_of_attr(f.node, 'adjacency'):
          base = site.func.value if isinstance(site, ast.Call) else None
          txt = norm(site)
          if cls is not disc and 'openflow_discovery' not in txt: continue      # same name in unrelated classes
          nw += 1
          good = cls is disc and (f.name in ('_handle_openflow_PacketIn', '_delete_links') or (f.name == '__init__' and kind == 'rebind'))
          ctx.ob('R-OWN', f, "adjacency written only by the probe handler and _delete_links (%s)" % kind, good, f.name if good else "%s changes the adjacency without announcing a LinkEvent" % f.qual, (m, site), 'D1')
    for f in m.funcs.values():
      for kind, site in q.mutations_of_attr(f.node, 'adjacency'):
        if 'openflow_discovery' in norm(site) or m is dmod:
          nw += 1
          ctx.bad('R-OWN', f, "adjacency written only by the probe handler and _delete_links (%s)" % kind, "%s changes the adjacency" % f.qual, (m, site), 'D1')
  ctx.floor('adjacency writers', nw, 3)
  g = q.cfg_of(pin)
  ins = [q.enclosing_stmt_node(g, st) for t, v, st, k in q.stores_in(pin.node, nested=False) if isinstance(t, ast.Subscript) and norm(t.value) == 'self.adjacency']
  addev = g.nodes_with_call(lambda c: call_name(c) in ('raiseEventNoErrors', 'raiseEvent') and len(c.args) >= 2 and norm(c.args[0]) == 'LinkEvent' and norm(c.args[1]) == 'True')
  anyev = g.nodes_with_call(lambda c: call_name(c) in ('raiseEventNoErrors', 'raiseEvent') and c.args and norm(c.args[0]) == 'LinkEvent')
  ctx.floor('link-added raise site', len(addev), 1)
  def absent_test (t):
    return isinstance(t, ast.Compare) and len(t.ops) == 1 and isinstance(t.ops[0], (ast.NotIn, ast.In)) and norm(t.comparators[0]) == 'self.adjacency'
  for e in addev:
    # the raise is guarded by `X not in self.adjacency`, tested before this packet's own insert: either directly, or through
    # a flag that was computed from that test before the insert ran
    good = False; key = None; how = ''
    for t_, pol_, b_ in g.guards(e):
      if isinstance(t_, (ast.For, ast.AsyncFor)): continue
      if absent_test(t_) and (pol_ == isinstance(t_.ops[0], ast.NotIn)):
        # direct test: no insert may lie between the test and ... the test itself decides; fine
        good = True; key = norm(t_.left); how = "under `%s`" % norm(t_)
      elif isinstance(t_, ast.Name) and pol_:
        d = q.single_def(pin.node, t_.id)
        if d is not None and absent_test(d) and isinstance(d.ops[0], ast.NotIn):
          dn = [n for n in g.nodes if n.kind == 'stmt' and isinstance(n.ast, ast.Assign) and n.ast.value is d]
          # the flag must be computed before any insert can have run
          if dn and not any(dn[0] in g.reachable(i) for i in ins if i is not None):
            good = True; key = norm(d.left); how = "under flag `%s = %s` computed before the insert" % (t_.id, norm(d))
    ctx.ob('R-DOM', pin, "a link is announced as added only when it was not yet in the adjacency", good, how if good else
           "LinkEvent(True) is raised without the not-yet-known test (facts %s): every refreshing probe announces the link again" % [f for f in q.fact_strs(g, e) if 'adjacency' in f], (dmod, e.ast), 'D1')
    # the announcement goes together with the insert: on every path that raises, an insert of the same key happens
    same = [i for i in ins if i is not None and (g.dominates(i, e) or g.postdominates(i, e))]
    good = bool(same)
    ctx.ob('R-EFFECT', pin, "the announcement goes together with the insert", good, "insert and raise on the same paths" if good else "link announced but not stored (or vice versa)", (dmod, e.ast), 'D1')
    c = [c for c in q.node_calls(e) if c.args and norm(c.args[0]) == 'LinkEvent'][0]
    ctx.ob('R-AGREE', pin, "the announced link is the stored one", len(c.args) >= 3 and norm(c.args[2]) in _link_names(pin), norm(c)[:70], (dmod, c), 'D1')
  for e in anyev:
    if e not in addev: ctx.bad('R-OWN', pin, "probe handling announces only additions", "`%s`" % e.text(60), (dmod, e.ast), 'D1')
  for i in ins:
    st = i.ast
    ctx.ob('R-AGREE', pin, "adjacency entries are keyed by the link and stamped with the current time (`%s`)" % norm(st)[:40], norm(st.targets[0].slice) in _link_names(pin) and norm(st.value) == 'time.time()', norm(st), (dmod, st), 'D1')
  # recurring timers: recoco's Timer stops for good when its callback returns False (selfStoppable defaults to True) - a
  # periodic job of this component must never return it
  def may_return_false (f_, depth=0):
    out = []
    for r_ in q.returns_of(f_.node):
      v = r_.value
      if v is None: continue
      if isinstance(v, ast.Constant):
        if v.value is False: out.append((r_, 'False'))
        continue
      if isinstance(v, (ast.Compare,)) or (isinstance(v, ast.UnaryOp) and isinstance(v.op, ast.Not)) or (isinstance(v, ast.Call) and call_name(v) in ('bool', 'any', 'all', 'isinstance', 'hasattr')):
        out.append((r_, norm(v))); continue
      if isinstance(v, ast.Call) and isinstance(v.func, ast.Attribute) and norm(v.func.value) == 'self' and depth < 3:
        m_ = disc.find_method(v.func.attr)
        if m_ is not None:
          sub = may_return_false(m_, depth + 1)
          if sub: out.append((r_, "%s -> %s" % (norm(v)[:40], sub[0][1])))
    return out
  n_t = 0
  for f_ in disc.methods.values():
    for c_ in calls_in(f_.node, nested=True):
      if call_name(c_) != 'Timer' or len(c_.args) < 2: continue
      rec = kwarg(c_, 'recurring', 3); stp = kwarg(c_, 'selfStoppable', 8)
      if rec is None or norm(rec) != 'True' or (stp is not None and norm(stp) == 'False'): continue
      cb = c_.args[1]
      m_ = disc.find_method(cb.attr) if isinstance(cb, ast.Attribute) and norm(cb.value) == 'self' else None
      if m_ is None: continue
      n_t += 1; ctx.analysed(m_)
      fr = may_return_false(m_)
      ctx.ob('R-EFFECT', m_, "the recurring timer's callback never returns False", not fr, "returns nothing / nothing that can be False" if not fr else
             "`%s` can hand False back to the recurring Timer (%s): the timer treats that as 'cancel' - after the first check that finds nothing to expire, link expiry never runs again and links of a silent "
             "switch or a cut cable stay in the adjacency for ever" % (norm(fr[0][0])[:50], fr[0][1]), (dmod, fr[0][0]) if fr else m_, 'D1')
  ctx.floor('recurring timers of the discovery component', n_t, 1)
  g2 = q.cfg_of(dl); lp = dl.params[1]
  rmev = g2.nodes_with_call(lambda c: call_name(c) in ('raiseEventNoErrors', 'raiseEvent') and len(c.args) >= 2 and norm(c.args[0]) == 'LinkEvent' and norm(c.args[1]) == 'False')
  pops = g2.nodes_with_call(lambda c: call_name(c) in ('pop',) and norm(c.func.value) == 'self.adjacency') + \
         [q.enclosing_stmt_node(g2, s) for k, s in q.mutations_of_attr(dl.node, 'adjacency') if k == 'delitem']
  ctx.floor('link-removed raise site', len(rmev), 1); ctx.floor('adjacency pop site', len(pops), 1)
  loops = [(s_, h, a) for (s_, h, a) in g2.loop_nodes if isinstance(s_, ast.For)]
  # by value: three links withdrawn from an adjacency of four (one of the three already gone), events and table recorded
  sim = _withdraw_by_value(repo, dmod, disc, dl, g2, lp, rmev)
  if sim is not None:
    events, finals = sim
    want_ev = ['L1', 'L2', 'L3']
    okev = all(sorted(l for l, present in ev) == want_ev for ev in events) and bool(events)
    ctx.ob('R-ALL', dl, "every withdrawn link is announced removed exactly once", okev, "3 links withdrawn, 3 removal events, one per link" if okev else
           "withdrawing L1, L2, L3 announces %s: links are announced removed for only some of the withdrawn links (or more than once)" % [[l for l, p_ in ev] for ev in events][:2], dl, 'D1')
    okpop = all(sorted(f_) == ['L4'] for f_ in finals) and bool(finals)
    ctx.ob('R-ALL', dl, "every withdrawn link is popped exactly once", okpop, "adjacency {L1, L2, L4} minus (L1, L2, L3) leaves L4" if okpop else
           "withdrawing L1, L2, L3 from an adjacency holding L1, L2, L4 leaves %s" % [sorted(f_) for f_ in finals][:2], dl, 'D1')
    stale = [l for ev in events for l, present in ev if present]
    ctx.ob('R-ORDER', dl, "a link is out of the adjacency when its removal is announced", not stale, "no announced link is still in the table" if not stale else
           "LinkEvent(removed) for %s is raised while the link is still in the adjacency: the spanning-tree component recomputes its tree from the stale adjacency inside the "
           "handler and keeps flooding over the dead link (nothing triggers another recomputation)" % stale[0], dl, 'D1')
  for what, nodes in ((("announced removed", rmev), ("popped", pops)) if sim is None else ()):
    for n in nodes:
      lo = [(s_, h, a) for (s_, h, a) in loops if n in g2.loop_body_nodes(h)]
      good = len(lo) == 1 and norm(lo[0][0].iter) == lp and not [x for x in g2.nodes if x.kind in ('break', 'return') and x in g2.reachable(lo[0][1]) and any(m is lo[0][2] for m, l in x.succ)]
      per = g2.interval(lambda x: x is n, start=[b for b in g2.nodes if b.kind == 'branch' and lo and b.label[0] is lo[0][0] and b.label[1] is True][0], stop=lo[0][1]) if lo else None
      if per == (0, 1) and lo and what == 'popped':
        # `if link in self.adjacency: del self.adjacency[link]` is pop(link, None) spelled out
        inner = [(t_, pol_) for t_, pol_, b_ in g2.guards(n) if not isinstance(t_, (ast.For, ast.AsyncFor)) and g2.dominates(lo[0][1], b_)]
        if len(inner) == 1 and inner[0][1] and isinstance(inner[0][0], ast.Compare) and isinstance(inner[0][0].ops[0], ast.In) and norm(inner[0][0].comparators[0]) == 'self.adjacency' \
           and norm(inner[0][0].left) == norm(lo[0][0].target): per = (1, 1)
      ctx.ob('R-ALL', dl, "every withdrawn link is %s exactly once" % what, good and per == (1, 1), "for link in %s: once per link" % lp if good and per == (1, 1) else
             "`%s` is not executed once for every link of `%s` (loop %s, per-iteration count %s): links are %s for only some of the withdrawn links" % (n.text(40), lp, [norm(l[0].iter) for l in lo], per, what), (dmod, n.ast), 'D1')
  for e in rmev:
    c = [c for c in q.node_calls(e) if c.args and norm(c.args[0]) == 'LinkEvent'][0]
    lo = [(s_, h, a) for (s_, h, a) in loops if e in g2.loop_body_nodes(h)]
    ctx.ob('R-AGREE', dl, "the announced link is the loop's link", bool(lo) and len(c.args) >= 3 and norm(c.args[2]) == norm(lo[0][0].target), norm(c)[:60], (dmod, c), 'D1')
  for e in (rmev if sim is None else ()):
    good = bool(pops) and all((p_ not in g2.reachable(e)) or g2.dominates(p_, e) for p_ in pops) and any(e in g2.reachable(p_) for p_ in pops)
    ctx.ob('R-ORDER', dl, "a link is out of the adjacency when its removal is announced", good, "pop precedes the announcement" if good else
           "LinkEvent(removed) is raised while the link is still in the adjacency: the spanning-tree component recomputes its tree from the stale adjacency inside the "
           "handler and keeps flooding over the dead link (nothing triggers another recomputation)", (dmod, e.ast), 'D1')
  others = []
  for f in disc.methods.values():
    for c in calls_in(f.node, nested=True):
      if call_name(c) in ('raiseEventNoErrors', 'raiseEvent') and len(c.args) >= 2 and norm(c.args[0]) == 'LinkEvent' and norm(c.args[1]) == 'False' and f is not dl: others.append((f, c))
  ctx.ob('R-OWN', disc.qual, "link removal is announced only by _delete_links", not others, "single site" if not others else "%s also announces removals" % others[0][0].qual, disc, 'D1')
  # callers pass links drawn from the adjacency
  for f in disc.methods.values():
    cl_ = None
    for c in calls_in(f.node, nested=True):
      if call_name(c) == '_delete_links' and c.args:
        a = c.args[0]
        src = a if isinstance(a, ast.ListComp) else (q.single_def(f.node, a.id) if isinstance(a, ast.Name) else None)
        good = isinstance(src, ast.ListComp) and 'self.adjacency' in norm(src.generators[0].iter)
        if not good and isinstance(a, ast.Name):
          if cl_ is None: cl_ = q.collected_lists(f)
          good = any(L_.name == a.id and 'self.adjacency' in norm(L_.it) and norm(L_.elt) in [norm(x) for x in ast.walk(L_.var) if isinstance(x, ast.Name)] + [norm(L_.var)] for L_ in cl_)
        ctx.ob('R-AGREE', f, "withdrawn links are drawn from the adjacency", good, "selection from self.adjacency" if good else "argument `%s` is not a selection from self.adjacency" % norm(a), (dmod, c), 'D1')
  # ConnectionDown: either end - decided by evaluation on a sample adjacency: with links 1->2, 2->3, 3->4, 2->1 and switch 2
  # lost, exactly the three links that touch switch 2 are withdrawn (comprehension, loop-with-continue, helper: all alike)
  gcd = q.cfg_of(cdown); ev = cdown.params[1]
  L12, L23, L34, L21 = q.Rec(dpid1=1, port1=7, dpid2=2, port2=2), q.Rec(dpid1=2, port1=7, dpid2=3, port2=2), q.Rec(dpid1=3, port1=2, dpid2=4, port2=2), q.Rec(dpid1=2, port1=8, dpid2=1, port2=2)
  dcall = gcd.nodes_with_call(lambda c: call_name(c) == '_delete_links' and c.args)
  if dcall:
    c_ = [c for c in q.node_calls(dcall[0]) if call_name(c) == '_delete_links'][0]
    vals = q.values_at(repo, dmod, gcd, q.Env({'self.adjacency': [L12, L23, L34, L21], ev + '.dpid': 2}), dcall[0], c_.args[0], disc)
    got = None
    if len(vals) == 1:
      v_ = list(vals)[0]
      if isinstance(v_, str) and v_.startswith('['): got = v_
    want = repr([L12, L23, L21])
    if vals == {'?'} or got is None and not all(isinstance(x, str) for x in vals):
      ctx.undecided('R-AGREE', cdown, "a disconnected switch's links are withdrawn in both directions", "selection could not be evaluated on the sample adjacency", cdown, 'D1')
    else:
      good = got == want
      ctx.ob('R-AGREE', cdown, "a disconnected switch's links are withdrawn in both directions", good, "links 1->2, 2->3, 2->1 selected for switch 2; 3->4 kept" if good else
             "on the sample adjacency {1->2, 2->3, 3->4, 2->1} losing switch 2 withdraws %s: links pointing *to* (or from) the lost switch stay in the adjacency, or links of other switches are withdrawn "
             "(a port number equal to the dpid must not select a link)" % (got,), cdown, 'D1')
  else: ctx.undecided('R-AGREE', cdown, "links of a lost switch", "selection not found", cdown, 'D1')
  lc = [n for n in ast.walk(exp.node) if isinstance(n, ast.ListComp)]
  if lc:
    cond = lc[0].generators[0].ifs[0] if lc[0].generators[0].ifs else None
    facts = q.facts_of(cond, True) if isinstance(cond, ast.Compare) else []
    good = any((norm(l) == 'timestamp + self._link_timeout' and o in ('<', '<=') and norm(r) == 'now') or (norm(r) == 'timestamp + self._link_timeout' and o in ('>', '>=') and norm(l) == 'now') or
               (norm(l) == 'now - timestamp' and o in ('>', '>=') and norm(r) == 'self._link_timeout') for l, o, r in facts)
    ctx.ob('R-AGREE', exp, "a link expires only when its last probe is older than the link timeout", good, norm(cond), (dmod, lc[0]), 'D1')
    ctx.ob('R-AGREE', exp, "expiry scans every adjacency entry", 'self.adjacency.items()' in norm(lc[0].generators[0].iter), norm(lc[0].generators[0].iter), (dmod, lc[0]), 'D1')
  init = disc.methods.get('__init__')
  tm = [c for c in calls_in(init.node) if call_name(c) == 'Timer'] if init else []
  good = any('_expire_links' in norm(c) and norm(kwarg(c, 'recurring', 2)) == 'True' for c in tm)
  ctx.ob('R-AGREE', disc.qual, "expiry runs on a recurring timer", good, norm(tm[0]) if tm else "no timer", disc, 'D1')

  # "is this a host-facing port" (the spanning tree keeps flooding on such ports): answered from the adjacency table, or from
  # state that is kept in step with it.  Two directed links share both their end ports, so state that forgets a port whenever
  # *one* link on it is removed is out of step as soon as one direction of a link expires.
  iep = disc.methods.get('is_edge_port')
  if iep is not None and len(iep.params) >= 3:
    # by evaluation on a sample adjacency with one one-way link 1.1 -> 2.1: both of its ends are inter-switch ports, any other port is an edge
    gi_ = q.cfg_of(iep)
    link_ = q.Rec(dpid1=1, port1=1, dpid2=2, port2=1)
    res_ = {}
    for (d_, p_) in ((1, 1), (2, 1), (1, 2), (3, 1)):
      outs_ = set()
      for pth_, e_ in q.paths_under(repo, dmod, gi_, q.Env({'self.adjacency': [link_], iep.params[1]: d_, iep.params[2]: p_}), gi_.entry, [n_ for n_ in gi_.nodes if n_.kind == 'return'], disc, limit=40):
        try: outs_.add(bool(q.eval_env2(repo, dmod, pth_[-1].ast.value, e_, disc)))
        except Exception: outs_.add('?')
      res_[(d_, p_)] = list(outs_)[0] if len(outs_) == 1 else '?'
    want_ = {(1, 1): False, (2, 1): False, (1, 2): True, (3, 1): True}
    if '?' in res_.values():
      ctx.undecided('R-AGREE', iep, "both ends of a discovered link are inter-switch ports (sample adjacency)", "not evaluable: %s" % res_, iep, 'D3')
    else:
      ctx.ob('R-AGREE', iep, "both ends of a discovered link are inter-switch ports (sample adjacency)", res_ == want_, "one-way link 1.1 -> 2.1: neither end is an edge port" if res_ == want_ else
             "with the single link 1.1 -> 2.1 in the adjacency is_edge_port gives %s, expected %s: the sending end of a link discovered in one direction only counts as host-facing and keeps flooding off the tree - "
             "flooded frames loop" % (sorted(res_.items()), sorted(want_.items())), iep, 'D3')
  if iep is not None:
    ctx.analysed(iep)
    reads = set(x.attr for x in ast.walk(iep.node) if isinstance(x, ast.Attribute) and norm(x.value) == 'self' and isinstance(x.ctx, ast.Load))
    if 'adjacency' in reads:
      ctx.ob('R-OWN', iep, "host-facing ports are determined from the adjacency table", True, "reads self.adjacency", iep, 'D3')
    else:
      verdict = None
      for X in sorted(reads):
        for f_ in disc.methods.values():
          gf_ = q.cfg_of(f_)
          for n in gf_.nodes:
            for c in q.node_calls(n):
              if call_name(c) in ('difference_update', 'discard', 'remove', 'pop', 'clear') and norm(c.func.value) == 'self.' + X:
                fs = q.fact_strs(gf_, n)
                if not any('adjacency' in f2 for f2 in fs):
                  verdict = (X, f_, c)
      if verdict:
        X, f_, c = verdict
        ctx.bad('R-OWN', iep, "host-facing ports are determined from the adjacency table",
                "is_edge_port answers from self.%s, and %s shrinks it with `%s` for every removed link without looking at the links that remain: the two directions of a link (and parallel links) share their end ports, "
                "so when one direction times out the ports are reported as host-facing while the other direction is still in the adjacency - the spanning tree re-enables flooding on an inter-switch port" % (X, f_.name, norm(c)[:50]), (dmod, c), 'D3')
      else:
        ctx.undecided('R-OWN', iep, "host-facing ports are determined from the adjacency table", "answers from %s; its maintenance is not recognised" % sorted(reads), iep, 'D3')
  # configuration is complete before it is consumed: in the constructor, an attribute that a property is computed from is set
  # before that property is read (the probe sender is built from send_cycle_time, which follows the link timeout)
  if init is not None:
    gi_ = q.cfg_of(init)
    props = dict((nm_, f_) for nm_, f_ in disc.methods.items() if 'property' in f_.decorators)
    for pn_, pf_ in props.items():
      deps = set(x.attr for x in ast.walk(pf_.node) if isinstance(x, ast.Attribute) and norm(x.value) == 'self' and isinstance(x.ctx, ast.Load))
      reads = [q.enclosing_stmt_node(gi_, x) for x in ast.walk(init.node) if isinstance(x, ast.Attribute) and x.attr == pn_ and norm(x.value) == 'self' and isinstance(x.ctx, ast.Load)]
      reads = [r_ for r_ in reads if r_ is not None]
      if not reads: continue
      for t, v, st, k in q.stores_in(init.node, nested=False):
        if isinstance(t, ast.Attribute) and norm(t.value) == 'self' and t.attr in deps:
          sn = q.enclosing_stmt_node(gi_, st)
          late = [r_ for r_ in reads if sn is not None and sn in gi_.reachable(r_, exc=False) and r_ not in gi_.reachable(sn, exc=False)]
          ctx.ob('R-ORDER', init, "`self.%s` is set before `self.%s`, which is computed from it, is read" % (t.attr, pn_), not late, "set first" if not late else
                 "the constructor reads self.%s (`%s`) before it assigns self.%s: the probe sender is built from the default cycle time whatever link timeout was asked for, while links expire after the configured timeout - "
                 "with a timeout shorter than the default cycle live links are announced removed and re-added over and over" % (pn_, late[0].text(50), t.attr), (dmod, st), 'D1')
  # ---- D2 writer / reader -------------------------------------------------------------------------
  wsrc = {}
  for t, v, st, k in q.stores_in(mk.node):
    if isinstance(t, ast.Attribute) and v is not None: wsrc[norm(t)] = v
  cid = wsrc.get('chassis_id.id'); sdp = wsrc.get('sysdesc.payload')
  # decided by evaluation: for dpid 0x1a2b3c the text written is b'dpid:1a2b3c' (what the reader's startswith / [5:] / base-16 expects)
  gmk = q.cfg_of(mk)
  def written (e):
    if e is None: return None
    st_ = [st for t, v, st, k in q.stores_in(mk.node) if v is e]
    n_ = q.enclosing_stmt_node(gmk, st_[0]) if st_ else None
    if n_ is None: return None
    return q.values_at(repo, dmod, gmk, q.Env({mk.params[0]: 0x1a2b3c}), n_, e, None)
  # the TLV objects by the constructor that built them; their fields as they stand when the probe is returned (set by
  # attribute store or by constructor keyword alike)
  tlv_var = {}
  for t, v, st, k in q.stores_in(mk.node):
    if isinstance(t, ast.Name) and isinstance(v, ast.Call) and call_name(v) in ('chassis_id', 'system_description'): tlv_var[call_name(v)] = t.id
  rets_ = [n for n in gmk.nodes if n.kind == 'return']
  def at_return (expr_text):
    if not rets_: return None
    try: e2 = ast.parse(expr_text, mode='eval').body
    except SyntaxError: return None
    return q.values_at(repo, dmod, gmk, q.Env({mk.params[0]: 0x1a2b3c}), rets_[0], e2, None)
  for what, e_, fld in (("chassis id", cid, ('chassis_id', 'id')), ("system description", sdp, ('system_description', 'payload'))):
    vals = written(e_)
    if (not vals or '?' in vals) and fld[0] in tlv_var:
      vals = at_return('%s.%s' % (tlv_var[fld[0]], fld[1]))
    good = True if vals == {b'dpid:1a2b3c'} else (None if (not vals or '?' in vals) else False)
    ctx.ob('R-AGREE', mk, "probe carries the datapath id as 'dpid:' + hex digits (%s)" % what, good, "dpid 0x1a2b3c -> b'dpid:1a2b3c'" if good else
           "for dpid 0x1a2b3c the %s TLV carries %s; the receiving side expects b'dpid:' followed by the hex digits" % (what, sorted(map(repr, vals)) if vals else norm(e_) if e_ is not None else '?'), mk, 'D2')
  pidc = [c for c in calls_in(mk.node) if call_name(c) == 'port_id']
  good = bool(pidc) and norm(kwarg(pidc[0], 'id')) == 'str(port_num)' and 'SUB_PORT' in norm(kwarg(pidc[0], 'subtype'))
  ctx.ob('R-AGREE', mk, "probe carries the port number as decimal text", good, norm(pidc[0]) if pidc else "?", mk, 'D2')
  # the TLVs in the order they are appended (a loop over a literal tuple counts element by element), each named by the
  # constructor that built it
  def ctor_of (e):
    if isinstance(e, ast.Call): return call_name(e)
    if isinstance(e, ast.Name):
      d = q.single_def(mk.node, e.id)
      if isinstance(d, ast.Call): return call_name(d)
    return norm(e)
  order = []
  def walk_ (body):
    for st_ in body:
      if isinstance(st_, ast.For) and isinstance(st_.iter, (ast.Tuple, ast.List)) and isinstance(st_.target, ast.Name):
        for el in st_.iter.elts:
          for c in calls_in(st_):
            if call_name(c) == 'append' and 'tlvs' in norm(c.func.value) and c.args and norm(c.args[0]) == st_.target.id: order.append(ctor_of(el))
      elif isinstance(st_, ast.Expr) and isinstance(st_.value, ast.Call) and call_name(st_.value) == 'append' and 'tlvs' in norm(st_.value.func.value) and st_.value.args:
        order.append(ctor_of(st_.value.args[0]))
      elif isinstance(st_, ast.Expr) and isinstance(st_.value, ast.Call) and call_name(st_.value) == 'extend' and 'tlvs' in norm(st_.value.func.value) and st_.value.args and isinstance(st_.value.args[0], (ast.Tuple, ast.List)):
        order.extend(ctor_of(el) for el in st_.value.args[0].elts)
      elif isinstance(st_, (ast.If, ast.With, ast.Try)):
        for f_ in ('body', 'orelse', 'finalbody'): walk_(getattr(st_, f_, []) or [])
  walk_(mk.node.body)
  ctx.ob('R-AGREE', mk, "TLV order is chassis id, port id, ttl, system description, end", order == ['chassis_id', 'port_id', 'ttl', 'system_description', 'end_tlv'], " ".join(order), mk, 'D2')
  # reader
  nested = q.nested_defs(pin.node)
  lk = nested.get('lookInSysDesc')
  src = norm(pin.node)
  gpin = q.cfg_of(pin)
  linkn = gpin.nodes_with_call(lambda c: call_name(c) == 'Link')
  for idx, typ in ((0, 'CHASSIS_ID_TLV'), (1, 'PORT_ID_TLV'), (2, 'TTL_TLV')):
    # whichever way the comparison is written: with TLV idx of another type no link is built
    def is_cmp (e, idx=idx, typ=typ):
      if not (isinstance(e, ast.Compare) and len(e.ops) == 1 and isinstance(e.ops[0], (ast.Eq, ast.NotEq))): return False
      a, b = norm(e.left), norm(e.comparators[0])
      return (a.endswith('tlvs[%d].tlv_type' % idx) and b.endswith(typ)) or (b.endswith('tlvs[%d].tlv_type' % idx) and a.endswith(typ))
    cmps = [n for n in gpin.nodes if n.kind == 'cond' and is_cmp(n.ast)]
    if not cmps or not linkn:
      other = [norm(n.ast) for n in gpin.nodes if n.kind == 'cond' and 'tlv_type' in norm(n.ast)]
      if other or not linkn:
        ctx.undecided('R-AGREE', pin, "reader expects TLV %d to be %s" % (idx, typ), "type tests are written in a form that is not recognised (%s)" % other[:3], pin, 'D2')
      else:
        ctx.bad('R-AGREE', pin, "reader expects TLV %d to be %s" % (idx, typ), "no test of TLV %d's type before a link is derived from the packet" % idx, pin, 'D2')
      continue
    mism = [((lambda e, f=is_cmp: f(e) and isinstance(e.ops[0], ast.NotEq)), True), ((lambda e, f=is_cmp: f(e) and isinstance(e.ops[0], ast.Eq)), False)]
    reach = q.reach_under(repo, pin.module, gpin, q.Env({}, mism), None)
    bad_ = [n for n in linkn if n in reach]
    ctx.ob('R-AGREE', pin, "reader expects TLV %d to be %s" % (idx, typ), not bad_, norm(cmps[0].ast) if not bad_ else
           "a link is still derived from a packet whose TLV %d is not %s" % (idx, typ), pin, 'D2')
  if lk is None:
    ctx.undecided('R-AGREE', pin, "system-description reader", "nested lookInSysDesc not found", pin, 'D2')
  else:
    lg = q.cfg_of(lk)
    txt = [n for n in lg.nodes if n.kind == 'cond' and "startswith('dpid:')" in norm(n.ast)]
    binf = lg.nodes_with_call(lambda c: call_name(c) == 'unpack' and '!Q' in norm(c))
    ints = [c for c in calls_in(lk) if call_name(c) == 'int' and len(c.args) == 2]
    good = bool(ints) and isinstance(ints[0].args[0], ast.Subscript) and norm(ints[0].args[0].slice) == '%d:' % len('dpid:') and norm(ints[0].args[1]) == '16'
    ctx.ob('R-AGREE', pin, "reader strips exactly the 'dpid:' prefix and parses base 16", good, norm(ints[0]) if ints else "no int(.., 16)", (dmod, lk), 'D2')
    sl = [n for n in ast.walk(lk) if isinstance(n, ast.For) and 'tlvs[3:]' in norm(n.iter)]
    ctx.ob('R-AGREE', pin, "system description is searched after the three mandatory TLVs", bool(sl), "for t in lldph.tlvs[3:]", (dmod, lk), 'D2')
    if txt and binf:
      # every path to the binary fallback has first gone through the loop that tries the textual form
      heads = [h for (s_, h, a) in lg.loop_nodes if any(t in lg.loop_body_nodes(h) for t in txt)]
      good = bool(heads) and all(lg.dominates(heads, b) for b in binf)
      ctx.ob('R-ORDER', pin, "the textual 'dpid:<hex>' form is tried before the 8-byte binary fallback", good, "startswith('dpid:') dominates struct.unpack('!Q')" if good else
             "the 8-byte binary interpretation is reached without first trying the textual form: POX's own payload 'dpid:abc' (3 hex digits) is exactly 8 bytes and decodes as a garbage datapath id - that switch's links are never discovered", (dmod, lk), 'D2')
    elif binf:
      ctx.bad('R-ORDER', pin, "the textual 'dpid:<hex>' form is tried before the 8-byte binary fallback", "textual parse not found", (dmod, lk), 'D2')
  ctx.ob('R-AGREE', pin, "port id is read as decimal text", 'lldph.tlvs[1].id.isdigit()' in src and 'int(lldph.tlvs[1].id)' in src, "isdigit() / int()", pin, 'D2')
  lkc = [c for c in calls_in(pin.node) if norm(c.func) == 'Discovery.Link']
  good = len(lkc) == 1 and [norm(a) for a in lkc[0].args] == ['originatorDPID', 'originatorPort', pin.params[1] + '.dpid', pin.params[1] + '.port']
  ctx.ob('R-AGREE', pin, "a link points from the probe's sender to the receiving switch port", good, norm(lkc[0]) if lkc else "?", pin, 'D2')
  own = [n for n in g.nodes if n.kind == 'return' and any('originatorDPID, originatorPort' in f for f in q.fact_strs(g, n))]
  ctx.ob('R-DOM', pin, "a port's own probe never creates a link", bool(own), "return when sender == receiver", pin, 'D2')
  known = [n for n in g.nodes if n.kind == 'return' and any('originatorDPID not in core.openflow.connections' in f for f in q.fact_strs(g, n))]
  ctx.ob('R-DOM', pin, "probes from unknown switches create no link", bool(known), "return when the sender is not connected", pin, 'D2')

  # a ConnectionDown can be that of a *stale* connection: a datapath that reconnected before its old connection closed stays
  # registered under the newer connection (of_01), and the event for the old one comes later.  A handler that withdraws what it
  # knows about `event.dpid` first makes sure the connection that went down is the one registered for that dpid
  n_down = 0
  for c_ in (snd, disc):
    h_ = c_.methods.get('_handle_openflow_ConnectionDown') or c_.methods.get('_handle_ConnectionDown')
    if h_ is None: continue
    ctx.analysed(h_); gd_ = q.cfg_of(h_); ev_ = h_.params[1] if len(h_.params) > 1 else 'event'
    wd_ = [n_ for n_ in gd_.nodes if any(call_name(x_) in ('del_switch', '_delete_links') for x_ in q.node_calls(n_))]
    for n_ in wd_:
      n_down += 1
      fs_ = q.fact_strs(gd_, n_)
      good = any(('getConnection' in f_ or 'connections' in f_) and (ev_ + '.connection') in f_ for f_ in fs_)
      ctx.ob('R-DOM', h_, "state of `%s.dpid` is withdrawn only when the connection that went down is the registered one" % ev_, good,
             "guarded by a comparison of the registry entry with %s.connection" % ev_ if good else
             "`%s` runs for every ConnectionDown of the dpid (facts %s): when a switch reconnects before its stale connection closes, the later ConnectionDown of the stale one removes the live connection's probe items / links - "
             "no probe leaves that switch any more, its links expire and are never re-discovered" % (n_.text(50), fs_[-2:]), (dmod, n_.ast), 'D1')
  ctx.floor('ConnectionDown withdrawal sites in discovery', n_down, 2)
  # ---- D3 flood bits ------------------------------------------------------------------------------------
  ut = smod.funcs.get('_update_tree'); cst = smod.funcs.get('_calc_spanning_tree')
  if ut is None or cst is None: raise AnalysisError("spanning_tree._update_tree/_calc_spanning_tree vanished")
  ctx.analysed(ut); ctx.analysed(cst)
  # the remembered flood bits mirror what was last sent to a switch; a switch that connects (again) starts with flooding enabled on
  # every port, so what is remembered about it must be forgotten in a handler of its connection going up or down, keyed by the event's dpid
  life = [f_ for nm_, f_ in smod.funcs.items() if nm_ in ('_handle_ConnectionUp', '_handle_ConnectionDown', '_handle_openflow_ConnectionUp', '_handle_openflow_ConnectionDown')]
  resets = []
  for f_ in life:
    ctx.analysed(f_); gl = q.cfg_of(f_); ev = f_.params[0] if f_.params else 'event'
    for n in gl.nodes:
      hit = False
      for c in q.node_calls(n):
        if call_name(c) == 'clear' and norm(c.func.value) in ('_prev[%s.dpid]' % ev, '_prev[%s.connection.dpid]' % ev): hit = True
        if call_name(c) == 'pop' and norm(c.func.value) == '_prev' and c.args and norm(c.args[0]) in ('%s.dpid' % ev, '%s.connection.dpid' % ev): hit = True
      if isinstance(n.ast, ast.Delete) and any(norm(t) in ('_prev[%s.dpid]' % ev,) for t in n.ast.targets): hit = True
      if hit: resets.append((f_, gl, n))
  uncond = [(f_, n) for f_, gl, n in resets if gl.postdominates([n], gl.entry)]
  if any(nm_ in smod.funcs for nm_ in ('_handle_ConnectionUp', '_handle_openflow_ConnectionUp')):
    # the rule reads the per-switch form _prev[dpid][port]; kept flat (keyed by (dpid, port)) "forget this switch" is a sweep over the
    # keys, which it does not follow
    pv_ = smod.assigns.get('_prev')
    nested_prev = pv_ is not None and 'defaultdict' in norm(pv_)
    ctx.ob('R-EFFECT', smod.short + ':_prev', "what is remembered about a switch's flood bits is forgotten when its connection comes up or goes down", bool(uncond) if (uncond or nested_prev) else None,
           "%s: `%s` on every path" % (uncond[0][0].name, uncond[0][1].text(40)) if uncond else
           "no connection-up/down handler forgets _prev[dpid]%s: when a switch reconnects with all ports flooding, port-mods that would disable flooding on its non-tree ports are skipped as 'already sent' - a flooded frame loops"
           % (" (a reset elsewhere only runs for switches still present in the computed tree)" if any('_prev' in norm(x) and call_name(x) in ('pop', 'clear') for x in calls_in(ut.node)) else ""), life[0] if life else ut, 'D3')
  # ... and that handler is subscribed whenever the component runs, not only in some modes
  for f_, n in uncond[:1]:
    regs = []
    for fn_ in [x for x in ast.walk(smod.tree) if isinstance(x, ast.FunctionDef)]:
      for c_ in calls_in(fn_, nested=False) if True else []:
        if call_name(c_) in ('addListenerByName', 'addListener', 'add_listener') and any(isinstance(a_, ast.Name) and a_.id == f_.name for a_ in c_.args): regs.append((fn_, c_))
    auto = f_.name.startswith('_handle_openflow_') and any(call_name(c_) == 'listen_to_dependencies' for c_ in calls_in(smod.tree, nested=True))
    if not regs and not auto:
      ctx.undecided('R-EFFECT', smod.short + ':' + f_.name, "the handler that forgets the remembered bits is subscribed in every mode", "subscription of %s not found" % f_.name, f_, 'D3')
    for fn_, c_ in regs:
      gr_ = q.cfg_of(fn_); rn_ = q.enclosing_stmt_node(gr_, c_)
      always = rn_ is not None and gr_.postdominates([rn_], gr_.entry)
      ctx.ob('R-EFFECT', smod.short + ':' + f_.name, "the handler that forgets the remembered bits is subscribed in every mode", always, "`%s` on every path of %s" % (norm(c_)[:50], fn_.name) if always else
             "`%s` runs only under %s: in the other modes nothing forgets _prev[dpid] when a switch reconnects (all its ports flooding again) - the port-mods that would block its non-tree ports are skipped as already sent, and a flooded frame loops"
             % (norm(c_)[:60], [x for x in q.fact_strs(gr_, rn_)][-2:] if rn_ is not None else '?'), (smod, c_), 'D3')
  # every announced link change recomputes the tree: discovery reports the two directions of a link one at a time, so after the
  # first direction both ends are (rightly) blocked - skipping the event for the second direction because "both ports are blocked
  # anyway" leaves the only link between two parts of the network out of the tree for good
  hle = smod.funcs.get('_handle_LinkEvent') or smod.funcs.get('_handle_openflow_discovery_LinkEvent')
  if hle is None: raise AnalysisError("spanning_tree._handle_LinkEvent vanished")
  ctx.analysed(hle); gh_ = q.cfg_of(hle)
  def _updates (c_, depth=0):
    if call_name(c_) == '_update_tree': return True
    callee_ = smod.funcs.get(call_name(c_)) if isinstance(c_.func, ast.Name) else None
    if callee_ is None or depth > 2 or callee_ is hle: return False
    gc_ = q.cfg_of(callee_)
    un_ = [n_ for n_ in gc_.nodes if any(_updates(c2, depth + 1) for c2 in q.node_calls(n_))]
    return bool(un_) and gc_.postdominates(un_, gc_.entry)
  upd_ = [n_ for n_ in gh_.nodes if any(_updates(c_) for c_ in q.node_calls(n_))]
  good = bool(upd_) and gh_.postdominates(upd_, gh_.entry)
  skip_ = [n_ for n_ in gh_.nodes if n_.kind == 'return' and not any(gh_.dominates(u_, n_) for u_ in upd_)]
  ctx.ob('R-EFFECT', hle, "every link event recomputes the tree", good, "_update_tree() on every path" if good else
         "a path through the link-event handler ends without _update_tree() (%s): a link whose second direction is reported while both ends are still blocked never enters the tree, "
         "and the ports of a link that went away are never re-enabled as host-facing" % ("return under %s" % q.fact_strs(gh_, skip_[0])[-2:] if skip_ else "no call on some path"), (smod, skip_[0].ast) if skip_ else hle, 'D3')
  g3 = q.cfg_of(ut)
  # decided by evaluation over (port in tree?, edge port?): the NO_FLOOD bit sent must be clear iff the port is a tree
  # port or an edge port; the port-mod is reached exactly when the remembered bit differs
  noflood = repo.try_const(smod, ast.parse('of.OFPPC_NO_FLOOD', mode='eval').body, None)
  pmn = g3.nodes_with_call(lambda c: call_name(c) == 'ofp_port_mod')
  def scen (in_tree, is_edge, remembered_same=False):
    ms = [((lambda e: isinstance(e, ast.Compare) and len(e.ops) == 1 and isinstance(e.ops[0], ast.In) and 'tree' in norm(e.comparators[0])), in_tree),
          ((lambda e: isinstance(e, ast.Compare) and len(e.ops) == 1 and isinstance(e.ops[0], ast.NotIn) and 'tree' in norm(e.comparators[0])), not in_tree),
          ((lambda e: isinstance(e, ast.Call) and call_name(e) == 'is_edge_port'), is_edge),
          ((lambda e: isinstance(e, ast.Compare) and '_prev' in norm(e.left) and isinstance(e.ops[0], (ast.Is, ast.Eq))), remembered_same),
          ((lambda e: isinstance(e, ast.Compare) and '_prev' in norm(e.left) and isinstance(e.ops[0], (ast.IsNot, ast.NotEq))), not remembered_same),
          ((lambda e: isinstance(e, ast.Compare) and norm(e.left).endswith('port_no') and 'OFPP_MAX' in norm(e.comparators[0]) and isinstance(e.ops[0], (ast.Lt,))), True),
          ((lambda e: isinstance(e, ast.Compare) and norm(e.left).endswith('port_no') and 'OFPP_MAX' in norm(e.comparators[0]) and isinstance(e.ops[0], (ast.GtE, ast.Gt))), False),
          ((lambda e: isinstance(e, ast.Compare) and isinstance(e.ops[0], ast.Is) and norm(e.comparators[0]) == 'None'), False),
          ((lambda e: isinstance(e, ast.Name) and e.id == '_hold_down'), False)]
    return q.Env({'tree': {'<sw>': [('x', 1)]}}, ms)
  res = {}
  if pmn and isinstance(noflood, int):
    c_ = [c for c in q.node_calls(pmn[0]) if call_name(c) == 'ofp_port_mod'][0]
    cfg_ = kwarg(c_, 'config')
    for it in (True, False):
      for ie in (True, False):
        res[(it, ie)] = q.values_at(repo, smod, g3, scen(it, ie), pmn[0], cfg_, None, limit=200) if cfg_ is not None else {'?'}
    good = all(res[(it, ie)] == {0 if (it or ie) else noflood} for it in (True, False) for ie in (True, False))
    ctx.ob('R-AGREE', ut, "flooding stays enabled on tree ports and on host-facing (edge) ports", good,
           "NO_FLOOD clear iff tree port or edge port (4 cases evaluated)" if good else
           "NO_FLOOD bit sent by (in tree, edge port): %s - expected 0 when either holds, %d otherwise" % (dict((k_, sorted(map(str, v_))) for k_, v_ in res.items()), noflood), ut, 'D3')
  else:
    ctx.undecided('R-AGREE', ut, "flooding stays enabled on tree ports and on host-facing (edge) ports", "port-mod site / NO_FLOOD constant not found", ut, 'D3')
  tp = q.single_def(ut.node, 'tree_ports')
  def second_of_each (e):
    # [x[1] for x in ports], {x[1] for ...}, set(x[1] for x in ports), list(...), tuple(...): the second component of every element, unfiltered
    if isinstance(e, ast.Call) and call_name(e) in ('set', 'list', 'tuple', 'frozenset') and len(e.args) == 1: e = e.args[0]
    if not isinstance(e, (ast.ListComp, ast.SetComp, ast.GeneratorExp)) or len(e.generators) != 1: return False
    gen = e.generators[0]
    return not gen.ifs and isinstance(gen.target, ast.Name) and norm(gen.iter) == 'ports' and isinstance(e.elt, ast.Subscript) and norm(e.elt.value) == gen.target.id and norm(e.elt.slice) == '1'
  ctx.ob('R-AGREE', ut, "tree ports are the port numbers of the switch's tree links", (tp is not None and second_of_each(tp)) if tp is not None else None, norm(tp) if tp is not None else "no single definition of tree_ports", ut, 'D3')
  pm = [c for c in calls_in(ut.node) if call_name(c) == 'ofp_port_mod']
  if pm:
    c = pm[0]
    good = norm(kwarg(c, 'mask')) == 'of.OFPPC_NO_FLOOD' and kwarg(c, 'config') is not None and norm(kwarg(c, 'port_no')).endswith('.port_no') and norm(kwarg(c, 'hw_addr')).endswith('.hw_addr') \
           and norm(kwarg(c, 'port_no')).split('.')[0] == norm(kwarg(c, 'hw_addr')).split('.')[0]
    ctx.ob('R-AGREE', ut, "port-mod sets exactly the NO_FLOOD bit, cleared when flooding is wanted", good, norm(c)[:110] if good else "port-mod is %s" % norm(c)[:140], (smod, c), 'D3')
  if pmn:
    reach_same = pmn[0] in q.reach_under_cp(repo, smod, g3, scen(True, False, remembered_same=True), None)
    reach_diff = pmn[0] in q.reach_under_cp(repo, smod, g3, scen(True, False, remembered_same=False), None)
    ctx.ob('R-DOM', ut, "a port-mod is skipped only when the remembered bit equals the new one", reach_diff and not reach_same,
           "sent iff the remembered bit differs" if reach_diff and not reach_same else "port-mod reachable with equal remembered bit: %s, with a different one: %s" % (reach_same, reach_diff), ut, 'D3')
  upd = [q.enclosing_stmt_node(g3, st) for t, v, st, k in q.stores_in(ut.node) if norm(t) in ('_prev[sw][p.port_no]', '_prev[sw, p.port_no]', '_prev[(sw, p.port_no)]') and v is not None and norm(v) == 'flood']
  snd_ = g3.nodes_with_call(lambda c: call_name(c) == 'send')
  ctx.ob('R-EFFECT', ut, "the remembered bit is updated whenever a port-mod is sent", bool(upd) and bool(snd_) and (g3.dominates(upd[0], snd_[0]) or g3.postdominates(upd[0], snd_[0])), "_prev updated with the send", ut, 'D3')
  # the bit is remembered before the port-mod goes out: when the send fails, whoever catches the failure forgets what was remembered
  # (otherwise a bit that never reached the switch counts as pushed and every later update skips that port)
  for sn_ in snd_:
    if not (upd and any(g3.dominates(u_, sn_) for u_ in upd)): continue
    hs_ = g3.handlers_for(sn_)
    if not hs_:
      ctx.ob('R-EFFECT', ut, "a failed port-mod is not remembered as sent", False, "the send is not inside a try: a failure leaves the updater with the bit remembered", (smod, sn_.ast), 'D3'); continue
    h_ = hs_[0]
    body_ = [x_ for st_ in h_.ast.body for x_ in ast.walk(st_)]
    forgets = any(isinstance(x_, ast.Call) and call_name(x_) in ('clear', 'pop') and '_prev' in norm(x_.func.value) for x_ in body_) or \
              any(isinstance(x_, ast.Delete) and any('_prev' in norm(t_) for t_ in x_.targets) for x_ in body_) or \
              any(isinstance(x_, ast.Raise) for x_ in body_) and len(hs_) > 1 and any(isinstance(y_, ast.Call) and call_name(y_) in ('clear', 'pop') and '_prev' in norm(y_.func.value) for y_ in ast.walk(hs_[1].ast))
    ctx.ob('R-EFFECT', ut, "a failed port-mod is not remembered as sent", forgets, "the handler that catches a failing send forgets _prev" if forgets else
           "`%s` catches a failing `%s` and carries on without forgetting `_prev`: the flood bit stored just before the send was never pushed to the switch but is remembered as pushed - every later update skips that port, "
           "and the NO_FLOOD bits on the switches stop forming a spanning tree" % (h_.text(30), sn_.text(30)), (smod, h_.ast), 'D3')
  if pmn:
    # unreachable for a virtual port (port_no >= OFPP_MAX), whichever way the test is written
    msv = [((lambda e: isinstance(e, ast.Compare) and norm(e.left).endswith('port_no') and 'OFPP_MAX' in norm(e.comparators[0]) and isinstance(e.ops[0], (ast.Lt,))), False),
           ((lambda e: isinstance(e, ast.Compare) and norm(e.left).endswith('port_no') and 'OFPP_MAX' in norm(e.comparators[0]) and isinstance(e.ops[0], (ast.GtE, ast.Gt))), True)]
    virt = pmn[0] in q.reach_under(repo, smod, g3, q.Env({}, msv), None)
    ctx.ob('R-DOM', ut, "only physical ports are touched", not virt, "port-mod unreachable for port_no >= OFPP_MAX" if not virt else "a port-mod can be sent for a virtual port number", ut, 'D3')
  # ---- D4 symmetric choice -----------------------------------------------------------------------------------
  q.inline_container_aliases(cst.node, 'adj')      # `from_s1 = adj[s1]`: the rules speak of adj[s1][s2]
  g4 = q.cfg_of(cst)
  w12 = [(st, v) for t, v, st, k in q.stores_in(cst.node, nested=False) if norm(t) == 'adj[s1][s2]' and v is not None]
  w21 = [(st, v) for t, v, st, k in q.stores_in(cst.node, nested=False) if norm(t) == 'adj[s2][s1]' and v is not None]
  good = len(w12) == 1 and len(w21) == 1
  if good:
    a = q.enclosing_stmt_node(g4, w12[0][0]); b = q.enclosing_stmt_node(g4, w21[0][0])
    l1 = norm(w12[0][1]); l2 = norm(w21[0][1])
    good = (g4.dominates(a, b) and g4.postdominates(b, a)) and l1.endswith('.port1') and l2.endswith('.port2') and l1.split('.')[0] == l2.split('.')[0]
  ctx.ob('R-AGREE', cst, "when a link is chosen for a switch pair both directions take their port from that same link", good,
         "adj[s1][s2] = l.port1 and adj[s2][s1] = l.port2 together" if good else
         "the two directions of a switch pair are no longer fixed from one link object (%s / %s): with parallel links learnt in different orders each side can enable a different cable - the flood-enabled ports are not the two ends of one link and flooding loops" % ([norm(s) for s, v in w12], [norm(s) for s, v in w21]), cst, 'D4')
  # the chosen link's reverse must be known: `<reverse of l> in <adjacency>` holds where the ports are fixed, the reverse being
  # flip(l) (nested helper building Link(l[2], l[3], l[0], l[1])) or the same constructor written out
  FIELDS = ['dpid1', 'port1', 'dpid2', 'port2']
  nest4 = q.nested_defs(cst.node)
  def piece (e, var):
    if isinstance(e, ast.Subscript) and isinstance(e.value, ast.Name) and e.value.id == var and isinstance(e.slice, ast.Constant): return e.slice.value
    if isinstance(e, ast.Attribute) and isinstance(e.value, ast.Name) and e.value.id == var and e.attr in FIELDS: return FIELDS.index(e.attr)
    return None
  def reversed_of (e):
    """name of the link variable whose reverse e builds, or None"""
    if isinstance(e, ast.Attribute) and isinstance(e.value, ast.Name):
      # a property of the Link class that builds the reverse (Link.flipped)
      lk_ = dmod.classes.get('Link')
      pf_ = lk_.methods.get(e.attr) if lk_ is not None else None
      if pf_ is not None and 'property' in pf_.decorators:
        body = [b for b in pf_.node.body if not (isinstance(b, ast.Expr) and isinstance(b.value, ast.Constant))]
        if len(body) == 1 and isinstance(body[0], ast.Return) and reversed_of_ctor(body[0].value, pf_.params[0]): return e.value.id
        # by evaluation on the sample link (1, 2, 3, 4): the property yields Link(3, 4, 1, 2)
        def prop_val (f_, depth=0):
          gf_ = q.cfg_of(f_)
          def hook (call, env=None):
            if call_name(call) == 'Link':
              try: return (True, tuple(q.eval_env2(repo, dmod, a_, env, lk_) for a_ in call.args))
              except Exception: return (False, None)
            return (False, None)
          hook.wants_env = True
          ms = []
          if depth < 2:
            for nm_, pf2 in lk_.methods.items():
              if pf2 is not f_ and 'property' in pf2.decorators:
                v2 = prop_val(pf2, depth + 1)
                if v2 is not None: ms.append(((lambda e_, nm_=nm_: isinstance(e_, ast.Attribute) and e_.attr == nm_ and norm(e_.value) == 'self'), v2))
          out = set()
          for p_, e_ in q.paths_under(repo, dmod, gf_, q.Env({'self': (1, 2, 3, 4)}, ms, hook), gf_.entry, [n_ for n_ in gf_.nodes if n_.kind == 'return'], lk_, limit=10):
            try: out.add(q.eval_env2(repo, dmod, p_[-1].ast.value, e_, lk_))
            except Exception: out.add('?')
          return list(out)[0] if len(out) == 1 and '?' not in out else None
        if prop_val(pf_) == (3, 4, 1, 2): return e.value.id
      return None
    if not isinstance(e, ast.Call): return None
    if isinstance(e.func, ast.Name) and e.func.id in nest4 and len(e.args) == 1 and isinstance(e.args[0], ast.Name):
      h = nest4[e.func.id]; hn = getattr(h, "node", h)
      body = [b for b in hn.body if not (isinstance(b, ast.Expr) and isinstance(b.value, ast.Constant))]
      if len(body) == 1 and isinstance(body[0], ast.Return) and len(hn.args.args) == 1:
        inner = reversed_of_ctor(body[0].value, hn.args.args[0].arg)
        return e.args[0].id if inner else None
      return None
    for v in set(x.id for x in ast.walk(e) if isinstance(x, ast.Name)):
      if reversed_of_ctor(e, v): return v
    return None
  def reversed_of_ctor (e, var):
    return isinstance(e, ast.Call) and call_name(e) == 'Link' and len(e.args) == 4 and not e.keywords and [piece(a, var) for a in e.args] == [2, 3, 0, 1]
  def is_bidir (e):
    return isinstance(e, ast.Compare) and len(e.ops) == 1 and isinstance(e.ops[0], ast.In) and norm(e.comparators[0]).endswith('adjacency') and reversed_of(e.left) is not None
  membership = [n for n in g4.nodes if n.kind == 'cond' and isinstance(n.ast, ast.Compare) and isinstance(n.ast.ops[0], (ast.In, ast.NotIn)) and 'adjacency' in norm(n.ast.comparators[0])]
  if w12:
    wn = q.enclosing_stmt_node(g4, w12[0][0])
    lv = norm(w12[0][1]).split('.')[0]
    holds = [(l_, r_) for l_, o_, r_, b_ in q.guard_facts(g4, wn) if o_ == 'in' and norm(r_).endswith('adjacency') and reversed_of(l_) == lv]
    if holds:
      ctx.ob('R-DOM', cst, "only links seen in both directions are used for the tree", True, "under `%s in %s`" % (norm(holds[0][0]), norm(holds[0][1])), cst, 'D4')
    elif membership and not any(is_bidir(n.ast) for n in membership) and any(reversed_of(n.ast.left) is None and isinstance(n.ast.left, ast.Call) for n in membership):
      ctx.bad('R-DOM', cst, "only links seen in both directions are used for the tree", "the membership test %s does not look up the reverse of the link (dpid2, port2, dpid1, port1)" % [norm(n.ast) for n in membership][:2], cst, 'D4')
    elif any(is_bidir(n.ast) for n in membership):
      # the test exists but does not guard the choice: decide by reachability with the reverse absent
      env_ = q.Env({}, [(is_bidir, False)])
      r_ = q.reach_under(repo, cst.module, g4, env_, None)
      if wn in r_:
        # the choice may be recorded in a local first (`good = l ... if good is not None: adj[..] = good.port1`): follow the constants
        r2_ = q.reach_under_cp(repo, cst.module, g4, env_, None, limit=2000)
        if r2_ and wn not in r2_ and g4.exit in r2_: r_ = r2_
      ctx.ob('R-DOM', cst, "only links seen in both directions are used for the tree", wn not in r_,
             "the ports are fixed only when the reverse link is known" if wn not in r_ else "the ports of a pair are fixed from a link whose reverse direction is not in the adjacency table: one-way links end up in the tree", cst, 'D4')
    else:
      ctx.bad('R-DOM', cst, "only links seen in both directions are used for the tree", "no test that the reverse of the chosen link is known", cst, 'D4')
  dels = [x for x in g4.nodes if x.ast is not None and isinstance(x.ast, ast.Delete)]
  d12 = [x for x in dels if 'adj[s1][s2]' in norm(x.ast)]; d21 = [x for x in dels if 'adj[s2][s1]' in norm(x.ast)]
  ctx.ob('R-AGREE', cst, "a pair without a bidirectional link is removed in both directions", bool(d12) and bool(d21) and g4.dominates(d12[0], d21[0]), "del adj[s1][s2]; del adj[s2][s1]", cst, 'D4')
  for f in (pin, dl, exp, cdown, mk, ut, cst):
    for nm, node in defs.undefined_names(repo, f):
      ctx.bad('R-DEF', f, "undefined name `%s`" % nm, "NameError on this path", (f.module, node), 'D1')
  # ---- mechanisms this property shares with others: their checks' rules about these functions are obligations here too
  ctx.include('C17', ['PortCollection.'], "the spanning tree walks the connection's port view")
  ctx.include('C09', ['Connection.disconnect', 'OpenFlowNexus._disconnect', 'OpenFlowNexus._connect'], 'discovery reacts to connection up / down events and the registry')
